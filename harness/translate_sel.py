"""T-tier, selection grammar: the decision logic of `wavespectra/core/select.py` → Lean definitions written to
`lean/WsVerif/Gen/SelKernels.lean` (only if changed).  Called from `translate.generate()` after the last generator.

Translated (Python `ast`, statement by statement):

* class `Coordinates`: `__init__` together with `_validate` (→ `selInit`: the assertion, the `ValueError` of a reduction
  of an empty array, the `consistent` flag → `selConsistent`), `_swap_longitude_convention` (→ `selSwap`), the property
  `lons` (→ `selLons`), `distance` (→ `selDistance`), `nearer` (→ `selNearer`), `nearest` (→ `selNearest`);
  `_is_180` / `_is_360` are the scalar kernels `Gen.is180` / `Gen.is360` of `translate.py` (`Gen/LonConv.lean`), reused;
* `SpecDataset.sel` (wavespectra/specdataset.py; the method table, `exact=True` for `method=None`) is pinned verbatim
  (`selDispatch_src`, `selDispatch_defaults`), not translated;
* `sel_nearest` (→ `selNearestIds`, loop body `selNearestIds_loop1`), `sel_idw` (→ `selIdw`, `selIdw_loop1/2/3`),
  `sel_bbox` (→ `selBboxIds`): everything up to the statement that hands the selected indices / linear combinations to
  xarray (`dsout = dset.isel(**{attrs.SITENAME: station_ids})`, `dsout = xr.concat(dsout, dim=attrs.SITENAME)`).
  From that statement on the body is xarray plumbing: it is NOT translated but pinned verbatim as `<kernel>_tail_src`
  (any edit of it breaks the pin), except the statement deciding the convention of the reported longitudes
  (`if coords.consistent is False: dsout.lon.values = coords._swap_longitude_convention(dsout.lon.values)`), which is
  translated as `<kernel>Report`.

Every generated definition is identified with the hand-written model (`Model/Select.lean`, `Model/SelectFixed.lean`)
by a theorem `gensel_*` of `Props/C14sel.lean`, FOR ALL INPUTS.

Target vocabulary: `Model/SelRt.lean` (namespace `WS.Sel`), one definition per accepted idiom.  Reading of the source
(trusted; everything after it is proved):

* floats are `Rat`; a 1-D float array is `List Rat`, an index array `List Nat`, a mask `List Bool`; `np.array(x)`,
  `float(x)`, `x.values` after `isinstance(x, xr.DataArray)` are the identity; a scalar broadcasts against an array;
* `np.sqrt` is the ORACLE parameter `sqrt : Rat → Rat` (first parameter of every kernel that needs it), exactly as the
  `sq` of `Model/Select.lean`; nothing is assumed about it in the generated code;
* `np.argsort` = STABLE ascending order (numpy's default sort is not stable; ties in index order is the order the hand
  model uses), `argmin` = first minimum, `np.where(m)[0]` = ascending indices of `True`;
* value semantics: `longitudes[m] = …` re-binds the local name (the in-place update of the caller's array — the second
  evaluation of the property `lons` sees already swapped numbers — is NOT modelled; the differential run covers it);
* `raise C(...)` → `.error` of the class (`AssertionError`, `ValueError`, `NotImplementedError`; messages dropped),
  `assert c` → `AssertionError`, `logger.<level>(...)` → nothing; `X.min()/X.max()` inside `_is_180/_is_360` raise
  `ValueError` on an empty array: `selInit` tests emptiness of each array before its first reduction;
* `for … in zip(a, b)` → `List.foldl` (`List.foldlM` in `Except` when the body raises) of a generated step function over
  `List.zip a b`; state = the variables assigned in the body that are read before being assigned in a later iteration
  or after the loop (a loop target read after the loop starts from `0`: Python raises `NameError` if the loop did not
  run; the source guards this with `len(indices) == 0 or …`); `break` → a `done` flag in the state; `continue` → the
  state unchanged; `l.append(x)` → `l ++ [x]`; `x = l.pop(0)` → `Sel.headN/headR l`, `l := List.tail l`;
* `if` with fall-through: the continuation is duplicated into both branches;
* `c * dset.isel(site=i, drop=True)`, `+=`, `*=` → formal linear combinations `Sel.LC`; `dset.isel(site=0, drop=True) *
  np.nan` → `none`.

Anything else raises `Untranslatable`: the kernel is replaced by a comment in the generated file (so every bridge that
mentions it stops compiling) and is reported as `untranslatable` by `python -m harness.translate`.
"""
import ast
import re

from .translate import (Untranslatable, _module, body_stmts, find_func, func_literals, kernel_is_180, kernel_is_360,
                        lean_str, rat, write_if_changed)

SELECT = "wavespectra/core/select.py"

R, N, INT, B, S, VR, VN, VB, OI, LC, OLC, LOLC, LIT, NONE, ISEL = (
    "R", "N", "INT", "B", "S", "VR", "VN", "VB", "OI", "LC", "OLC", "LOLC", "LIT", "NONE", "ISEL")
LEAN_TY = {R: "Rat", N: "Nat", INT: "Int", B: "Bool", S: "String", VR: "List Rat", VN: "List Nat", VB: "List Bool",
           OI: "Option Int", LC: "Sel.LC", OLC: "Option Sel.LC", LOLC: "List (Option Sel.LC)"}
DEFAULT = {R: "(0 : Rat)", N: "(0 : Nat)", B: "false", VR: "([] : List Rat)", VN: "([] : List Nat)", VB: "([] : List Bool)",
           LC: "([] : Sel.LC)", OLC: "(none : Option Sel.LC)", LOLC: "([] : List (Option Sel.LC))"}
ELEM = {VR: R, VN: N, VB: B, LOLC: OLC}
LISTOF = {R: VR, N: VN, B: VB, OLC: LOLC}
ERRS = {"AssertionError": ".assertionError", "ValueError": ".valueError", "NotImplementedError": ".notImplemented",
        "IndexError": ".indexError", "TypeError": ".typeError", "KeyError": ".keyError"}
LEAN_KEYWORDS = {"at", "from", "end", "fun", "open", "in", "do", "then", "else", "if", "let", "have", "show", "by", "match",
                 "with", "where", "def", "theorem", "instance", "structure", "namespace", "section", "import", "return",
                 "for", "mut", "Type", "Prop", "Sort", "some", "none", "default", "sqrt", "st", "el", "using", "calc",
                 "notation", "abbrev", "example", "lemma", "is180", "is360"}

# declared element types of accumulators that start as `[]` (anything else: untranslatable)
EMPTY_LISTS = {"station_ids": VN, "indices": VN, "factors": VR, "dsout": LOLC}
# types of the fields of a `Coordinates` object, in canonical (parameter) order
FIELDS = [("_lons", VR), ("lats", VR), ("dset_lons", VR), ("dset_lats", VR), ("consistent", B)]
FIELD_TY = dict(FIELDS)


def lty(t):
    if isinstance(t, tuple):
        return "(" + " × ".join(lty(x) for x in t[1]) + ")"
    return LEAN_TY[t]


def ident(name):
    return f"«py_{name}»" if name in LEAN_KEYWORDS else name


def occurs(idn, text):
    return re.search(r"(?<![\w.«»'])" + re.escape(idn) + r"(?![\w»'])", text) is not None


class Val:
    def __init__(self, ty, s=None, num=None, isel=None):
        self.ty, self.s, self.num, self.isel = ty, s, num, isel


class Kernel:
    """a translated function callable from later ones"""

    def __init__(self, lean, fields, args, ret, sqrt, exc=False):
        self.lean, self.fields, self.args, self.ret, self.sqrt, self.exc = lean, fields, args, ret, sqrt, exc


KERNELS = {}  # python method / function name -> Kernel
FAILED = {}   # python name -> reason


def need(name):
    if name not in KERNELS:
        raise Untranslatable(f"depends on `{name}`, which is untranslatable ({FAILED.get(name, 'not translated')})")
    return KERNELS[name]


# ------------------------------------------------------------------------------------------------
# small AST analyses
# ------------------------------------------------------------------------------------------------
def target_names(t):
    if isinstance(t, ast.Name):
        return [t.id]
    if isinstance(t, (ast.Tuple, ast.List)):
        return [n for e in t.elts for n in target_names(e)]
    return []


def loads(node, name):
    return any(isinstance(n, ast.Name) and n.id == name and isinstance(n.ctx, ast.Load) for n in ast.walk(node))


def is_logging(s):
    return (isinstance(s, ast.Expr) and isinstance(s.value, ast.Call) and isinstance(s.value.func, ast.Attribute)
            and isinstance(s.value.func.value, ast.Name) and s.value.func.value.id == "logger"
            and s.value.func.attr in ("debug", "info", "warning", "error"))


def mutated_receiver(s):
    """`x.append(e)` / `x.pop(0)` as a statement or as the value of an assignment: the name `x`"""
    call = s.value if isinstance(s, (ast.Expr, ast.Assign)) else None
    if (isinstance(call, ast.Call) and isinstance(call.func, ast.Attribute) and call.func.attr in ("append", "pop")
            and isinstance(call.func.value, ast.Name)):
        return call.func.value.id
    return None


def assigned_in(stmts):
    """names (in first-assignment order) bound anywhere in the statements"""
    out = []

    def add(n):
        if n not in out:
            out.append(n)

    def go(ss):
        for s in ss:
            if isinstance(s, ast.Assign):
                for t in s.targets:
                    for n in target_names(t):
                        add(n)
                    if isinstance(t, ast.Subscript) and isinstance(t.value, ast.Name):
                        add(t.value.id)
            elif isinstance(s, ast.AugAssign):
                for n in target_names(s.target):
                    add(n)
            elif isinstance(s, ast.For):
                for n in target_names(s.target):
                    add(n)
                go(s.body)
                go(s.orelse)
            elif isinstance(s, ast.If):
                go(s.body)
                go(s.orelse)
            r = mutated_receiver(s)
            if r:
                add(r)
    go(stmts)
    return out


def first_use(name, stmts):
    """'use' if `name` may be read before being re-bound on some path through `stmts`, 'kill' if it is re-bound (or the
    path ends) on every path, None if the statements neither read nor definitely re-bind it"""
    for s in stmts:
        if isinstance(s, ast.Assign):
            if loads(s.value, name) or any(isinstance(t, ast.Subscript) and loads(t, name) for t in s.targets):
                return "use"
            if mutated_receiver(s) == name:
                return "use"
            if any(name in target_names(t) for t in s.targets):
                return "kill"
        elif isinstance(s, ast.AugAssign):
            if loads(s.value, name) or name in target_names(s.target) or loads(s.target, name):
                return "use"
        elif isinstance(s, ast.If):
            if loads(s.test, name):
                return "use"
            b, o = first_use(name, s.body), first_use(name, s.orelse)
            if b == "use" or o == "use":
                return "use"
            if b == "kill" and o == "kill":
                return "kill"
        elif isinstance(s, ast.For):
            if loads(s.iter, name):
                return "use"
            if name in target_names(s.target):
                return "kill"   # reading: a loop target is (re)bound by the loop even if it does not run (then: the default)
            if first_use(name, s.body) == "use":
                return "use"
        elif isinstance(s, (ast.Raise, ast.Return)):
            return "use" if any(loads(c, name) for c in ast.iter_child_nodes(s)) else "kill"
        elif isinstance(s, (ast.Continue, ast.Break, ast.Pass)):
            continue
        else:
            if loads(s, name) or mutated_receiver(s) == name:
                return "use"
    return None


def live_after(name, after):
    for stmts in after:
        r = first_use(name, stmts)
        if r == "use":
            return True
        if r == "kill":
            return False
    return False


def contains(stmts, kinds, into_loops=True):
    for s in stmts:
        if isinstance(s, kinds):
            return True
        if isinstance(s, ast.If) and (contains(s.body, kinds, into_loops) or contains(s.orelse, kinds, into_loops)):
            return True
        if isinstance(s, ast.For) and into_loops and contains(s.body, kinds, into_loops):
            return True
    return False


# ------------------------------------------------------------------------------------------------
# one function
# ------------------------------------------------------------------------------------------------
class Ctx:
    def __init__(self, exc, loop=None):
        self.exc, self.loop = exc, loop


class FnTr:
    def __init__(self, pyname, lean, self_name=None):
        self.pyname, self.lean, self.self_name = pyname, lean, self_name
        self.sqrt = False
        self.fields = []         # fields of `self` used (directly or through calls)
        self.aux = []            # generated loop step definitions
        self.nloop = 0
        self.pins = []           # (name, text) source pins

    def bad(self, msg):
        return Untranslatable(f"{self.pyname}: {msg}")

    # ---- fields of `self`
    def field(self, name):
        if name not in FIELD_TY:
            raise self.bad(f"unknown field self.{name}")
        if name not in self.fields:
            self.fields.append(name)
        return Val(FIELD_TY[name], ident(name))

    def obj_field(self, obj, name):
        if name not in obj:
            raise self.bad(f"unknown attribute coords.{name}")
        return obj[name]

    # ---- coercions
    def rat(self, v):
        if v.ty == LIT:
            return rat(v.num)
        if v.ty == R:
            return v.s
        raise self.bad(f"expected a float, got {v.ty}: {v.s}")

    def nat(self, v):
        if v.ty == LIT and isinstance(v.num, int) and v.num >= 0:
            return f"({v.num} : Nat)"
        if v.ty == N:
            return v.s
        raise self.bad(f"expected an index, got {v.ty}: {v.s}")

    def boolean(self, v):
        """Python truth value: Booleans; a list is true iff non-empty"""
        if v.ty == B:
            return v.s
        if v.ty in (VN, VR, LOLC, LC):
            return f"(!(List.isEmpty {v.s}))"
        raise self.bad(f"truth value of {v.ty}")

    # ---- expressions
    def tr(self, e, env):
        if isinstance(e, ast.Constant):
            if isinstance(e.value, bool):
                return Val(B, "true" if e.value else "false")
            if isinstance(e.value, (int, float)):
                return Val(LIT, num=e.value)
            if isinstance(e.value, str):
                return Val(S, lean_str(e.value))
            if e.value is None:
                return Val(NONE, "none")
            raise self.bad(f"constant {e.value!r}")
        if isinstance(e, ast.Name):
            if e.id in env:
                return env[e.id]
            raise self.bad(f"free name {e.id}")
        if isinstance(e, ast.Attribute):
            return self.attribute(e, env)
        if isinstance(e, ast.UnaryOp):
            v = self.tr(e.operand, env)
            if isinstance(e.op, ast.USub):
                if v.ty == LIT:
                    return Val(LIT, num=-v.num)
                if v.ty == R:
                    return Val(R, f"(-{v.s})")
                if v.ty == VR:
                    return Val(VR, f"(Sel.vneg {v.s})")
            if isinstance(e.op, ast.Not):
                if v.ty in (VN, VR, LOLC, LC):
                    return Val(B, f"(List.isEmpty {v.s})")
                return Val(B, f"(!{self.boolean(v)})")
            if isinstance(e.op, ast.Invert) and v.ty == VB:
                return Val(VB, f"(Sel.bnot {v.s})")
            raise self.bad(f"unary operator in `{ast.unparse(e)}`")
        if isinstance(e, ast.BinOp):
            return self.binop(e, env)
        if isinstance(e, ast.BoolOp):
            vs = [self.boolean(self.tr(v, env)) for v in e.values]
            op = " || " if isinstance(e.op, ast.Or) else " && "
            return Val(B, "(" + op.join(vs) + ")")
        if isinstance(e, ast.Compare):
            return self.compare(e, env)
        if isinstance(e, ast.Subscript):
            return self.subscript(e, env)
        if isinstance(e, ast.Call):
            return self.call(e, env)
        if isinstance(e, ast.Tuple):
            vs = [self.tr(x, env) for x in e.elts]
            if any(v.ty in (LIT, NONE, ISEL) for v in vs):
                raise self.bad(f"tuple `{ast.unparse(e)}`")
            return Val(("tuple", tuple(v.ty for v in vs)), "(" + ", ".join(v.s for v in vs) + ")")
        raise self.bad(f"expression `{ast.unparse(e)[:100]}`")

    def attribute(self, e, env):
        if isinstance(e.value, ast.Name):
            if e.value.id == self.self_name:
                return self.field(e.attr)
            v = env.get(e.value.id)
            if isinstance(v, dict):   # a Coordinates object
                if e.attr == "lons":
                    k = need("lons")
                    return self.kernel_call(k, v, [], env)
                return self.obj_field(v, e.attr)
        if e.attr == "size":
            v = self.tr(e.value, env)
            if v.ty in (VR, VN, VB):
                return Val(N, f"(List.length {v.s})")
        raise self.bad(f"attribute `{ast.unparse(e)}`")

    ARITH = {ast.Add: ("+", "add"), ast.Sub: ("-", "sub"), ast.Mult: ("*", "mul"), ast.Div: ("/", "div")}

    def binop(self, e, env):
        # the all-NaN mask
        if ast.unparse(e) == "dset.isel(site=0, drop=True) * np.nan":
            return Val(OLC, "(none : Option Sel.LC)")
        a, b = self.tr(e.left, env), self.tr(e.right, env)
        sc = (R, LIT)
        if isinstance(e.op, ast.Mult) and b.ty == ISEL and a.ty in sc:
            return Val(LC, f"(Sel.lcTerm {self.rat(a)} {b.isel})")
        if isinstance(e.op, ast.Pow):
            if not (b.ty == LIT and isinstance(b.num, int) and b.num >= 0):
                raise self.bad(f"`**` with a non-literal or non-natural exponent in `{ast.unparse(e)}`")
            if a.ty in sc:
                return Val(R, f"({self.rat(a)} ^ {b.num})")
            if a.ty == VR:
                return Val(VR, f"(Sel.vpow {a.s} {b.num})")
            raise self.bad(f"`**` on {a.ty}")
        if isinstance(e.op, ast.Mod):
            if a.ty in sc and b.ty in sc:
                return Val(R, f"(WS.pmod {self.rat(a)} {self.rat(b)})")
            if a.ty == VR and b.ty in sc:
                return Val(VR, f"(Sel.vmodS {a.s} {self.rat(b)})")
            raise self.bad(f"`%` on {a.ty}, {b.ty}")
        if isinstance(e.op, ast.BitAnd) and a.ty == VB and b.ty == VB:
            return Val(VB, f"(Sel.band {a.s} {b.s})")
        if isinstance(e.op, ast.BitOr) and a.ty == VB and b.ty == VB:
            return Val(VB, f"(Sel.bor {a.s} {b.s})")
        if type(e.op) in self.ARITH:
            sym, nm = self.ARITH[type(e.op)]
            if a.ty in sc and b.ty in sc:
                if a.ty == LIT and b.ty == LIT:
                    raise self.bad(f"constant expression `{ast.unparse(e)}`")
                return Val(R, f"({self.rat(a)} {sym} {self.rat(b)})")
            if a.ty == VR and b.ty in sc:
                return Val(VR, f"(Sel.v{nm}S {a.s} {self.rat(b)})")
            if a.ty in sc and b.ty == VR:
                return Val(VR, f"(Sel.s{nm}V {self.rat(a)} {b.s})")
            if a.ty == VR and b.ty == VR:
                return Val(VR, f"(Sel.v{nm} {a.s} {b.s})")
        raise self.bad(f"operator in `{ast.unparse(e)}` on {a.ty}, {b.ty}")

    CMP = {ast.Lt: ("<", "lt"), ast.LtE: ("≤", "le"), ast.Gt: (">", "gt"), ast.GtE: ("≥", "ge"), ast.Eq: ("=", "eq"),
           ast.NotEq: ("≠", "ne")}
    FLIP = {"lt": "gt", "le": "ge", "gt": "lt", "ge": "le", "eq": "eq", "ne": "ne"}

    def compare(self, e, env):
        if len(e.ops) != 1:
            raise self.bad(f"chained comparison `{ast.unparse(e)}`")
        op = e.ops[0]
        a, b = self.tr(e.left, env), self.tr(e.comparators[0], env)
        sc = (R, LIT)
        if isinstance(op, (ast.Is, ast.IsNot)):
            if a.ty == B and b.ty == B:
                t = f"({a.s} == {b.s})"
                return Val(B, t if isinstance(op, ast.Is) else f"(!{t})")
            if a.ty == OI and b.ty == NONE:
                t = f"(Option.isNone {a.s})"
                return Val(B, t if isinstance(op, ast.Is) else f"(!{t})")
            raise self.bad(f"`{ast.unparse(e)}`: `is` on {a.ty}, {b.ty}")
        if isinstance(op, (ast.In, ast.NotIn)):
            if a.ty in (N,) and b.ty == VN:
                t = f"(decide ({a.s} ∈ {b.s}))"
                return Val(B, t if isinstance(op, ast.In) else f"(!{t})")
            raise self.bad(f"`{ast.unparse(e)}`: `in` on {a.ty}, {b.ty}")
        if type(op) not in self.CMP:
            raise self.bad(f"comparison `{ast.unparse(e)}`")
        sym, nm = self.CMP[type(op)]
        if a.ty in sc and b.ty in sc:
            return Val(B, f"(decide ({self.rat(a)} {sym} {self.rat(b)}))")
        if a.ty == VR and b.ty in sc:
            return Val(VB, f"(Sel.v{nm}S {a.s} {self.rat(b)})")
        if a.ty in sc and b.ty == VR:
            return Val(VB, f"(Sel.v{self.FLIP[nm]}S {b.s} {self.rat(a)})")
        if a.ty in (N, LIT) and b.ty in (N, LIT) and N in (a.ty, b.ty):
            return Val(B, f"(decide ({self.nat(a)} {sym} {self.nat(b)}))")
        if isinstance(op, (ast.Eq, ast.NotEq)) and a.ty == b.ty and a.ty in (B, S):
            t = f"({a.s} == {b.s})"
            return Val(B, t if isinstance(op, ast.Eq) else f"(!{t})")
        raise self.bad(f"comparison `{ast.unparse(e)}` on {a.ty}, {b.ty}")

    def subscript(self, e, env):
        # np.where(mask)[0]
        if (isinstance(e.value, ast.Call) and ast.unparse(e.value.func) == "np.where" and len(e.value.args) == 1
                and not e.value.keywords and isinstance(e.slice, ast.Constant) and e.slice.value == 0):
            m = self.tr(e.value.args[0], env)
            if m.ty != VB:
                raise self.bad(f"np.where of {m.ty}")
            return Val(VN, f"(Sel.whereTrue {m.s})")
        a = self.tr(e.value, env)
        if isinstance(e.slice, ast.Slice):
            sl = e.slice
            if sl.lower is not None or sl.step is not None or sl.upper is None:
                raise self.bad(f"slice `{ast.unparse(e)}`")
            u = self.tr(sl.upper, env)
            if a.ty not in (VR, VN):
                raise self.bad(f"slice of {a.ty}")
            if u.ty == OI:
                return Val(a.ty, f"(Sel.pySlice {a.s} {u.s})")
            if u.ty in (N, LIT):
                return Val(a.ty, f"(List.take {self.nat(u)} {a.s})")
            raise self.bad(f"slice bound `{ast.unparse(sl.upper)}` of type {u.ty}")
        i = self.tr(e.slice, env)
        if a.ty == VR and i.ty in (N, LIT):
            return Val(R, f"(WS.getR {a.s} {self.nat(i)})")
        if a.ty == VN and i.ty in (N, LIT):
            return Val(N, f"(Sel.getN {a.s} {self.nat(i)})")
        if a.ty == VR and i.ty == VN:
            return Val(VR, f"(Sel.take {a.s} {i.s})")
        if a.ty in (VR, VN) and i.ty == VB:
            return Val(a.ty, f"(Sel.maskGet {a.s} {i.s})")
        raise self.bad(f"subscript `{ast.unparse(e)}` on {a.ty}[{i.ty}]")

    def kernel_call(self, k, obj, argvals, env):
        """call of a translated method; `obj` = field map of the receiver (None: `self`)"""
        parts = [k.lean]
        if k.sqrt:
            self.sqrt = True
            parts.append("sqrt")
        for f in k.fields:
            parts.append(self.field(f).s if obj is None else self.obj_field(obj, f).s)
        if len(argvals) != len(k.args):
            raise self.bad(f"call of {k.lean} with {len(argvals)} arguments, expected {len(k.args)}")
        for (an, at), v in zip(k.args, argvals):
            if at == R:
                parts.append(self.rat(v))
            elif at == OI and v.ty == NONE:
                parts.append("(none : Option Int)")
            elif at == OI and v.ty == LIT and isinstance(v.num, int):
                parts.append(f"(some ({v.num} : Int))")
            elif v.ty == at:
                parts.append(v.s)
            else:
                raise self.bad(f"argument {an} of {k.lean}: expected {at}, got {v.ty}")
        return Val(k.ret, "(" + " ".join(parts) + ")")

    def call(self, e, env):
        fn = ast.unparse(e.func)
        args = e.args
        if e.keywords and fn != "dset.isel":
            raise self.bad(f"keyword arguments in `{ast.unparse(e)[:80]}`")
        if any(isinstance(a, ast.Starred) for a in args):
            raise self.bad(f"starred argument in `{ast.unparse(e)[:80]}`")
        if fn in ("np.array", "float") and len(args) == 1:
            v = self.tr(args[0], env)
            if v.ty in (R, VR) or (v.ty == LIT and fn == "float"):
                return v
            raise self.bad(f"{fn} of {v.ty}")
        if fn in ("np.abs", "np.absolute", "abs") and len(args) == 1:
            v = self.tr(args[0], env)
            if v.ty == R:
                return Val(R, f"(WS.absR {v.s})")
            if v.ty == VR:
                return Val(VR, f"(Sel.vabs {v.s})")
            raise self.bad(f"abs of {v.ty}")
        if fn in ("np.minimum", "np.maximum") and len(args) == 2:
            a, b = self.tr(args[0], env), self.tr(args[1], env)
            w = "min" if fn == "np.minimum" else "max"
            if a.ty == VR and b.ty == VR:
                return Val(VR, f"(Sel.v{w} {a.s} {b.s})")
            if a.ty in (R, LIT) and b.ty in (R, LIT):
                return Val(R, f"(WS.{w}R {self.rat(a)} {self.rat(b)})")
            raise self.bad(f"{fn} on {a.ty}, {b.ty}")
        if fn == "np.sqrt" and len(args) == 1:
            v = self.tr(args[0], env)
            self.sqrt = True
            if v.ty == VR:
                return Val(VR, f"(Sel.vmap sqrt {v.s})")
            if v.ty == R:
                return Val(R, f"(sqrt {v.s})")
            raise self.bad(f"np.sqrt of {v.ty}")
        if fn == "np.argsort" and len(args) == 1:
            v = self.tr(args[0], env)
            if v.ty == VR:
                return Val(VN, f"(Sel.argsort {v.s})")
            raise self.bad(f"np.argsort of {v.ty}")
        if fn in ("min", "max") and len(args) == 1:
            v = self.tr(args[0], env)
            if v.ty == VR:
                return Val(R, f"(Sel.a{fn} {v.s})")
            raise self.bad(f"{fn} of {v.ty}")
        if fn == "len" and len(args) == 1:
            v = self.tr(args[0], env)
            if v.ty in (VR, VN, VB, LOLC, LC):
                return Val(N, f"(List.length {v.s})")
            raise self.bad(f"len of {v.ty}")
        if fn == "sum" and len(args) == 1:
            v = self.tr(args[0], env)
            if v.ty == VR:
                return Val(R, f"(List.sum {v.s})")
            raise self.bad(f"sum of {v.ty}")
        if fn == "dset.isel":
            kw = {k.arg: k.value for k in e.keywords}
            if args or set(kw) != {"site", "drop"} or ast.unparse(kw["drop"]) != "True":
                raise self.bad(f"`{ast.unparse(e)}`: only dset.isel(site=i, drop=True) is read as station i")
            return Val(ISEL, isel=self.nat(self.tr(kw["site"], env)))
        if isinstance(e.func, ast.Attribute):
            recv, meth = e.func.value, e.func.attr
            if meth in ("argmin", "min", "max") and not args:
                v = self.tr(recv, env)
                if v.ty == VR:
                    return Val(N, f"(Sel.argmin {v.s})") if meth == "argmin" else Val(R, f"(Sel.a{meth} {v.s})")
                raise self.bad(f".{meth}() of {v.ty}")
            if isinstance(recv, ast.Name):
                obj = None if recv.id == self.self_name else env.get(recv.id)
                if recv.id == self.self_name or isinstance(obj, dict):
                    pyk = {"_is_180": "_is_180", "_is_360": "_is_360", "_swap_longitude_convention": "_swap_longitude_convention",
                           "distance": "distance", "nearest": "nearest", "nearer": "nearer"}.get(meth)
                    if pyk is None:
                        raise self.bad(f"method `{ast.unparse(e.func)}`")
                    return self.kernel_call(need(pyk), obj, [self.tr(a, env) for a in args], env)
        raise self.bad(f"call `{ast.unparse(e)[:100]}`")

    # ---- statements (continuation-passing; `k(env)` = Lean text of everything after the statement)
    def ret(self, ctx, text):
        return f".ok {text}" if ctx.exc else text

    def state_tuple(self, ctx, env, done):
        lp = ctx.loop
        parts = []
        for n, t in zip(lp["state"], lp["types"]):
            if n not in env:
                raise self.bad(f"loop state variable {n} is not defined")
            parts.append(env[n].s)
        if lp["done"]:
            parts.append("true" if done else "false")
        t = parts[0] if len(parts) == 1 else "(" + ", ".join(parts) + ")"
        return f".ok {t}" if lp["exc"] else t

    def block(self, stmts, env, ctx, k, after, ind):
        if not stmts:
            return k(env, ind)
        s, rest = stmts[0], stmts[1:]
        pad = "  " * ind

        def nxt(env2, ind2=ind):
            return self.block(rest, env2, ctx, k, after, ind2)

        after2 = (rest,) + after
        if is_logging(s) or isinstance(s, ast.Pass):
            return nxt(env)
        if isinstance(s, ast.Expr) and isinstance(s.value, ast.Constant) and isinstance(s.value.value, str):
            return nxt(env)
        if isinstance(s, ast.Return):
            if ctx.loop is not None or s.value is None:
                raise self.bad("`return` inside a loop / without a value")
            v = self.tr(s.value, env)
            if v.ty in (LIT, NONE, ISEL):
                raise self.bad(f"return of `{ast.unparse(s.value)}`")
            self.ret_ty = self.join_ret(v.ty)
            return pad + self.ret(ctx, v.s) + "\n"
        if isinstance(s, ast.Raise):
            if not ctx.exc:
                raise self.bad("`raise` in a function translated as pure")
            exc = s.exc
            cls = ast.unparse(exc.func) if isinstance(exc, ast.Call) else ast.unparse(exc) if exc is not None else None
            if cls not in ERRS or s.cause is not None:
                raise self.bad(f"raise of `{cls}`")
            return pad + f".error {ERRS[cls]}\n"
        if isinstance(s, ast.Assert):
            if not ctx.exc:
                raise self.bad("`assert` in a function translated as pure")
            c = self.boolean(self.tr(s.test, env))
            return pad + f"if !{c} then .error .assertionError else\n" + nxt(env)
        if isinstance(s, ast.Continue):
            if ctx.loop is None:
                raise self.bad("`continue` outside a loop")
            return pad + self.state_tuple(ctx, env, False) + "\n"
        if isinstance(s, ast.Break):
            if ctx.loop is None or not ctx.loop["done"]:
                raise self.bad("`break` outside a loop")
            return pad + self.state_tuple(ctx, env, True) + "\n"
        if isinstance(s, ast.If):
            return self.stmt_if(s, env, ctx, nxt, after2, ind)
        if isinstance(s, ast.For):
            return self.stmt_for(s, env, ctx, nxt, after2, ind)
        if isinstance(s, ast.Assign):
            return self.stmt_assign(s, env, ctx, nxt, ind)
        if isinstance(s, ast.AugAssign):
            return self.stmt_aug(s, env, nxt, ind)
        if isinstance(s, ast.Expr):
            return self.stmt_expr(s, env, nxt, ind)
        raise self.bad(f"statement `{ast.unparse(s)[:80]}`")

    def join_ret(self, ty):
        old = getattr(self, "ret_ty", None)
        if old is not None and old != ty:
            raise self.bad(f"return types differ: {old}, {ty}")
        return ty

    def bind(self, env, name, v, ind):
        """`let name : T := v` and the extended environment"""
        if v.ty in (LIT,):
            v = Val(R, rat(v.num))
        if v.ty in (NONE, ISEL) or isinstance(v, dict):
            raise self.bad(f"assignment of {v.ty} to {name}")
        env2 = dict(env)
        env2[name] = Val(v.ty, ident(name))
        return "  " * ind + f"let {ident(name)} : {lty(v.ty)} := {v.s}\n", env2

    def stmt_if(self, s, env, ctx, nxt, after2, ind):
        pad = "  " * ind
        # xarray plumbing that is the identity on arrays: `if isinstance(x, xr.DataArray): x = x.values`
        if (isinstance(s.test, ast.Call) and ast.unparse(s.test.func) == "isinstance" and not s.orelse and len(s.body) == 1
                and len(s.test.args) == 2 and isinstance(s.test.args[0], ast.Name)
                and ast.unparse(s.body[0]) == f"{s.test.args[0].id} = {s.test.args[0].id}.values"
                and ast.unparse(s.test.args[1]) == "xr.DataArray" and s.test.args[0].id in env):
            self.pins.append(("unwrap", ast.unparse(s)))
            return nxt(env)
        # an `if` whose only effect is logging: the test is evaluated and dropped
        if not s.orelse and all(is_logging(b) for b in s.body):
            self.tr(s.test, env)
            return nxt(env)
        c = self.boolean(self.tr(s.test, env))
        tb = self.block(s.body, env, ctx, nxt, after2, ind + 1)
        eb = self.block(s.orelse, env, ctx, nxt, after2, ind + 1)
        # (the continuation `nxt` is rendered inside each branch, at the branch's indentation)
        return pad + f"if {c} then\n" + tb + pad + "else\n" + eb

    def stmt_expr(self, s, env, nxt, ind):
        c = s.value
        if (isinstance(c, ast.Call) and isinstance(c.func, ast.Attribute) and c.func.attr == "append"
                and isinstance(c.func.value, ast.Name) and len(c.args) == 1 and not c.keywords):
            name = c.func.value.id
            lst = env.get(name)
            if not isinstance(lst, Val) or lst.ty not in ELEM:
                raise self.bad(f"append to `{name}`")
            v = self.tr(c.args[0], env)
            et = ELEM[lst.ty]
            if et == R:
                item = self.rat(v)
            elif et == OLC and v.ty == LC:
                item = f"(some {v.s})"
            elif v.ty == et:
                item = v.s
            else:
                raise self.bad(f"append of {v.ty} to a list of {et}")
            text, env2 = self.bind(env, name, Val(lst.ty, f"({lst.s} ++ [{item}])"), ind)
            return text + nxt(env2)
        raise self.bad(f"statement `{ast.unparse(s)[:80]}`")

    def stmt_aug(self, s, env, nxt, ind):
        if not isinstance(s.target, ast.Name) or s.target.id not in env:
            raise self.bad(f"augmented assignment `{ast.unparse(s)[:80]}`")
        a, b = env[s.target.id], self.tr(s.value, env)
        if a.ty == LC and b.ty == LC and isinstance(s.op, ast.Add):
            v = Val(LC, f"(Sel.lcAdd {a.s} {b.s})")
        elif a.ty == LC and b.ty in (R, LIT) and isinstance(s.op, ast.Mult):
            v = Val(LC, f"(Sel.lcScale {a.s} {self.rat(b)})")
        elif a.ty == R and b.ty in (R, LIT) and type(s.op) in self.ARITH:
            v = Val(R, f"({a.s} {self.ARITH[type(s.op)][0]} {self.rat(b)})")
        else:
            raise self.bad(f"augmented assignment `{ast.unparse(s)[:80]}` on {a.ty}, {b.ty}")
        text, env2 = self.bind(env, s.target.id, v, ind)
        return text + nxt(env2)

    def stmt_assign(self, s, env, ctx, nxt, ind):
        pad = "  " * ind
        if len(s.targets) != 1:
            raise self.bad(f"multiple assignment `{ast.unparse(s)[:80]}`")
        t = s.targets[0]
        # masked assignment a[m] = e
        if isinstance(t, ast.Subscript) and isinstance(t.value, ast.Name) and t.value.id in env:
            a, m, v = env[t.value.id], self.tr(t.slice, env), self.tr(s.value, env)
            if isinstance(a, Val) and a.ty == VR and m.ty == VB and v.ty == VR:
                text, env2 = self.bind(env, t.value.id, Val(VR, f"(Sel.maskSet {a.s} {m.s} {v.s})"), ind)
                return text + nxt(env2)
            raise self.bad(f"element assignment `{ast.unparse(s)[:80]}`")
        # x = l.pop(0)
        if (isinstance(t, ast.Name) and isinstance(s.value, ast.Call) and isinstance(s.value.func, ast.Attribute)
                and s.value.func.attr == "pop"):
            c = s.value
            if not (isinstance(c.func.value, ast.Name) and len(c.args) == 1 and ast.unparse(c.args[0]) == "0" and not c.keywords):
                raise self.bad(f"`{ast.unparse(s)}`: only l.pop(0)")
            lname = c.func.value.id
            lst = env.get(lname)
            if not isinstance(lst, Val) or lst.ty not in (VN, VR) or lname == t.id:
                raise self.bad(f"`{ast.unparse(s)}`: pop from {getattr(lst, 'ty', None)}")
            hd = "Sel.headN" if lst.ty == VN else "Sel.headR"
            t1, env1 = self.bind(env, t.id, Val(ELEM[lst.ty], f"({hd} {lst.s})"), ind)
            t2, env2 = self.bind(env1, lname, Val(lst.ty, f"(List.tail {lst.s})"), ind)
            return t1 + t2 + nxt(env2)
        # x = []
        if isinstance(t, ast.Name) and isinstance(s.value, ast.List) and not s.value.elts:
            if t.id not in EMPTY_LISTS:
                raise self.bad(f"`{t.id} = []`: element type unknown")
            ty = EMPTY_LISTS[t.id]
            text, env2 = self.bind(env, t.id, Val(ty, DEFAULT[ty]), ind)
            return text + nxt(env2)
        # coords = Coordinates(...)
        if isinstance(t, ast.Name) and isinstance(s.value, ast.Call) and ast.unparse(s.value.func) == "Coordinates":
            return self.stmt_coordinates(t.id, s.value, env, ctx, nxt, ind)
        v = self.tr(s.value, env)
        if isinstance(t, ast.Name):
            text, env2 = self.bind(env, t.id, v, ind)
            return text + nxt(env2)
        if isinstance(t, ast.Tuple) and all(isinstance(x, ast.Name) for x in t.elts):
            if not (isinstance(v.ty, tuple) and len(v.ty[1]) == len(t.elts)):
                raise self.bad(f"unpacking `{ast.unparse(s)[:80]}` of {v.ty}")
            self.fresh = getattr(self, "fresh", 0) + 1
            tmp = f"r{self.fresh}"
            text = pad + f"let {tmp} : {lty(v.ty)} := {v.s}\n"
            env2 = dict(env)
            n = len(t.elts)
            for i, (x, ty) in enumerate(zip(t.elts, v.ty[1])):
                text += pad + f"let {ident(x.id)} : {lty(ty)} := {tmp}{proj(i, n)}\n"
                env2[x.id] = Val(ty, ident(x.id))
            return text + nxt(env2)
        raise self.bad(f"assignment `{ast.unparse(s)[:80]}`")

    def stmt_coordinates(self, name, call, env, ctx, nxt, ind):
        pad = "  " * ind
        if not ctx.exc:
            raise self.bad("Coordinates(...) in a function translated as pure")
        init = need("__init__")
        params = ["dset", "lons", "lats", "dset_lons", "dset_lats"]
        actual = {}
        for p, a in zip(params, call.args):
            actual[p] = a
        for kw in call.keywords:
            if kw.arg not in params or kw.arg in actual:
                raise self.bad(f"`{ast.unparse(call)}`: argument {kw.arg}")
            actual[kw.arg] = kw.value
        if set(actual) != set(params) or ast.unparse(actual["dset"]) != "dset":
            raise self.bad(f"`{ast.unparse(call)}`: all of {params} must be passed, `dset` as `dset`")
        vals = {}
        for p in params[1:]:
            v = self.tr(actual[p], env)
            if v.ty != VR:
                raise self.bad(f"`{ast.unparse(call)}`: {p} is {v.ty}")
            vals[p] = v
        cv = ident(f"{name}_consistent")
        obj = {"consistent": Val(B, cv)}
        for f, src in init.field_exprs.items():     # which parameter of __init__ each field holds
            if src not in vals:
                raise self.bad(f"field {f} of Coordinates is `{src}`, not a parameter of __init__")
            obj[f] = vals[src]
        env2 = dict(env)
        env2[name] = obj
        text = pad + f"Except.bind ({init.lean} {vals['lons'].s} {vals['lats'].s} {vals['dset_lons'].s} {vals['dset_lats'].s}) fun ({cv} : Bool) =>\n"
        return text + nxt(env2)

    def stmt_for(self, s, env, ctx, nxt, after2, ind):
        pad = "  " * ind
        if s.orelse:
            raise self.bad("for … else")
        # iterated list
        it = s.iter
        if isinstance(it, ast.Call) and ast.unparse(it.func) == "zip" and len(it.args) == 2 and not it.keywords:
            a, b = self.tr(it.args[0], env), self.tr(it.args[1], env)
            if a.ty not in ELEM or b.ty not in ELEM:
                raise self.bad(f"zip of {a.ty}, {b.ty}")
            ets = [ELEM[a.ty], ELEM[b.ty]]
            ittext = f"(List.zip {a.s} {b.s})"
            if not (isinstance(s.target, ast.Tuple) and len(s.target.elts) == 2 and all(isinstance(x, ast.Name) for x in s.target.elts)):
                raise self.bad(f"loop target `{ast.unparse(s.target)}`")
            tnames = [x.id for x in s.target.elts]
            elty = ("tuple", tuple(ets))
        else:
            a = self.tr(it, env)
            if not isinstance(a, Val) or a.ty not in ELEM or not isinstance(s.target, ast.Name):
                raise self.bad(f"loop over `{ast.unparse(it)[:60]}`")
            ets, ittext, tnames, elty = [ELEM[a.ty]], a.s, [s.target.id], ELEM[a.ty]
        tty = dict(zip(tnames, ets))
        assigned = assigned_in(s.body)
        for n in tnames:
            if n not in assigned:
                assigned.append(n)
        wrap = (s.body,)          # the next iteration
        body_exc = contains(s.body, ast.Raise, into_loops=True)
        if body_exc and not ctx.exc:
            raise self.bad("a loop that raises in a function translated as pure")
        has_break = contains(s.body, ast.Break, into_loops=False)
        state = []
        for n in assigned:
            carried = n not in tnames and first_use(n, s.body) == "use"
            if carried or live_after(n, after2):
                state.append(n)
        types, inits = [], []
        for n in state:
            if n in env and isinstance(env[n], Val):
                types.append(env[n].ty)
                inits.append(env[n].s)
            elif n in tty:
                types.append(tty[n])
                inits.append(DEFAULT[tty[n]])
            else:
                raise self.bad(f"variable {n} is first assigned inside a loop and read after it")
        if not state:
            raise self.bad("a loop without effect on later statements")
        self.nloop += 1
        nl = self.nloop
        step = f"{self.lean}_loop{nl}"
        sty_parts = [lty(t) for t in types] + (["Bool"] if has_break else [])
        sty = sty_parts[0] if len(sty_parts) == 1 else "(" + " × ".join(sty_parts) + ")"
        nst = len(sty_parts)
        loop = dict(state=state, types=types, done=has_break, exc=body_exc, body=s.body)
        benv = dict(env)
        head = ""
        for i, (n, t) in enumerate(zip(state, types)):
            head += f"  let {ident(n)} : {lty(t)} := st{proj(i, nst)}\n"
            benv[n] = Val(t, ident(n))
        for i, (n, t) in enumerate(zip(tnames, ets)):
            head += f"  let {ident(n)} : {lty(t)} := el{proj(i, len(tnames))}\n"
            benv[n] = Val(t, ident(n))
        bctx = Ctx(ctx.exc, loop)
        body = self.block(s.body, benv, bctx, lambda e2, i2: "  " * i2 + self.state_tuple(bctx, e2, False) + "\n", wrap + after2, 1)
        if has_break:
            keep = ".ok st" if body_exc else "st"
            body_full = head + f"  if st{proj(nst - 1, nst)} then {keep} else\n" + body
        else:
            body_full = head + body
        # parameters of the step function: the variables of the environment its text mentions
        params = []
        if occurs("sqrt", body_full):
            self.sqrt = True
            params.append("(sqrt : Rat → Rat)")
        pargs = ["sqrt"] if params else []
        seen = set()
        for n, v in self.env_vals(env):
            if v.s in seen or v.s in (ident(x) for x in state) or v.s in (ident(x) for x in tnames):
                continue
            if occurs(v.s, body_full):
                seen.add(v.s)
                params.append(f"({v.s} : {lty(v.ty)})")
                pargs.append(v.s)
        rty = f"Except Err ({sty})" if body_exc else sty
        self.aux.append(f"/-- body of loop {nl} of `{self.pyname}` (`for {ast.unparse(s.target)} in {ast.unparse(s.iter)}`); "
                        f"state = ({', '.join(state)}{', done' if has_break else ''}) -/\n"
                        f"def {step}{''.join(' ' + p for p in params)} (st : {sty}) (el : {lty(elty)}) : {rty} :=\n" + body_full)
        init_parts = inits + (["false"] if has_break else [])
        init = init_parts[0] if nst == 1 else "(" + ", ".join(init_parts) + ")"
        stv = f"st{nl}"
        call = f"({step} {' '.join(pargs)})" if pargs else step
        env2 = dict(env)
        after_text = ""
        for i, (n, t) in enumerate(zip(state, types)):
            after_text += pad + f"let {ident(n)} : {lty(t)} := {stv}{proj(i, nst)}\n"
            env2[n] = Val(t, ident(n))
        if body_exc:
            text = pad + f"Except.bind (List.foldlM {call} {init} {ittext}) fun ({stv} : {sty}) =>\n"
        else:
            text = pad + f"let {stv} : {sty} := List.foldl {call} {init} {ittext}\n"
        return text + after_text + nxt(env2)

    def env_vals(self, env):
        for n, v in env.items():
            if isinstance(v, dict):
                for f, fv in v.items():
                    yield f"{n}.{f}", fv
            else:
                yield n, v


def proj(i, n):
    """projection of component `i` of a right-nested `n`-tuple"""
    if n == 1:
        return ""
    return ".2" * i + (".1" if i < n - 1 else "")


# ------------------------------------------------------------------------------------------------
# kernels
# ------------------------------------------------------------------------------------------------
CLASS_METHODS = ["__init__", "_validate", "_is_180", "_is_360", "_swap_longitude_convention", "lons", "distance", "nearer", "nearest"]
MODULE_DEFS = ["Coordinates", "sel_nearest", "sel_idw", "sel_bbox"]
IMPORTS = ["import logging", "import numpy as np", "import xarray as xr",
           "from wavespectra.core.attributes import attrs, set_spec_attributes"]


def module_shape():
    """the module consists of its docstring, the four imports, `logger = …`, the class and the three selectors — nothing can
    shadow a builtin (`min`, `max`, `len`, `sum`, `zip`, `abs`, `float`), `np`, `xr`, or re-define a method; returns the import lines"""
    mod = _module(SELECT)
    imports, defs = [], []
    for s in mod.body:
        if isinstance(s, ast.Expr) and isinstance(s.value, ast.Constant) and isinstance(s.value.value, str):
            continue
        if isinstance(s, (ast.Import, ast.ImportFrom)):
            imports.append(ast.unparse(s))
        elif isinstance(s, ast.Assign) and ast.unparse(s) == "logger = logging.getLogger(__name__)":
            continue
        elif isinstance(s, (ast.ClassDef, ast.FunctionDef)):
            defs.append(s.name)
        else:
            raise Untranslatable(f"module-level statement `{ast.unparse(s)[:80]}`")
    if imports != IMPORTS:
        raise Untranslatable(f"imports {imports}, expected {IMPORTS}")
    if defs != MODULE_DEFS:
        raise Untranslatable(f"module-level definitions {defs}, expected {MODULE_DEFS}")
    cls = [s for s in mod.body if isinstance(s, ast.ClassDef)][0]
    if cls.bases or cls.keywords or cls.decorator_list:
        raise Untranslatable("class Coordinates has bases / keywords / decorators")
    meths = []
    for s in cls.body:
        if isinstance(s, ast.Expr) and isinstance(s.value, ast.Constant) and isinstance(s.value.value, str):
            continue
        if not isinstance(s, ast.FunctionDef):
            raise Untranslatable(f"class-level statement `{ast.unparse(s)[:80]}`")
        meths.append(s.name)
    if meths != CLASS_METHODS:
        raise Untranslatable(f"methods of Coordinates {meths}, expected {CLASS_METHODS}")
    for fn in ast.walk(mod):
        if isinstance(fn, (ast.FunctionDef, ast.Lambda)) and fn is not mod:
            for inner in ast.walk(fn):
                if inner is not fn and isinstance(inner, (ast.FunctionDef, ast.Lambda, ast.ClassDef, ast.Global, ast.Nonlocal,
                                                          ast.Import, ast.ImportFrom, ast.NamedExpr, ast.Delete, ast.With, ast.Try)):
                    raise Untranslatable(f"{getattr(fn, 'name', 'lambda')}: nested definition / import / global / walrus / del / with / try")
    return imports


def _sig(fn, expected, who):
    a = fn.args
    if a.vararg or a.kwarg or a.kwonlyargs or a.posonlyargs:
        raise Untranslatable(f"{who}: signature has */** parameters")
    names = [x.arg for x in a.args]
    if names != expected:
        raise Untranslatable(f"{who}: signature {names}, expected {expected}")
    dflt = dict(zip(names[len(names) - len(a.defaults):], a.defaults))
    return dflt


def _defaults_def(lean, fn):
    a = fn.args
    names = [x.arg for x in a.args]
    dflt = list(zip(names[len(names) - len(a.defaults):], a.defaults))
    out = (f"def {lean}_defaults : List (String × String) := ["
           + ", ".join(f"({lean_str(n)}, {lean_str(ast.unparse(d))})" for n, d in dflt) + "]\n")
    for n, d in dflt:
        if isinstance(d, ast.Constant) and isinstance(d.value, float):
            out += f"def {lean}_{n}_default : Rat := {rat(d.value)}\n"
        elif isinstance(d, ast.Constant) and isinstance(d.value, int) and not isinstance(d.value, bool):
            out += f"def {lean}_{n}_default : Int := ({d.value} : Int)\n"
    return out


def _decorators(fn, expected, who):
    got = [ast.unparse(d) for d in fn.decorator_list]
    if got != expected:
        raise Untranslatable(f"{who}: decorators {got}, expected {expected}")


def _lits_def(lean, qualname):
    ls = func_literals(SELECT, qualname)
    return f"def {lean}_lits : List Rat := [{', '.join(rat(x) for x in ls)}]\n"


def method(pyname, lean, pyargs, doc, property_=False):
    """a method of `Coordinates` translated as a pure function of the fields it reads and its arguments"""
    fn = find_func(SELECT, f"Coordinates.{pyname}")
    _decorators(fn, ["property"] if property_ else [], pyname)
    dflt = _sig(fn, ["self"] + [a for a, _ in pyargs], pyname)
    tr = FnTr(pyname, lean, self_name="self")
    env = {a: Val(t, ident(a)) for a, t in pyargs}
    def off_end(e, i):
        raise tr.bad("falls off the end without `return`")

    body = tr.block(body_stmts(fn), env, Ctx(False), off_end, (), 1)
    fields = [f for f, _ in FIELDS if f in tr.fields]
    params = (["(sqrt : Rat → Rat)"] if tr.sqrt else []) + [f"({ident(f)} : {lty(FIELD_TY[f])})" for f in fields] \
        + [f"({ident(a)} : {lty(t)})" for a, t in pyargs]
    ret = tr.ret_ty
    text = "".join(a + "\n" for a in tr.aux)
    text += _defaults_def(lean, fn) + _lits_def(lean, f"Coordinates.{pyname}")
    for i, (nm, src) in enumerate(tr.pins):
        text += f"def {lean}_{nm}_src : String := {lean_str(src)}\n"
    text += f"/-- {doc} -/\ndef {lean} {' '.join(params)} : {lty(ret)} :=\n{body}"
    KERNELS[pyname] = Kernel(lean, fields, pyargs, ret, tr.sqrt)
    return [(lean, text)]


def k_lonconv():
    """`_is_180`, `_is_360`: the scalar kernels of translate.py (Gen/LonConv.lean) are reused; here only their grammar is re-checked"""
    kernel_is_180()
    kernel_is_360()
    KERNELS["_is_180"] = Kernel("is180", [], [("array", VR)], B, False)
    KERNELS["_is_360"] = Kernel("is360", [], [("array", VR)], B, False)
    return []


def k_swap():
    return method("_swap_longitude_convention", "selSwap", [("longitudes", VR)],
                  "`Coordinates._swap_longitude_convention` (value returned; masked assignment re-binds the local name)")


def k_init():
    """`Coordinates.__init__` + `_validate` → `selConsistent`, `selInit : … → Except Err Bool` (the `consistent` flag)"""
    fn = find_func(SELECT, "Coordinates.__init__")
    _decorators(fn, [], "__init__")
    _sig(fn, ["self", "dset", "lons", "lats", "dset_lons", "dset_lats"], "__init__")
    dflt = {a.arg: ast.unparse(d) for a, d in zip(fn.args.args[-2:], fn.args.defaults)}
    if dflt != {"dset_lons": "None", "dset_lats": "None"}:
        raise Untranslatable(f"__init__: defaults {dflt}")
    val = find_func(SELECT, "Coordinates._validate")
    _decorators(val, [], "_validate")
    _sig(val, ["self"], "_validate")
    tr = FnTr("__init__", "selInit", self_name="self")
    env = {"lons": Val(VR, "lons"), "lats": Val(VR, "lats"), "dset_lons": Val(VR, "dset_lons"), "dset_lats": Val(VR, "dset_lats")}
    fields = {}          # field -> Val (bound so far)
    fields_src = []      # (field, source text) pins
    lines = []
    guarded = []
    consistent_def = None

    def guards(expr):
        """`ValueError` of `.min()` of an empty array, for every array passed to `_is_180/_is_360` (evaluation order)"""
        out = ""
        for n in ast.walk(expr):
            if (isinstance(n, ast.Call) and isinstance(n.func, ast.Attribute) and n.func.attr in ("_is_180", "_is_360")
                    and ast.unparse(n.func.value) == "self" and len(n.args) == 1):
                a = n.args[0]
                if not (isinstance(a, ast.Attribute) and ast.unparse(a.value) == "self" and a.attr in fields):
                    raise tr.bad(f"`{ast.unparse(n)}`: argument is not a field")
                s = fields[a.attr].s
                if s not in guarded:
                    guarded.append(s)
                    out += f"  if List.isEmpty {s} then .error .valueError else\n"
        return out

    def fexpr(e):
        """expression over fields already bound"""
        class Sub(FnTr):
            def field(self2, name):
                if name not in fields:
                    raise tr.bad(f"self.{name} read before it is assigned")
                return fields[name]
        sub = Sub("__init__", "selInit", self_name="self")
        return sub.tr(e, env)

    validated = False
    for s in body_stmts(fn):
        src = ast.unparse(s)
        # self.F = np.array(arg) / self.F = arg
        if (isinstance(s, ast.Assign) and len(s.targets) == 1 and isinstance(s.targets[0], ast.Attribute)
                and ast.unparse(s.targets[0].value) == "self"):
            f = s.targets[0].attr
            if f == "dset" and ast.unparse(s.value) == "dset":
                fields_src.append((f, ast.unparse(s.value)))
                continue
            if f in ("_lons", "lats"):
                v = fexpr(s.value)
                if v.ty != VR:
                    raise tr.bad(f"`{src}`: {v.ty}")
                fields[f] = v
                fields_src.append((f, ast.unparse(s.value)))
                continue
            raise tr.bad(f"`{src}`")
        # if P is None: self.P = dset[attrs.XNAME].values else: self.P = P
        if isinstance(s, ast.If) and isinstance(s.test, ast.Compare) and ast.unparse(s.test) in ("dset_lons is None", "dset_lats is None"):
            p = s.test.left.id
            name = {"dset_lons": "attrs.LONNAME", "dset_lats": "attrs.LATNAME"}[p]
            if not (len(s.body) == 1 and len(s.orelse) == 1 and ast.unparse(s.body[0]) == f"self.{p} = dset[{name}].values"
                    and ast.unparse(s.orelse[0]) == f"self.{p} = {p}"):
                raise tr.bad(f"`{src[:80]}`: expected the dataset's own coordinate as the default of {p}")
            fields[p] = env[p]
            fields_src.append((p, f"dset[{name}].values if {p} is None else {p}"))
            continue
        if src == "self._validate()":
            # _validate: assert (translated), then the stations-only test (xarray plumbing, pinned)
            vs = body_stmts(val)
            if not (len(vs) == 2 and isinstance(vs[0], ast.Assert) and isinstance(vs[1], ast.If) and not vs[1].orelse
                    and len(vs[1].body) == 1 and isinstance(vs[1].body[0], ast.Raise)):
                raise Untranslatable("_validate: expected `assert …` followed by one `if …: raise …`")
            c = fexpr(vs[0].test)
            if c.ty != B:
                raise tr.bad("_validate: assertion is not Boolean")
            lines.append(f"  if !{c.s} then .error .assertionError else\n")
            tr.pins.append(("stations_only", ast.unparse(vs[1])))
            validated = True
            continue
        # if <test>: self.consistent = True else: self.consistent = False
        if (isinstance(s, ast.If) and len(s.body) == 1 and len(s.orelse) == 1
                and all(isinstance(x, ast.Assign) and ast.unparse(x.targets[0]) == "self.consistent" and isinstance(x.value, ast.Constant)
                        and isinstance(x.value.value, bool) for x in (s.body[0], s.orelse[0]))):
            if not validated:
                raise tr.bad("`consistent` is computed before `_validate()`")
            g = guards(s.test)
            c = fexpr(s.test)
            if c.ty != B:
                raise tr.bad("test of `consistent` is not Boolean")
            lines.append(g)
            tv, ev = ("true" if s.body[0].value.value else "false"), ("true" if s.orelse[0].value.value else "false")
            used = [f for f in ("_lons", "lats", "dset_lons", "dset_lats") if f in fields and occurs(fields[f].s, c.s)]
            # selConsistent over the fields it reads (named as the fields)
            ctext = c.s
            cparams = []
            for f in used:
                ctext = re.sub(r"(?<![\w.])" + re.escape(fields[f].s) + r"(?![\w])", ident(f), ctext)
                cparams.append(f"({ident(f)} : List Rat)")
            consistent_def = (f"/-- `Coordinates.consistent` as set by `__init__` -/\n"
                              f"def selConsistent {' '.join(cparams)} : Bool :=\n  if {ctext} then {tv} else {ev}\n")
            lines.append(f"  .ok (selConsistent {' '.join(fields[f].s for f in used)})\n")
            KERNELS["consistent"] = Kernel("selConsistent", used, [], B, False)
            fields_src.append(("consistent", "selConsistent"))
            continue
        raise tr.bad(f"statement `{src[:80]}`")
    if consistent_def is None or set(fields) != {"_lons", "lats", "dset_lons", "dset_lats"}:
        raise tr.bad("not all of _lons, lats, dset_lons, dset_lats, consistent are set")
    text = _lits_def("selInit", "Coordinates.__init__")
    text += ("def selInit_fields : List (String × String) := ["
             + ", ".join(f"({lean_str(f)}, {lean_str(v)})" for f, v in fields_src) + "]\n")
    for nm, src in tr.pins:
        text += f"def selInit_{nm}_src : String := {lean_str(src)}\n"
    text += consistent_def
    text += ("/-- `Coordinates.__init__` with `_validate`: the exceptions it raises and the `consistent` flag; the object's fields are\n"
             f"    `_lons = {fields['_lons'].s}`, `lats = {fields['lats'].s}`, `dset_lons`, `dset_lats` (the arrays in force) -/\n"
             "def selInit (lons lats dset_lons dset_lats : List Rat) : Except Err Bool :=\n" + "".join(lines))
    KERNELS["__init__"] = Kernel("selInit", [], [], B, False, exc=True)
    KERNELS["__init__"].field_exprs = {f: fields[f].s for f in fields}
    return [("selInit", text)]


def k_lons():
    return method("lons", "selLons", [], "the property `Coordinates.lons`: the query longitudes in the dataset's convention", property_=True)


def k_distance():
    return method("distance", "selDistance", [("lon", R), ("lat", R)],
                  "`Coordinates.distance(lon, lat)`; `sqrt` = the square-root oracle")


def k_nearer():
    fn = find_func(SELECT, "Coordinates.nearer")
    d = {a.arg: ast.unparse(x) for a, x in zip(fn.args.args[-2:], fn.args.defaults)}
    if d != {"tolerance": "np.inf", "max_sites": "None"}:
        raise Untranslatable(f"nearer: defaults {d} (expected tolerance=np.inf, max_sites=None)")
    return method("nearer", "selNearer", [("lon", R), ("lat", R), ("tolerance", R), ("max_sites", OI)],
                  "`Coordinates.nearer(lon, lat, tolerance, max_sites)` → (kept indices, their distances)")


def k_nearest():
    return method("nearest", "selNearest", [("lon", R), ("lat", R)], "`Coordinates.nearest(lon, lat)` → (index, distance)")


TAIL_START = ("dset.isel(**{attrs.SITENAME: ", "xr.concat(")
REPORT_IF = "if coords.consistent is False:\n    dsout.lon.values = coords._swap_longitude_convention(dsout.lon.values)"


def selector(pyname, lean, pyargs, result, doc):
    """`sel_nearest`, `sel_idw`, `sel_bbox`: decision part → `lean`, reporting `if` → `leanReport`, the rest pinned"""
    fn = find_func(SELECT, pyname)
    _decorators(fn, [], pyname)
    _sig(fn, ["dset"] + [a for a, _ in pyargs], pyname)
    mod = _module(SELECT)
    if not any(isinstance(s, ast.Assign) and ast.unparse(s) == "logger = logging.getLogger(__name__)" for s in mod.body):
        raise Untranslatable("module-level `logger = logging.getLogger(__name__)` not found")
    stmts = body_stmts(fn)
    cut = None
    for i, s in enumerate(stmts):
        if (isinstance(s, ast.Assign) and ast.unparse(s.targets[0]) == "dsout" and isinstance(s.value, ast.Call)
                and ast.unparse(s.value).startswith(TAIL_START)):
            cut = i
            break
    if cut is None:
        raise Untranslatable(f"{pyname}: the statement handing the selection to xarray (dset.isel(**{{…}}) / xr.concat) was not found")
    head, tail = stmts[:cut], stmts[cut:]
    handed = ast.unparse(tail[0])
    if result not in [n.id for n in ast.walk(tail[0].value) if isinstance(n, ast.Name)]:
        raise Untranslatable(f"{pyname}: `{handed}` does not use `{result}`")
    tr = FnTr(pyname, lean)
    env = {a: Val(t, ident(a)) for a, t in pyargs}
    env["dset"] = Val("DSET", "dset")

    def fin(e, i):
        v = e.get(result)
        if not isinstance(v, Val) or v.ty not in (VN, LOLC):
            raise tr.bad(f"`{result}` is not a list at the end of the decision part")
        tr.ret_ty = v.ty
        tr.final_env = e
        return "  " * i + f".ok {v.s}\n"

    body = tr.block(head, env, Ctx(True), fin, (tail,), 1)
    # reporting convention
    reps = [s for s in tail if isinstance(s, ast.If)]
    rep = [s for s in reps if ast.unparse(s) == REPORT_IF]
    if len(rep) != 1 or len(reps) != 1:
        raise Untranslatable(f"{pyname}: expected exactly one `if` after the selection, namely `{REPORT_IF.splitlines()[0]} …`")
    swap = need("_swap_longitude_convention")
    params = (["(sqrt : Rat → Rat)"] if tr.sqrt else []) + [f"({ident(a)} : {lty(t)})" for a, t in pyargs]
    text = "".join(a + "\n" for a in tr.aux)
    text += _defaults_def(lean, fn) + _lits_def(lean, pyname)
    text += f"def {lean}_tail_src : List String := [{', '.join(lean_str(ast.unparse(s)) for s in tail)}]\n"
    text += (f"/-- reported longitudes of `{pyname}`: `dsout.lon.values` after `{REPORT_IF.splitlines()[0]} …` -/\n"
             f"def {lean}Report (consistent : Bool) (lon_values : List Rat) : List Rat :=\n"
             f"  if (consistent == false) then ({swap.lean} lon_values) else lon_values\n")
    text += f"/-- {doc} -/\ndef {lean} {' '.join(params)} : Except Err ({lty(tr.ret_ty)}) :=\n{body}"
    KERNELS[pyname] = Kernel(lean, [], pyargs, tr.ret_ty, tr.sqrt, exc=True)
    return [(lean, text)]


def k_sel_nearest():
    return selector("sel_nearest", "selNearestIds",
                    [("lons", VR), ("lats", VR), ("tolerance", R), ("unique", B), ("exact", B), ("dset_lons", VR), ("dset_lats", VR), ("missing", S)],
                    "station_ids", "`sel_nearest`: the station indices handed to `dset.isel` (or the exception raised)")


def k_sel_idw():
    return selector("sel_idw", "selIdw",
                    [("lons", VR), ("lats", VR), ("tolerance", R), ("max_sites", OI), ("dset_lons", VR), ("dset_lats", VR)],
                    "dsout", "`sel_idw`: per query `none` (masked) or the linear combination of stations handed to `xr.concat`")


def k_sel_bbox():
    return selector("sel_bbox", "selBboxIds",
                    [("lons", VR), ("lats", VR), ("tolerance", R), ("dset_lons", VR), ("dset_lats", VR)],
                    "station_ids", "`sel_bbox`: the station indices handed to `dset.isel` (or `ValueError`)")


def k_dispatch():
    """`SpecDataset.sel` (wavespectra/specdataset.py): method table, `exact=True` for `method=None`, argument passing —
    not translated (dictionary dispatch + **kwargs): pinned verbatim"""
    fn = find_func("wavespectra/specdataset.py", "SpecDataset.sel")
    _decorators(fn, [], "SpecDataset.sel")
    if fn.args.vararg or fn.args.kwonlyargs or fn.args.posonlyargs or getattr(fn.args.kwarg, "arg", None) != "kwargs":
        raise Untranslatable("SpecDataset.sel: signature")
    text = _defaults_def("selDispatch", fn)
    text += f"def selDispatch_args : List String := [{', '.join(lean_str(a.arg) for a in fn.args.args)}]\n"
    text += f"def selDispatch_src : List String := [{', '.join(lean_str(ast.unparse(s)) for s in body_stmts(fn))}]\n"
    return [("selDispatch", text)]


SEL_KERNELS = [k_dispatch, k_lonconv, k_swap, k_init, k_lons, k_distance, k_nearer, k_nearest, k_sel_nearest, k_sel_idw, k_sel_bbox]

HEADER = """import WsVerif.Gen.Prelude
import WsVerif.Gen.LonConv
import WsVerif.Model.SelRt
/-! GENERATED by harness/translate_sel.py from wavespectra/core/select.py — do not edit.
    Vocabulary: Model/SelRt.lean.  Bridged to Model/Select.lean, Model/SelectFixed.lean in Props/C14sel.lean (`gensel_*`). -/
set_option linter.unusedVariables false
namespace WS.Gen
open WS
"""


def _doc(s):
    return s.replace("-/", "- /").replace("/-", "/ -")


def generate_sel(gen_dir):
    status = {}
    KERNELS.clear()
    FAILED.clear()
    text = HEADER
    for kf in SEL_KERNELS:
        try:
            imports = module_shape()
            for nm, src in kf():
                text += src + "\n"
            status["sel_" + kf.__name__] = "ok"
        except Exception as e:  # Untranslatable, or a malformed tree: the tie is broken, the bridges will not build
            msg = f"{type(e).__name__}: {e}".replace("\n", " ")[:300]
            text += f"-- {kf.__name__}: untranslatable: {_doc(msg)}\n\n"
            status["sel_" + kf.__name__] = f"untranslatable: {msg}"
            for py in {"k_swap": ["_swap_longitude_convention"], "k_init": ["__init__"], "k_lons": ["lons"], "k_distance": ["distance"],
                       "k_nearer": ["nearer"], "k_nearest": ["nearest"], "k_lonconv": ["_is_180", "_is_360"]}.get(kf.__name__, []):
                FAILED[py] = msg[:120]
    try:
        text += f"def sel_imports : List String := [{', '.join(lean_str(x) for x in module_shape())}]\n"
    except Exception as e:
        text += f"-- imports: untranslatable: {_doc(str(e))[:300]}\n"
    text += "end WS.Gen\n"
    write_if_changed(gen_dir / "SelKernels.lean", text)
    return status

"""C09 — threshold, wave-age and box splits assign every bin by the stated rule (DESIGN §3 C09).

Families (one per generated case, round robin): ptm4, ptm5, bbox, split, stats.
For every case the real implementation is run in-process; the worker evaluates the property's DIRECT
ORACLE (the property text restated on the implementation's outputs, no Lean model involved) and returns
request lines for the Lean model, which the parent compares bin for bin with the implementation.
"""
import math
from fractions import Fraction

import numpy as np

from .. import gen
from ..common import Check, ang_close, case_rng, close, enc, enc_m, enc_o, enc_optv, enc_v, import_ws, parse_resp, pmap, run_driver
from .c01 import dm_from, oracle as stats_oracle, wavenuma_ref
from .c02 import brute_peak, parabola_vertex

DEEP = 1.56
TOL_SPLIT = 1e-10
FAMILIES = ["ptm4", "ptm5", "bbox", "split", "stats"]


# ------------------------------------------------------------------------------------------------
# published rules evaluated by the harness (never by calling the implementation)
# ------------------------------------------------------------------------------------------------
def celerity_pub(freq, depth):
    """Wave celerity of the property: deep water g/(2πf) ≈ 1.56/f without a depth, else ω/k with the
    documented Chen & Thomson wavenumber."""
    f = np.asarray(freq, dtype=float)
    if depth is None:
        return DEEP / f
    return (2 * np.pi * f) / wavenuma_ref(f, float(depth))


def lin_row(freq, E, x):
    """Linear interpolation of the rows of E at frequency x (f[0] < x < f[-1]), written as value + slope·Δ."""
    k = int(np.searchsorted(freq, x, side="left"))
    f0, f1 = float(freq[k - 1]), float(freq[k])
    if x == f1:
        return np.array(E[k], dtype=float)
    return E[k - 1] + (E[k] - E[k - 1]) * ((x - f0) / (f1 - f0))


def hs_e2(freq, dirs, E):
    """Variance (hs²/16) of a 2-D spectrum by the published double sum, tail rule included."""
    return stats_oracle(freq, dirs, E)["hsE"]


# ------------------------------------------------------------------------------------------------
# generation
# ------------------------------------------------------------------------------------------------
def gen_common(rng, oned=False):
    exact = rng.random() < 0.65
    nf = rng.choice([2, 3, 4, 5, 6, 8, 12, 20])
    nd = 1 if oned else rng.choice([2, 3, 4, 8, 12, 24, 36] if exact else [2, 5, 7, 11, 24, 36])
    freq, fkind = gen.gen_freq(rng, nf, exact=exact)
    if exact:
        freq = np.round(freq * 4096) / 4096
        if not np.all(np.diff(freq) > 0) or freq[0] <= 0:
            freq = np.array([(8 + 3 * i) / 256 for i in range(nf)])
            fkind = "uniform:lo"
    dirs, order = None, "1d"
    if not oned:
        full = rng.random() < 0.75
        dirs, order = gen.gen_dirs(rng, nd, order=rng.choice(["sorted", "sorted", "rotated", "reversed", "seam"] + (["sorted360"] if full else [])), exact=exact, full=full)
        if len(set(dirs.tolist())) != len(dirs):
            dirs = np.array([j * 360.0 / nd for j in range(nd)])
            order = "sorted"
        if not full:
            if order == "seam":  # a sector stored seam-first has no meaningful bin width (first two directions are not neighbours)
                dirs, order = np.sort(dirs), "sorted"
            order += ":sector"
    dtype = "float64" if exact or rng.random() < 0.6 else "float32"
    nextra = rng.choice([0, 0, 0, 1, 2])
    names = rng.sample(["time", "site", "lat"], nextra)
    shape = [rng.randint(1, 3) for _ in names]
    npos = int(np.prod(shape)) if shape else 1
    Es, kinds = [], []
    for _ in range(npos):
        E, kind = gen.gen_spectrum(rng, nf, nd, exact=exact)
        if rng.random() < 0.75:  # strictly positive so that every mask is visible in the output
            E = E + np.array([[(1 + (3 * i + 7 * j) % 5) / 64 for j in range(nd)] for i in range(nf)])
            kind += "+"
        Es.append(E)
        kinds.append(kind)
    arr = np.array(Es).reshape(tuple(shape) + (nf, nd))
    if oned:
        arr = arr[..., 0]
    extra = [(n, np.arange(k, dtype=float)) for n, k in zip(names, shape)]
    da = gen.make_da(freq, dirs, arr, dtype=dtype, extra=extra)
    if rng.random() < 0.3 and da.ndim > 1:
        perm = list(da.dims)
        rng.shuffle(perm)
        da = da.transpose(*perm)
    obj = da.to_dataset(name="efth") if rng.random() < 0.25 else da
    lead = [d for d in da.dims if d not in ("freq", "dir")]
    positions = [dict(zip(lead, idx)) for idx in np.ndindex(*[da.sizes[d] for d in lead])]
    rng.shuffle(positions)
    return dict(exact=exact, nf=nf, nd=nd, freq=freq, fkind=fkind, dirs=dirs, order=order, dtype=dtype, names=names, shape=shape,
                kinds=kinds, da=da, obj=obj, lead=lead, positions=positions[:2], container="dataset" if obj is not da else "array",
                oned=oned)


def spectrum_at(G, pos):
    sub = G["da"].isel(pos)
    if G["oned"]:
        return np.asarray(sub.values, dtype=float)[:, None]
    return np.asarray(sub.transpose("freq", "dir").values, dtype=float)


def desc_of(G, **kw):
    d = dict(nf=G["nf"], nd=G["nd"], fkind=G["fkind"], order=G["order"], kinds=G["kinds"][:2], dtype=G["dtype"], dims=list(G["da"].dims),
             container=G["container"], stream="exact" if G["exact"] else "float")
    d.update(kw)
    return d


def case_of(G, pos, E2, **kw):
    c = dict(pos={k: int(v) for k, v in pos.items()}, freq=[float(x) for x in G["freq"]],
             dirs=None if G["dirs"] is None else [float(x) for x in G["dirs"]], E=np.asarray(E2).tolist(), dtype=G["dtype"],
             dims=list(G["da"].dims), container=G["container"])
    c.update(kw)
    return c


def lead_da(G, values):
    """DataArray over the leading dims of the spectra holding one value per position."""
    import xarray as xr

    lead = G["lead"]
    if not lead:
        return values[()]
    return xr.DataArray(values, dims=lead, coords={d: G["da"][d] for d in lead})


def rel_tol(G, loose=False):
    if G["dtype"] == "float32":
        return 2e-5 if loose else 5e-6
    return 1e-8 if loose else 1e-9


# ------------------------------------------------------------------------------------------------
# PTM4
# ------------------------------------------------------------------------------------------------
def case_ptm4(rng, icase, G):
    import xarray as xr
    from wavespectra.core import utils as wsu

    out = []
    freq, dirs, lead = G["freq"], G["dirs"], G["lead"]
    shape = tuple(G["da"].sizes[d] for d in lead)
    agefac = rng.choice([1.7, 1.7, 1.5, 1.0, 2.0, 0.5])
    deep = rng.random() < 0.3
    wspd = np.empty(shape)
    wdir = np.empty(shape)
    dpt = np.empty(shape)
    tie = G["exact"] and rng.random() < 0.5
    if tie:
        agefac = rng.choice([1.0, 2.0, 0.5, 4.0])
    tie_pos = tuple(G["positions"][0][d] for d in lead)
    tie_bin = None
    for idx in np.ndindex(*shape):
        dpt[idx] = rng.choice([5.0, 12.5, 30.0, 100.0, 1000.0])
        wdir[idx] = rng.choice([float(rng.choice(list(dirs))), rng.uniform(0, 360), float(rng.choice(list(dirs))) + 360.0,
                                -float(rng.randint(0, 90))])
        c = celerity_pub(freq, None if deep else dpt[idx])
        wspd[idx] = rng.choice([0.0, rng.uniform(0.5, 40.0), float(c[rng.randrange(len(c))]) * rng.uniform(0.8, 1.6) / agefac])
        if tie and idx == tie_pos:
            i0, j0 = rng.randrange(len(freq)), rng.randrange(len(dirs))
            wdir[idx] = float(dirs[j0]) + rng.choice([0.0, 0.0, 360.0, -360.0])
            wspd[idx] = float(c[i0]) / agefac
            tie_bin = (i0, j0)
    scalars = not lead and rng.random() < 0.5
    if scalars:
        a_wspd, a_wdir, a_dpt = float(wspd[()]), float(wdir[()]), (None if deep else float(dpt[()]))
    else:
        a_wspd, a_wdir = (lead_da(G, wspd), lead_da(G, wdir))
        a_dpt = None if deep else lead_da(G, dpt)
        if not lead:
            a_wspd, a_wdir = xr.DataArray(a_wspd), xr.DataArray(a_wdir)
            a_dpt = None if deep else xr.DataArray(a_dpt)
    desc = desc_of(G, family="ptm4", agefac=agefac, deep=deep, tie=bool(tie_bin))
    try:
        res = G["obj"].spec.partition.ptm4(a_wspd, a_wdir, a_dpt, agefac)
        res = res.transpose("part", *lead, "freq", "dir").compute()
        # is the harness celerity bit-identical to what the implementation compares?  (decides only whether a
        # designed exact tie can be trusted or has to be counted as ambiguous)
        trust = {}
        for pos in G["positions"]:
            d = None if deep else float(dpt[tuple(pos[k] for k in lead)])
            ci = np.asarray(wsu.celerity(xr.DataArray(freq, dims="freq"), d), dtype=float)
            trust[tuple(pos[k] for k in lead)] = bool(np.array_equal(ci, celerity_pub(freq, d)))
    except Exception as e:
        return [("CRASH", dict(op="ptm4", what=f"{type(e).__name__}: {e}", case=dict(desc, icase=icase, freq=freq.tolist(), dirs=dirs.tolist())))]
    order = np.argsort(dirs, kind="stable")
    for pos in G["positions"]:
        idx = tuple(pos[k] for k in lead)
        E2 = spectrum_at(G, pos)
        Es = E2[:, order]
        d = None if deep else float(dpt[idx])
        cel = celerity_pub(freq, d)
        cosT = np.cos(np.deg2rad(dirs - wdir[idx]))
        w = agefac * wspd[idx] * cosT
        sub = np.asarray(res.isel(pos).values, dtype=float)
        sea, swell = sub[0], sub[1]
        case = case_of(G, pos, E2, family="ptm4", agefac=agefac, wspd=float(wspd[idx]), wdir=float(wdir[idx]), dpt=d, icase=icase)
        # ---------------- direct oracle
        C, W = cel[:, None], w[None, order]
        margin = np.abs(C - W) <= 1e-9 * np.maximum(np.abs(C), np.abs(W))
        designed = (C == W) & (cosT[None, order] == 1.0) & trust[idx] & G["exact"]
        amb = margin & ~designed
        insea = C <= W
        ok_labels = np.array_equal(res.freq.values, np.sort(freq)) and np.array_equal(res.dir.values, dirs[order])
        if not ok_labels:
            out.append(("FAIL", dict(op="ptm4", what="output coordinates are not the sorted input coordinates", case=case, trigger="ptm4_coords")))
            continue
        exp_sea = np.where(insea, Es, 0.0)
        exp_swell = np.where(insea, 0.0, Es)
        bad = (~amb) & ((sea != exp_sea) | (swell != exp_swell))
        if bad.any():
            i, j = [int(x) for x in np.argwhere(bad)[0]]
            out.append(("FAIL", dict(op="ptm4", trigger="ptm4_rule", case=case,
                                     what=f"bin (f={freq[i]}, dir={dirs[order][j]}): celerity {cel[i]!r} vs wind component {W[0, j]!r} "
                                          f"=> {'wind sea' if insea[i, j] else 'swell'} expected, got sea={sea[i, j]} swell={swell[i, j]} (E={Es[i, j]})")))
        if ((sea + swell) != Es).any() or ((sea != 0) & (swell != 0)).any():
            out.append(("FAIL", dict(op="ptm4", trigger="ptm4_sum", case=case, what="wind sea and swell are not disjoint or do not add up to the input")))
        req = " ".join(["ptm4", enc_v(cel), enc_v(dirs), enc_v(cosT), enc(agefac), enc(wspd[idx]), enc_m(E2, E2.shape[1])])
        nsea = int((insea & (Es != 0)).sum())
        cls = "allsea" if insea.all() else "noneinsea" if not insea.any() else "mixed"
        out.append((req, dict(fam="ptm4", case=case, desc=desc, sea=sea, swell=swell, amb=amb, dirs_out=dirs[order],
                              ntie=int(designed.sum()), namb=int(amb.sum()),
                              sig=gen.signature(G["nf"], G["nd"], "ptm4", cls, "deep" if deep else "depth", "tie" if designed.any() else "notie",
                                                G["dtype"], G["order"], len(lead)),
                              nontrivial=bool(E2.any()) and nsea >= 0)))
    return out


# ------------------------------------------------------------------------------------------------
# PTM5
# ------------------------------------------------------------------------------------------------
def pick_cut(rng, freq, exact, allow_outside=True):
    n = len(freq)
    r = rng.random()
    if r < 0.35:
        i = rng.choice([0, n - 1, rng.randrange(n)])
        return float(freq[i]), "node"
    if r < 0.85 or not allow_outside:
        i = rng.randrange(n - 1)
        lo, hi = float(freq[i]), float(freq[i + 1])
        t = rng.choice([0.5, 0.25, 0.75, 0.125]) if exact else rng.uniform(0.05, 0.95)
        return lo + (hi - lo) * t, "cell"
    if r < 0.93:
        i = rng.randrange(n)
        s = rng.choice([-1, 1])
        if (i == 0 and s < 0) or (i == n - 1 and s > 0):
            s = -s
        return float(freq[i]) + s * 2.0 ** -20, "nearnode"
    return (float(freq[0]) / 2, "below") if rng.random() < 0.5 else (float(freq[-1]) * 1.5, "above")


def case_ptm5(rng, icase, G):
    out = []
    freq, dirs, lead = G["freq"], G["dirs"], G["lead"]
    fcut, ckind = pick_cut(rng, freq, G["exact"])
    interp = rng.random() < 0.9
    desc = desc_of(G, family="ptm5", fcut=fcut, cut=ckind, interpolate=interp)
    try:
        res = G["obj"].spec.partition.ptm5(fcut, interpolate=interp)
        res = res.transpose("part", *lead, "freq", "dir").compute()
    except Exception as e:
        return [("CRASH", dict(op="ptm5", what=f"{type(e).__name__}: {e}", case=dict(desc, icase=icase, freq=freq.tolist(), dirs=dirs.tolist())))]
    fo = np.asarray(res.freq.values, dtype=float)
    do = np.asarray(res.dir.values, dtype=float)
    ongrid = bool((freq == fcut).any())
    inside = float(freq[0]) <= fcut <= float(freq[-1])
    exp_f = np.array(sorted(set(freq.tolist()) | {fcut})) if (interp and not ongrid) else freq
    rt = rel_tol(G)
    for pos in G["positions"]:
        E2 = spectrum_at(G, pos)
        case = case_of(G, pos, E2, family="ptm5", fcut=fcut, interpolate=interp, icase=icase)
        sub = np.asarray(res.isel(pos).values, dtype=float)
        sea, swell = sub[0], sub[1]
        # ---------------- direct oracle
        if not (np.array_equal(fo, exp_f) and sorted(do.tolist()) == sorted(dirs.tolist())):
            out.append(("FAIL", dict(op="ptm5", trigger="ptm5_coords", case=case,
                                     what=f"output frequencies {fo.tolist()} are not the input frequencies plus the cutoff / directions changed")))
            continue
        col = [int(np.where(dirs == t)[0][0]) for t in do]
        if (sea[fo < fcut] != 0).any() or (swell[fo > fcut] != 0).any():
            out.append(("FAIL", dict(op="ptm5", trigger="ptm5_zero_beyond", case=case, what="energy left strictly beyond the cutoff")))
        if inside:
            Rst = np.array([E2[int(np.where(freq == x)[0][0])] if (freq == x).any() else lin_row(freq, E2, x) for x in fo])
            R = Rst[:, col]
            keep_sea, keep_sw = fo >= fcut, fo <= fcut
            num = float(sea[keep_sea].sum() + swell[keep_sw].sum())
            den = float(R[keep_sea].sum() + R[keep_sw].sum())
            scale = float(np.abs(E2).max()) or 1.0
            if den == 0.0:
                if num != 0.0:
                    out.append(("FAIL", dict(op="ptm5", trigger="ptm5_single_factor", case=case, what="energy appears where the input has none")))
            else:
                k = num / den
                if ongrid or not interp:
                    if not (np.array_equal(sea[keep_sea], R[keep_sea]) and np.array_equal(swell[keep_sw], R[keep_sw])):
                        out.append(("FAIL", dict(op="ptm5", trigger="ptm5_single_factor", case=case,
                                                 what="cutoff on a grid frequency: kept bins differ from the input")))
                else:
                    dev = max(float(np.abs(sea[keep_sea] - k * R[keep_sea]).max()), float(np.abs(swell[keep_sw] - k * R[keep_sw]).max()))
                    if dev > 10 * rt * scale * max(1.0, k):
                        out.append(("FAIL", dict(op="ptm5", trigger="ptm5_single_factor", case=case,
                                                 what=f"kept bins are not one factor times the input/interpolated spectrum (k≈{k}, max deviation {dev})")))
                    vin = hs_e2(freq, dirs, E2)
                    vout = hs_e2(fo, dirs, Rst)
                    if vout > 0 and not close(k, vin / vout, rel=20 * rt):
                        out.append(("FAIL", dict(op="ptm5", trigger="ptm5_factor_value", case=case,
                                                 what=f"factor {k} is not the variance-preserving one {vin / vout}")))
        req = " ".join(["ptm5", enc_v(freq), enc_v(dirs), enc_m(E2, E2.shape[1]), enc(fcut), "1" if interp else "0"])
        out.append((req, dict(fam="ptm5", case=case, desc=desc, sea=sea, swell=swell, fo=fo, do=do, rt=rt,
                              sig=gen.signature(G["nf"], G["nd"], "ptm5", ckind, "interp" if interp else "nointerp", G["dtype"], G["order"], len(lead)),
                              nontrivial=bool(E2.any()))))
    return out


# ------------------------------------------------------------------------------------------------
# BBOX
# ------------------------------------------------------------------------------------------------
def edge_low(rng, v, a, allow_omit=True):
    """A lower limit that keeps exactly the nodes v[a:] of the sorted axis v: returns (python value or OMIT/None marker, doc value)."""
    opts = []
    if a == 0:
        opts += [("val", float(v[0])), ("val", float(v[0]) - 0.25 * (float(v[1] - v[0]) if len(v) > 1 else 1.0))]
        if allow_omit:
            opts += [("omit", None), ("omit", None), ("none", None)]
    else:
        opts += [("val", float(v[a])), ("val", (float(v[a - 1]) + float(v[a])) / 2), ("val", (float(v[a - 1]) + float(v[a])) / 2)]
    return rng.choice(opts)


def edge_high(rng, v, b, allow_omit=True):
    n = len(v)
    opts = []
    if b == n - 1:
        opts += [("val", float(v[-1])), ("val", float(v[-1]) + 0.25 * (float(v[-1] - v[-2]) if n > 1 else 1.0))]
        if allow_omit:
            opts += [("omit", None), ("omit", None), ("none", None)]
    else:
        opts += [("val", float(v[b])), ("val", (float(v[b]) + float(v[b + 1])) / 2), ("val", (float(v[b]) + float(v[b + 1])) / 2)]
    return rng.choice(opts)


def intervals(rng, n, k):
    """k disjoint index intervals [a, b] of range(n), in increasing order (k ≤ n)."""
    cuts = sorted(rng.sample(range(2 * n), 2 * k)) if 2 * k <= 2 * n else None
    # simple construction: choose 2k distinct "half positions" and pair them up
    iv = []
    for t in range(k):
        a, b = cuts[2 * t] // 2, cuts[2 * t + 1] // 2
        iv.append([a, b])
    for t in range(1, k):
        if iv[t][0] <= iv[t - 1][1]:
            iv[t][0] = iv[t - 1][1] + 1
        if iv[t][1] < iv[t][0]:
            iv[t][1] = iv[t][0]
    return [x for x in iv if x[1] < n]


def make_boxes(rng, freq, sdirs):
    """List of box dicts (+ mode).  Limits are ('val', x) | ('omit', None) | ('none', None) per key."""
    nf, nd = len(freq), len(sdirs)
    mode = rng.choice(["disjoint"] * 7 + ["overlap"] * 2 + ["shared_edge", "malformed", "zero"])
    nb = rng.choice([1, 1, 2, 2, 3])

    def rand_range(v, omit=True):
        n = len(v)
        a = rng.randrange(n)
        b = rng.randrange(a, n)
        if rng.random() < 0.4:
            a = 0
        if rng.random() < 0.4:
            b = n - 1
        return a, b, edge_low(rng, v, a, omit), edge_high(rng, v, b, omit)

    boxes = []
    if mode in ("disjoint", "shared_edge", "zero"):
        axis = rng.choice(["freq", "dir"])
        v, o = (freq, sdirs) if axis == "freq" else (sdirs, freq)
        ivs = intervals(rng, len(v), min(nb, len(v)))
        for a, b in ivs:
            lo, hi = edge_low(rng, v, a), edge_high(rng, v, b)
            if axis == "freq" and lo[0] == "val" and hi[0] == "val" and not lo[1] < hi[1]:
                lo = ("val", float(v[a]) - (float(v[a] - v[a - 1]) / 2 if a > 0 else float(v[1] - v[0]) / 4))
            _, _, olo, ohi = rand_range(o)
            if axis == "dir" and olo[0] == "val" and ohi[0] == "val" and not olo[1] < ohi[1]:
                olo = ("omit", None)
            bx = dict(fmin=lo, fmax=hi, dmin=olo, dmax=ohi) if axis == "freq" else dict(fmin=olo, fmax=ohi, dmin=lo, dmax=hi)
            boxes.append(bx)
        if mode == "shared_edge" and len(boxes) >= 2:
            # the second box starts on the node where the first one ends
            k1, k2 = ("fmax", "fmin") if axis == "freq" else ("dmax", "dmin")
            b0 = ivs[0][1]
            boxes[0][k1] = ("val", float(v[b0]))
            boxes[1][k2] = ("val", float(v[b0]))
            if axis == "freq" and boxes[0]["fmin"][0] == "val" and not boxes[0]["fmin"][1] < float(v[b0]):
                boxes[0]["fmin"] = ("omit", None)
        elif mode == "shared_edge":
            mode = "disjoint"
        if mode == "zero":
            # a numeric zero given for a limit (falsy in Python)
            key = rng.choice(["dmax", "dmax", "dmin", "fmin"])
            boxes[0][key] = ("val", 0.0)
            if key == "dmax" and boxes[0]["dmin"][0] == "val" and boxes[0]["dmin"][1] > 0:
                boxes[0]["dmin"] = ("omit", None)
    elif mode == "overlap":
        if nf >= 6 and len(sdirs) >= 4 and rng.random() < 0.5:
            # overlapping pair A, C plus a box B whose fmin lies between theirs but which is disjoint from both in direction
            f = [float(x) for x in freq]
            dmid = float(sdirs[len(sdirs) // 2 - 1])
            dhi_ = float(sdirs[len(sdirs) // 2])
            A = dict(fmin=("val", f[0]), fmax=("val", f[4]), dmin=("val", float(sdirs[0])), dmax=("val", dmid))
            B = dict(fmin=("val", f[1]), fmax=("val", f[5]), dmin=("val", dhi_), dmax=("val", float(sdirs[-1])))
            Cb = dict(fmin=("val", f[2]), fmax=("val", f[5]), dmin=("val", float(sdirs[0])), dmax=("val", dmid))
            trio = [A, B, Cb]
            rng.shuffle(trio)
            boxes.extend(trio)
        else:
            for _ in range(2):
                _, _, flo, fhi = rand_range(freq)
                _, _, dlo, dhi = rand_range(sdirs)
                boxes.append(dict(fmin=flo, fmax=fhi, dmin=dlo, dmax=dhi))
    else:  # malformed: fmin >= fmax
        a = rng.randrange(nf)
        boxes.append(dict(fmin=("val", float(freq[a])), fmax=("val", float(freq[rng.randrange(0, a + 1)])), dmin=("omit", None), dmax=("none", None)))
    return boxes, mode


def box_dict(bx):
    d = {}
    for k, (kind, val) in bx.items():
        if kind == "val":
            d[k] = val
        elif kind == "none":
            d[k] = None
    return d


def doc_rect(bx, freq, sdirs):
    """Documented rectangle: a limit that is not given is the bound of the spectrum's own axis."""
    def g(key, bound):
        kind, val = bx[key]
        return val if kind == "val" else bound
    return (g("fmin", float(freq.min())), g("dmin", float(sdirs.min())), g("fmax", float(freq.max())), g("dmax", float(sdirs.max())))


def open_overlap(r1, r2):
    l1, b1, r1_, t1 = r1
    l2, b2, r2_, t2 = r2
    return max(l1, l2) < min(r1_, r2_) and max(b1, b2) < min(t1, t2)


def lim_tok(lim):
    kind, val = lim
    return "o" if kind == "omit" else "n" if kind == "none" else enc(val)


def known_rect(bx, freq, sdirs):
    """The documented rectangle with the recorded deviation applied (F44: a numeric 0 counts as not given).
    Used ONLY to name the trigger of an oracle failure, never to excuse one silently.  (The absent-dmax typo, F43, is
    fixed: a regression shows up as an unlisted `bbox_member` failure.)"""
    fmn, fmx, dmn, dmx = float(freq.min()), float(freq.max()), float(sdirs.min()), float(sdirs.max())

    def g(key, bound):
        kind, val = bx[key]
        return val if (kind == "val" and val != 0) else bound

    return (g("fmin", fmn), g("dmin", dmn), g("fmax", fmx), g("dmax", dmx))


def code_overlap(r1, r2):
    """rectangles [l, b, r, t] intersect in their interiors, by the four published inequalities"""
    return r1[2] > r2[0] and r2[2] > r1[0] and r1[3] > r2[1] and r2[3] > r1[1]


def bbox_oracle(rects, overlap_fn, freq, sdirs, Es_list, parts_list, err, nboxes):
    """The property restated for a given reading of the boxes. Returns a list of (kind, what, ipos)."""
    fails = []
    if any(r[0] >= r[2] for r in rects):
        return fails  # fmin >= fmax: outside the property (the code rejects it)
    ovl = any(overlap_fn(rects[a], rects[b]) for a in range(len(rects)) for b in range(a + 1, len(rects)))
    if ovl:
        if err != "ValueError":
            fails.append(("bbox_overlap_not_rejected", f"boxes with intersecting interiors {rects} were not rejected with ValueError (got {err})", None))
        return fails
    if err is not None:
        fails.append(("bbox_spurious_error", f"non-overlapping boxes {rects} raised {err}", None))
        return fails
    F, D = freq[:, None], sdirs[None, :]
    inside = [(F >= r[0]) & (F <= r[2]) & (D >= r[1]) & (D <= r[3]) for r in rects]
    shared = np.zeros((len(freq), len(sdirs)), dtype=int)
    for m in inside:
        shared += m
    for ip, (Es, parts) in enumerate(zip(Es_list, parts_list)):
        badparts = [k for k, m in enumerate(inside) if not np.array_equal(parts[k], np.where(m, Es, 0.0))]
        if not np.array_equal(parts[-1], np.where(shared == 0, Es, 0.0)):
            badparts.append(nboxes)
        if badparts:
            k = badparts[0]
            fails.append(("bbox_member", f"partition {k} is not exactly the bins inside its box {rects[k] if k < nboxes else 'complement'} "
                                         f"(fmin, dmin, fmax, dmax); partitions {badparts} differ", ip))
        if (shared <= 1).all() and not np.array_equal(parts.sum(axis=0), Es):
            fails.append(("bbox_sum", "boxes share no bin but the partitions do not add up to the input", ip))
    return fails


def case_bbox(rng, icase, G):
    out = []
    freq, dirs, lead = G["freq"], G["dirs"], G["lead"]
    order = np.argsort(dirs, kind="stable")
    sdirs = dirs[order]
    if len(freq) < 2:
        return out
    boxes, mode = make_boxes(rng, freq, sdirs)
    if not boxes:
        return out
    bdicts = [box_dict(b) for b in boxes]
    desc = desc_of(G, family="bbox", mode=mode, boxes=bdicts, dirmin=float(sdirs.min()))
    docs = [doc_rect(b, freq, sdirs) for b in boxes]
    knowns = [known_rect(b, freq, sdirs) for b in boxes]
    typo = [False for b in boxes]  # F43 (absent dmax -> dir.min()) is fixed since 0288b02
    omitted_dmax = any(b["dmax"][0] == "omit" and float(sdirs.min()) != 0.0 for b in boxes)
    zero = [any(b[k] == ("val", 0.0) for k in ("fmin", "fmax", "dmin", "dmax")) for b in boxes]
    err = None
    res = None
    try:
        res = G["obj"].spec.partition.bbox(bdicts)
        res = res.transpose("part", *lead, "freq", "dir").compute()
    except Exception as e:
        err = type(e).__name__
    base_case = dict(desc, icase=icase, freq=freq.tolist(), dirs=dirs.tolist())
    Es_list, parts_list, cases, E2s = [], [], [], []
    for pos in G["positions"]:
        E2 = spectrum_at(G, pos)
        E2s.append(E2)
        Es_list.append(E2[:, order])
        cases.append(case_of(G, pos, E2, family="bbox", boxes=bdicts, mode=mode, icase=icase))
        parts_list.append(None if res is None else np.asarray(res.isel(pos).values, dtype=float))
    coords_ok = res is None or (np.array_equal(res.freq.values, freq) and np.array_equal(res.dir.values, sdirs)
                                and res.sizes["part"] == len(boxes) + 1)
    if not coords_ok:
        out.append(("FAIL", dict(op="bbox", trigger="bbox_coords", case=base_case, what="wrong coordinates or number of partitions")))
    else:
        # ---------------- direct oracle (documented reading of the boxes)
        # rejection expected iff some pair of documented rectangles satisfies the four strict inequalities; for boxes of
        # positive width and height that is "the open interiors intersect" (Lean: is_overlap_spec); a degenerate box
        # (dmin = dmax) running through the inside of another one is also expected to be rejected
        fails = bbox_oracle(docs, code_overlap, freq, sdirs, Es_list, parts_list, err, len(boxes))
        if err != "ValueError" and not any(r[0] >= r[2] for r in docs) and any(
                open_overlap(docs[a], docs[b]) for a in range(len(docs)) for b in range(a + 1, len(docs))) and not fails:
            fails = [("bbox_overlap_not_rejected", f"boxes with intersecting open interiors {docs} were not rejected", None)]
        if fails:
            # name the trigger: does the recorded deviation (and nothing else) explain what was observed?
            explained = knowns != docs and not bbox_oracle(knowns, code_overlap, freq, sdirs, Es_list, parts_list, err, len(boxes))
            diff_typo = any(typo[k] and knowns[k] != docs[k] for k in range(len(boxes)))
            diff_zero = any(zero[k] and knowns[k] != docs[k] for k in range(len(boxes)))
            for kind, what, ip in fails:
                trig = kind
                if explained and (diff_typo or diff_zero):
                    trig = "bbox_dmax_omitted" if diff_typo else "falsy_zero_limit"
                out.append(("FAIL", dict(op="bbox", trigger=trig, case=base_case if ip is None else cases[ip], what=what)))
    reqs_ctx = []
    for ip, pos in enumerate(G["positions"]):
        E2 = E2s[ip]
        toks = ["bbox", enc_v(freq), enc_v(dirs), enc_m(E2, E2.shape[1]), str(len(boxes))]
        for b in boxes:
            toks += [lim_tok(b["fmin"]), lim_tok(b["fmax"]), lim_tok(b["dmin"]), lim_tok(b["dmax"])]
        attrs = None
        if res is not None:
            attrs = [str(res.attrs.get(f"part{k}", "")) for k in range(len(boxes))]
        reqs_ctx.append((" ".join(toks), dict(fam="bbox", case=cases[ip], desc=desc, parts=parts_list[ip] if coords_ok else None, err=err if coords_ok else "coords",
                                              attrs=attrs,
                                              sig=gen.signature(G["nf"], G["nd"], "bbox", mode, len(boxes), "err" if err else "ok",
                                                                "dmax-omitted" if omitted_dmax else "", G["dtype"], G["order"], len(lead)),
                                              nontrivial=bool(E2.any()))))
    return out + reqs_ctx


# ------------------------------------------------------------------------------------------------
# split / stats
# ------------------------------------------------------------------------------------------------
def pick_band(rng, freq, exact):
    """(fmin, fmax, tag)"""
    n = len(freq)
    r = rng.random()
    if n >= 2 and r < 0.12:
        i = rng.randrange(n - 1)
        lo, hi = float(freq[i]), float(freq[i + 1])
        return lo + (hi - lo) * 0.25, lo + (hi - lo) * 0.5, "onecell"
    if r < 0.16:
        return float(freq[0]) / 2, None, "below"
    if r < 0.2:
        a = rng.randrange(n)
        return float(freq[a]), float(freq[rng.randrange(0, a + 1)]), "badorder"

    def one(lowest):
        q = rng.random()
        if q < 0.25:
            return None, "none"
        if q < 0.55:
            i = rng.randrange(lowest, n)
            return float(freq[i]), "node"
        if q < 0.93 and lowest < n - 1:
            i = rng.randrange(lowest, n - 1)
            lo, hi = float(freq[i]), float(freq[i + 1])
            t = rng.choice([0.5, 0.25, 0.75]) if exact else rng.uniform(0.05, 0.95)
            return lo + (hi - lo) * t, "cell"
        if exact and n >= 3:
            i = rng.randrange(max(lowest, 1), n - 1) if max(lowest, 1) < n - 1 else 1
            return float(freq[i]) + rng.choice([-1, 1]) * 2.0 ** rng.choice([-40, -30, -25]), "nearnode"
        return None, "none"

    fmin, t1 = one(0)
    lowest = 0 if fmin is None else int(np.searchsorted(freq, fmin, side="right"))
    fmax, t2 = one(min(lowest, n - 1))
    if fmin is not None and fmax is not None and fmax <= fmin:
        fmax, t2 = None, "none"
    return fmin, fmax, t1 + "/" + t2


def pick_dband(rng, sdirs, exact):
    n = len(sdirs)
    r = rng.random()
    if r < 0.4:
        return None, None, "none"
    if r < 0.45:
        return None, 0.0, "dmax0"
    if r < 0.5:
        return 0.0, float(sdirs[rng.randrange(n)]) + 1.0, "dmin0"

    def one(lowest):
        q = rng.random()
        if q < 0.25:
            return None
        i = rng.randrange(lowest, n)
        if q < 0.6 or i == n - 1:
            return float(sdirs[i])
        return (float(sdirs[i]) + float(sdirs[i + 1])) / 2

    dmin = one(0)
    lowest = 0 if dmin is None else min(int(np.searchsorted(sdirs, dmin, side="right")), n - 1)
    dmax = one(lowest)
    if dmin is not None and dmax is not None and dmax <= dmin:
        dmax = None
    return dmin, dmax, "band"


def expected_split(freq, sdirs_or_none, Es, fmin, fmax, dmin, dmax, interp):
    """The property restated: grid bins inside the band unchanged, the rest removed, the linearly interpolated row added
    at a cutoff that is not a grid frequency.  Returns (freqs, dirs or None, values)."""
    keep = np.ones(len(freq), dtype=bool)
    if fmin is not None:
        keep &= freq >= fmin
    if fmax is not None:
        keep &= freq <= fmax
    fs = list(freq[keep])
    rows = [Es[i] for i in np.where(keep)[0]]
    if interp and fmin is not None and not (freq == fmin).any():
        fs.insert(0, fmin)
        rows.insert(0, lin_row(freq, Es, fmin))
    if interp and fmax is not None and not (freq == fmax).any():
        fs.append(fmax)
        rows.append(lin_row(freq, Es, fmax))
    V = np.array(rows, dtype=float).reshape(len(fs), Es.shape[1])
    if sdirs_or_none is None:
        return np.array(fs), None, V
    kd = np.ones(len(sdirs_or_none), dtype=bool)
    if dmin is not None:
        kd &= sdirs_or_none >= dmin
    if dmax is not None:
        kd &= sdirs_or_none <= dmax
    return np.array(fs), sdirs_or_none[kd], V[:, kd]


def near_node(freq, x):
    return x is not None and bool(((freq != x) & (np.abs(freq - x) <= 1e-9)).any())


def ill_conditioned_dir(V, do, name):
    """mean direction of a (nearly) vanishing resultant / peak direction among (nearly) equal maxima: decided by rounding"""
    if name == "dm":
        sn, cs = gen.trig_tables(do)
        return math.hypot(float((V * sn).sum()), float((V * cs).sum())) <= 1e-6 * float(np.abs(V).sum())
    col = V.sum(axis=0)
    top = np.sort(col)[::-1]
    return len(top) >= 2 and abs(top[0] - top[1]) <= 1e-9 * max(abs(top[0]), 1e-300)


STAT_NAMES_2D = ["hs", "tm01", "tm02", "tp", "dm", "dp"]
STAT_NAMES_1D = ["hs", "tm01", "tm02", "tp"]


def case_split(rng, icase, G, via_stats):
    out = []
    freq, dirs, lead, oned = G["freq"], G["dirs"], G["lead"], G["oned"]
    fam = "stats" if via_stats else "split"
    fmin, fmax, ftag = pick_band(rng, freq, G["exact"])
    order = None if oned else np.argsort(dirs, kind="stable")
    sdirs = None if oned else dirs[order]
    dmin, dmax, dtag = (None, None, "1d") if oned else pick_dband(rng, sdirs, G["exact"])
    if not oned and rng.random() < 0.2:
        # direction limits only (the frequency axis untouched)
        fmin, fmax, ftag = None, None, "none/none"
        for _ in range(20):
            if dmin is not None or dmax is not None:
                break
            dmin, dmax, dtag = pick_dband(rng, sdirs, G["exact"])
    interp = True if via_stats else rng.random() < 0.85
    if via_stats and not any((fmin, fmax, dmin, dmax)) and rng.random() < 0.7:
        fmin, ftag = (float(freq[0]) + float(freq[-1])) / 2, "cell/none"
        if (freq == fmin).any():
            ftag = "node/none"
    kw = dict(fmin=fmin, fmax=fmax, dmin=dmin, dmax=dmax)
    desc = desc_of(G, family=fam, band=ftag, dband=dtag, interpolate=interp, **kw)
    names = STAT_NAMES_1D if oned else STAT_NAMES_2D
    err = None
    res = st = None
    if via_stats and rng.random() < 0.3:
        # the same object was asked for the same band statistics while it held other values, then overwritten in place
        import xarray as xr

        arr = G["obj"]["efth"] if isinstance(G["obj"], xr.Dataset) else G["obj"]
        if isinstance(arr.variable._data, np.ndarray):
            real = np.array(arr.values, copy=True)
            try:
                arr.values[...] = np.flip(real, axis=arr.get_axis_num("freq")) * 0.5
                G["obj"].spec.stats(names, **kw)
            except Exception:
                pass
            arr.values[...] = real
    try:
        if via_stats:
            st = G["obj"].spec.stats(names, **kw).compute()
        res = res0 = G["obj"].spec.split(interpolate=interp, **kw)
        sdims = ("freq",) if oned else ("freq", "dir")
        res = res.transpose(*lead, *sdims).compute()
    except Exception as e:
        err = type(e).__name__
        errmsg = str(e)
    base_case = dict(desc, icase=icase, freq=freq.tolist(), dirs=None if oned else dirs.tolist())
    # ---------------- classification of the request (predicates over the input only)
    inside = all(x is None or float(freq[0]) <= x <= float(freq[-1]) for x in (fmin, fmax))
    bad_order = (fmin is not None and fmax is not None and fmax <= fmin) or (dmin is not None and dmax is not None and dmax <= dmin)
    empty_band = bool(fmin is not None and fmax is not None and not ((freq >= fmin) & (freq <= fmax)).any())
    falsy_d = (not oned) and (dmax == 0.0) and not dmin
    stats_nosplit = via_stats and not any((fmin, fmax, dmin, dmax))
    ambiguous_cut = near_node(freq, fmin) or near_node(freq, fmax)
    in_scope = inside and not bad_order
    if in_scope and err is not None:
        trig = "split_band_within_one_cell" if (empty_band and err == "IndexError" and interp) else None
        out.append(("FAIL", dict(op=fam, trigger=trig or f"{fam}_raises", case=base_case,
                                 what=f"valid band {kw} raised {err}: {errmsg[:120]}")))
    rt = rel_tol(G)
    for pos in G["positions"]:
        E2 = spectrum_at(G, pos)
        Es = E2 if oned else E2[:, order]
        case = case_of(G, pos, E2, family=fam, interpolate=interp, icase=icase, **kw)
        ctx = dict(fam=fam, case=case, desc=desc, err=err, rt=rt, oned=oned, via_stats=via_stats, stats_nosplit=stats_nosplit,
                   sig=gen.signature(G["nf"], G["nd"], fam, ftag, dtag, "interp" if interp else "nointerp", err or "ok", G["dtype"], G["order"], len(lead)),
                   nontrivial=bool(E2.any()))
        if res is not None:
            sub = res.isel(pos)
            V = np.asarray(sub.values, dtype=float)
            if oned:
                V = V[:, None]
            fo = np.asarray(res.freq.values, dtype=float)
            do = None if oned else np.asarray(res.dir.values, dtype=float)
            ctx.update(fo=fo, do=do, V=V)
            # ---------------- direct oracle for split
            if in_scope and not ambiguous_cut:
                ef, ed, eV = expected_split(freq, sdirs, Es, fmin, fmax, dmin, dmax, interp)
                scale = float(np.abs(E2).max()) or 1.0
                if oned:
                    okc = np.array_equal(fo, ef)
                    Vs = V
                else:
                    # labelled comparison: bring the implementation's columns into sorted direction order
                    o2 = np.argsort(do, kind="stable")
                    okc = np.array_equal(fo, ef) and np.array_equal(do[o2], ed)
                    Vs = V[:, o2]
                if not okc:
                    trig = "falsy_zero_limit" if (falsy_d and np.array_equal(fo, ef)) else None
                    out.append(("FAIL", dict(op=fam, trigger=trig or "split_coords", case=case,
                                             what=f"kept labels freq={fo.tolist()} dir={None if oned else do.tolist()} but the band keeps "
                                                  f"freq={ef.tolist()} dir={None if ed is None else ed.tolist()}")))
                elif Vs.shape != eV.shape or (np.abs(Vs - eV) > 10 * rt * scale).any():
                    out.append(("FAIL", dict(op=fam, trigger="split_values", case=case,
                                             what="bins inside the band changed or the cutoff row is not the linear interpolation")))
                else:
                    # grid bins must be bit-identical copies
                    ong = np.isin(ef, freq)
                    if not np.array_equal(Vs[ong], eV[ong]):
                        out.append(("FAIL", dict(op=fam, trigger="split_inside_changed", case=case, what="a grid bin inside the band was altered")))
            # ---------------- direct oracle for stats: statistics with limits = statistics of the explicitly split spectrum
            if via_stats and st is not None:
                implst = {}
                da0 = G["obj"]["efth"] if G["container"] == "dataset" else G["obj"]
                sp_split = (res0 if not stats_nosplit else da0).isel(pos)
                try:
                    ref = {n: float(getattr(sp_split.spec, n)()) for n in names}
                except Exception as e:  # statistics undefined on the split spectrum (e.g. a single frequency)
                    ref = None
                for n in names:
                    implst[n] = float(st[n].isel({d: i for d, i in pos.items() if d in st[n].dims}))
                ctx.update(stats=implst)
                if ref is not None:
                    for n in names:
                        a, b = implst[n], ref[n]
                        if n in ("dm", "dp") and ill_conditioned_dir(V, do, n):
                            continue
                        same = (math.isnan(a) and math.isnan(b)) or (ang_close(a, b, 1e-6) if n in ("dm", "dp") else close(a, b, rel=10 * rt))
                        if not same:
                            out.append(("FAIL", dict(op="stats", trigger="stats_ne_split", case=case,
                                                     what=f"stats(..., limits)['{n}']={a} but split(limits).spec.{n}()={b}")))
                # independent evaluation on the band restated by the harness
                if in_scope and not ambiguous_cut and not stats_nosplit:
                    ef, ed, eV = expected_split(freq, sdirs, Es, fmin, fmax, dmin, dmax, True)
                    if len(ef) >= 3 and (oned or len(ed) >= 2) and eV.any():
                        o = stats_oracle(ef, ed, eV)
                        tol = 1e-9 if G["dtype"] == "float64" else 2e-5
                        trig = "falsy_zero_limit" if falsy_d else None
                        exp = {"hs": 4 * math.sqrt(o["hsE"]), "tm01": o["m"][0] / o["m"][1] if o["m"][1] else float("nan"),
                               "tm02": math.sqrt(o["m"][0] / o["m"][2]) if o["m"][2] else float("nan")}
                        for n, v in exp.items():
                            if not math.isnan(v) and not close(implst[n], v, rel=10 * tol):
                                out.append(("FAIL", dict(op="stats", trigger=trig or "stats_value", case=case,
                                                         what=f"{n} with limits = {implst[n]} but the defining sum over the band gives {v}")))
        toks = ["split", enc_v(freq), enc_optv(None if oned else dirs), enc_m(E2, E2.shape[1]), enc_o(fmin), enc_o(fmax), enc_o(dmin), enc_o(dmax),
                "1" if interp else "0", "1" if via_stats else "0"]
        if oned:
            toks += ["v 0", "v 0"]
        else:
            s, c = gen.trig_tables(dirs)
            toks += [enc_v(s), enc_v(c)]
        out.append((" ".join(toks), ctx))
    return out


# ------------------------------------------------------------------------------------------------
# fixed witnesses of the findings (run first, every run)
# ------------------------------------------------------------------------------------------------
def witness_failures():
    """Reproduce the Lean witnesses of `Props/C09.lean` on the real implementation; returns FAIL records."""
    import_ws()
    out = []
    f = np.array([0.05, 0.0625, 0.075, 0.1, 0.125, 0.25])
    d = np.array([5.0, 95.0, 185.0, 275.0])
    E = np.arange(24, dtype=float).reshape(6, 4) + 1
    da = gen.make_da(f, d, E)
    # (a) omitted dmax: the box should hold all four directions for 0.06 ≤ f ≤ 0.11
    r = da.spec.partition.bbox([dict(fmin=0.06, fmax=0.11)])
    got = np.asarray(r.isel(part=0).transpose("freq", "dir").values)
    exp = np.where(((f >= 0.06) & (f <= 0.11))[:, None], E, 0.0)
    if not np.array_equal(got, exp):
        out.append(("FAIL", dict(op="bbox", trigger="bbox_dmax_omitted", what="witness (F43, fixed by 0288b02): box without dmax keeps only the first direction",
                                 case=dict(freq=f.tolist(), dirs=d.tolist(), boxes=[dict(fmin=0.06, fmax=0.11)], kept_dirs=int((got.sum(axis=0) > 0).sum())))))
    # (b) both cut-offs inside one frequency cell
    try:
        s = da.spec.split(fmin=0.051, fmax=0.055).compute()
        if s.freq.values.tolist() != [0.051, 0.055]:
            out.append(("FAIL", dict(op="split", trigger="split_coords", what="witness: split inside one cell returns wrong frequencies",
                                     case=dict(freq=f.tolist(), fmin=0.051, fmax=0.055, got=s.freq.values.tolist()))))
    except Exception as e:
        out.append(("FAIL", dict(op="split", trigger="split_band_within_one_cell" if isinstance(e, IndexError) else "split_raises",
                                 what=f"witness: split(fmin=.051, fmax=.055) raised {type(e).__name__}",
                                 case=dict(freq=f.tolist(), fmin=0.051, fmax=0.055))))
    # (c) dmax = 0 on its own is ignored (Python truthiness of 0)
    d0 = np.array([0.0, 90.0, 180.0, 270.0])
    da0 = gen.make_da(f, d0, E)
    s = da0.spec.split(dmax=0.0).compute()
    if s.dir.values.tolist() != [0.0]:
        out.append(("FAIL", dict(op="split", trigger="falsy_zero_limit", what="witness: split(dmax=0) keeps every direction",
                                 case=dict(dirs=d0.tolist(), dmax=0.0, got=s.dir.values.tolist()))))
    # (d) empty list of boxes
    try:
        r = da.spec.partition.bbox([])
        if r.sizes["part"] != 1 or not np.array_equal(np.asarray(r.isel(part=0).transpose("freq", "dir").values), E):
            out.append(("FAIL", dict(op="bbox", trigger="bbox_member", what="witness: bbox([]) is not the complement alone", case=dict(boxes=[]))))
    except ValueError:
        pass
    except Exception as e:
        out.append(("FAIL", dict(op="bbox", trigger="bbox_empty_list", what=f"witness: bbox([]) raised {type(e).__name__}", case=dict(boxes=[]))))
    return out


# ------------------------------------------------------------------------------------------------
def make_case(args):
    seed, icase = args
    rng = case_rng("C09", seed, icase)
    import_ws()
    fam = FAMILIES[icase % len(FAMILIES)]
    oned = fam in ("split", "stats") and rng.random() < 0.2
    G = gen_common(rng, oned=oned)
    if fam == "ptm4":
        return case_ptm4(rng, icase, G)
    if fam == "ptm5":
        return case_ptm5(rng, icase, G)
    if fam == "bbox":
        return case_bbox(rng, icase, G)
    return case_split(rng, icase, G, via_stats=(fam == "stats"))


def mat_close(impl, model, tol):
    """impl: ndarray; model: list of lists of Fractions"""
    M = np.array([[float(x) for x in r] for r in model], dtype=float).reshape(len(model), -1) if model else np.zeros((0, impl.shape[1] if impl.ndim == 2 else 0))
    if M.shape != impl.shape:
        return False, f"shape {impl.shape} vs model {M.shape}"
    if M.size == 0:
        return True, ""
    dev = np.abs(M - impl)
    if (dev > tol).any():
        i, j = [int(x) for x in np.argwhere(dev > tol)[0]]
        return False, f"bin ({i},{j}): impl={impl[i, j]!r} model={M[i, j]!r}"
    return True, ""


def run_check():
    ck = Check("C09")
    ck.extra["rule"] = ("cases round-robin over ptm4 / ptm5 / bbox / split / stats on generated spectra (0–2 leading dims, per-position wind and "
                        "depth, DataArray and Dataset); signature = (nf class, nd class, family, branch tags [mask class, cut on node / in cell / "
                        "near node, box-set mode, error class], dtype, stored direction order, #leading dims); non-trivial = spectrum not all-zero")
    ck.do_audit()
    import_ws()
    import dask

    dask.config.set(scheduler="synchronous")  # no thread pools: the workers are forked
    ncases = 1000 if ck.tier == "quick" else 15000
    reqs, ctxs = [], []
    for res in pmap(make_case, [(ck.seed, i) for i in range(ncases)]):
        for req, ctx in res:
            if req == "CRASH":
                ck.fail(ctx["op"], ctx["what"], ctx["case"], "crash")
            elif req == "FAIL":
                ck.fail(ctx["op"], ctx["what"], ctx["case"], ctx["trigger"])
            else:
                reqs.append(req)
                ctxs.append(ctx)
    for tag, rec in witness_failures():
        ck.fail(rec["op"], rec["what"], rec["case"], rec["trigger"])
    resps = run_driver(reqs)
    _dis = ck.disagree
    ck.disagree = lambda op, what, case, trigger=None: _dis(op, f"[seed {ck.seed} icase {case.get('icase')}] {what}", case, trigger)
    for ctx, resp in zip(ctxs, resps):
        st, mo = parse_resp(resp)
        fam, case = ctx["fam"], ctx["case"]
        ck.count("family:" + fam)
        ck.case(ctx["sig"], ctx["nontrivial"], sample=dict(case=ctx["desc"]))
        if st != "ok" and not (isinstance(mo, str) and mo.split()[0].endswith("Error")):
            ck.disagree(fam, f"model protocol error {mo}", case)
            continue
        merr = None if st == "ok" else mo.split()[0]
        if fam == "ptm4":
            ck.count("ptm4:designed_ties", ctx["ntie"])
            if ctx["namb"]:
                ck.ambiguous += 1
            keep = ~ctx["amb"]
            if [float(x) for x in mo["dirs"]] != [float(x) for x in ctx["dirs_out"]]:
                ck.disagree("ptm4", "sorted directions differ", case)
                continue
            for nm in ("sea", "swell"):
                M = np.array([[float(x) for x in r] for r in mo[nm]], dtype=float).reshape(ctx[nm].shape)
                bad = keep & (M != ctx[nm])
                if bad.any():
                    i, j = [int(x) for x in np.argwhere(bad)[0]]
                    ck.disagree("ptm4", f"{nm} bin ({i},{j}): impl={ctx[nm][i, j]} model={M[i, j]}", case)
        elif fam == "ptm5":
            ck.count("ptm5:regrid" if mo.get("regrid") == 1 else "ptm5:ongrid")
            if [float(x) for x in mo["freq"]] != ctx["fo"].tolist() or [float(x) for x in mo["dirs"]] != ctx["do"].tolist():
                ck.disagree("ptm5", f"coordinates: impl freq={ctx['fo'].tolist()} dir={ctx['do'].tolist()} model freq={[float(x) for x in mo['freq']]} "
                                    f"dir={[float(x) for x in mo['dirs']]}", case)
                continue
            scale = float(np.abs(np.array(case["E"])).max()) or 1.0
            kk = 1.0 if mo["k"] is None else max(1.0, float(mo["k"]))
            for nm in ("sea", "swell"):
                ok, why = mat_close(ctx[nm], mo[nm], 10 * ctx["rt"] * scale * kk)
                if not ok:
                    ck.disagree("ptm5", f"{nm}: {why} (model k={mo['k'] and float(mo['k'])})", case)
        elif fam == "bbox":
            ck.count("bbox:" + ("error" if ctx["err"] else "ok"))
            if merr or ctx["err"]:
                if merr != ctx["err"]:
                    ck.disagree("bbox", f"impl raised {ctx['err']} model {merr}", case)
                continue
            parts = ctx["parts"]
            if int(mo["nparts"]) != parts.shape[0]:
                ck.disagree("bbox", f"number of partitions impl={parts.shape[0]} model={mo['nparts']}", case)
                continue
            for k in range(parts.shape[0]):
                ok, why = mat_close(parts[k], mo[f"p{k}"], 0.0)
                if not ok:
                    ck.disagree("bbox", f"partition {k}: {why}", case)
            # the rectangles the implementation reports in its attributes = the model's effective rectangles
            for k, a in enumerate(ctx["attrs"] or []):
                try:
                    vals = dict(t.split("=") for t in a.replace(" ", "").split(","))
                    got = [float(vals[x]) for x in ("fmin", "dmin", "fmax", "dmax")]
                except Exception:
                    continue
                want = [float(x) for x in mo["rects"][k]]
                if got != want:
                    ck.disagree("bbox", f"rectangle {k}: impl attrs {got} model {want}", case)
        else:
            ck.count(f"{fam}:" + (ctx["err"] or "ok"))
            if merr or ctx["err"]:
                if merr != ctx["err"]:
                    ck.disagree(fam, f"impl raised {ctx['err']} model {merr}", case)
                continue
            scale = float(np.abs(np.array(case["E"])).max()) or 1.0
            if not (ctx["via_stats"] and ctx["stats_nosplit"]):
                mf = [float(x) for x in mo["freq"]]
                md = None if ctx["oned"] else [float(x) for x in mo["dirs"]]
                if mf != ctx["fo"].tolist() or (md is not None and md != ctx["do"].tolist()):
                    ck.disagree(fam, f"coordinates: impl freq={ctx['fo'].tolist()} dir={None if ctx['oned'] else ctx['do'].tolist()} model freq={mf} dir={md}", case)
                    continue
                ok, why = mat_close(ctx["V"], mo["e"], 10 * ctx["rt"] * scale)
                if not ok:
                    ck.disagree(fam, f"values: {why}", case)
            if ctx["via_stats"] and "stats" in ctx:
                compare_stats(ck, ctx, mo, case)
    ck.assumptions = [
        "frequencies are stored in increasing order (label slicing of an unsorted frequency index is not modelled)",
        "celerity and cos(dir - wdir) tables are computed by the harness from the published rule; bins whose wave-age margin is below 1e-9 "
        "relative are ambiguous unless they are designed exact ties (dir = wdir, power-of-two age factor, harness celerity bit-identical)",
        "split cut-offs within 1e-9 of a grid frequency (but not equal) are compared with the model only, not with the oracle",
        "float32 data: tolerance 5e-6 relative; float64: 1e-9",
    ]
    from collections import Counter
    from ..common import log

    log("[C09] oracle failures by trigger:", dict(Counter(f["trigger"] for f in ck.oracle_failures)))
    log("[C09] disagreements by op:", dict(Counter(d["op"] for d in ck.disagreements)))
    ck.extra["oracle_failures_by_trigger"] = dict(Counter(f["trigger"] for f in ck.oracle_failures))
    return ck.finish()


def compare_stats(ck, ctx, mo, case):
    """stats(..., limits) against the Lean statistics of the Lean split."""
    tol = 1e-9 if case["dtype"] == "float64" else 2e-5
    impl = ctx["stats"]
    nfo = len(mo["freq"])
    hsE = float(mo["hsE"])
    if not close(impl["hs"], 4 * math.sqrt(max(hsE, 0.0)), rel=10 * tol):
        ck.disagree("stats", f"hs impl={impl['hs']} model={4 * math.sqrt(max(hsE, 0.0))}", case)
    m0, m1, m2 = float(mo["m0"]), float(mo["m1"]), float(mo["m2"])
    if m1 != 0 and not close(impl["tm01"], m0 / m1, rel=10 * tol):
        ck.disagree("stats", f"tm01 impl={impl['tm01']} model={m0 / m1}", case)
    if m2 != 0 and m0 / m2 >= 0 and not close(impl["tm02"], math.sqrt(m0 / m2), rel=10 * tol):
        ck.disagree("stats", f"tm02 impl={impl['tm02']} model={math.sqrt(m0 / m2)}", case)
    # peak period: only when the peak is unambiguous in floating point
    if nfo >= 3:
        fps = mo["fpS"]
        t = impl["tp"]
        if fps is None:
            if not math.isnan(t) and case["dtype"] == "float64" and ctx["desc"]["stream"] == "exact":
                ck.disagree("stats", f"tp impl={t} model=nan", case)
        elif ctx["desc"]["stream"] == "exact" and case["dtype"] == "float64" and not any(
                t in ctx["desc"].get("band", "") for t in ("cell", "nearnode")):
            if not close(t, 1 / float(fps), rel=1e-5):
                ck.disagree("stats", f"tp impl={t} model={1 / float(fps)}", case)
    if not ctx["oned"] and "dmS" in mo:
        S_, C_ = float(mo["dmS"]), float(mo["dmC"])
        tot = float(sum(sum(abs(float(x)) for x in r) for r in mo["e"])) or 1.0
        if math.hypot(S_, C_) > 1e-5 * tot:
            if not ang_close(impl["dm"], dm_from(S_, C_), tol=1e-6 if case["dtype"] == "float64" else 1e-2):
                ck.disagree("stats", f"dm impl={impl['dm']} model={dm_from(S_, C_)}", case)
        cs = [float(x) for x in mo["colsums"]]
        if cs:
            mx = max(cs)
            near = [k for k, x in enumerate(cs) if abs(x - mx) <= (1e-9 if case["dtype"] == "float64" else 1e-5) * max(mx, 1e-300)]
            dl = [float(x) for x in mo["dirs"]]
            if not any(close(impl["dp"], float(np.float32(dl[k])), rel=1e-6) for k in near):
                ck.disagree("stats", f"dp impl={impl['dp']} model one of {[dl[k] for k in near]}", case)


if __name__ == "__main__":
    from ..common import main_wrapper

    main_wrapper(run_check)

"""C14 — site selection finds the right stations on a sphere-aware longitude axis (DESIGN §3 C14).

Three layers per case (all numbers are multiples of 1/8, so every float operation before `sqrt` is exact):

* implementation : `Dataset.spec.sel(lons, lats, method=…)` of the real package;
* model          : op `select` of the Lean driver (Model/Select.lean mirrors the code AS IT IS; the
                   harness supplies the square roots of the model's radicands, exact where they are
                   rational (Pythagorean/collinear layouts) else the correctly rounded double);
* direct oracle  : the property text restated in Python with exact fractions, independent of the model
                   (short-way longitude gap, planar distance in degrees, weights ∝ 1/d, box = [min,max] of the
                   query in its own convention widened by the tolerance and compared modulo 360).

`ck.disagree` = model ≠ implementation;  `ck.fail(op, what, case, trigger)` = oracle fails on the
implementation; `trigger` is computed by a predicate on the input (DESIGN Appendix D) and is `None`
(→ VIOLATION) unless the failure is exactly of a recorded kind.
"""
import itertools
import json
import math
import os
from fractions import Fraction as F

import numpy as np

from ..common import Check, enc, enc_m, enc_v, fr, import_ws, parse_resp, run_driver

# Which behaviour the Lean model is asked to mirror.  Flip to True when the corresponding candidate
# repair has been committed to the repository (Model/SelectFixed.lean, Props/C14.lean section `Fixed`).
FIXED = dict(dist=True, bbox=True)
for _k in os.environ.get("VERIF_C14_FIXED", "").split(","):   # e.g. VERIF_C14_FIXED=dist,bbox to try a patched worktree
    if _k in FIXED:
        FIXED[_k] = True
DEFAULT_MAX_SITES = 4      # default of sel_idw(max_sites=…); a changed default shows up as a disagreement
EIGHTH = F(1, 8)
TRIPLES = [(3, 4), (4, 3), (5, 12), (12, 5), (8, 15), (15, 8), (6, 8), (7, 24), (20, 21), (1, 0), (0, 1), (2, 0), (0, 3)]


# ------------------------------------------------------------------------------------------------
# conventions, gaps (exact fractions)
# ------------------------------------------------------------------------------------------------
def to360(x):
    return x % 360


def to180(x):
    r = x % 360
    return r if r <= 180 else r - 360


def gap_short(a, b):
    """the short way round the globe"""
    g = (a - b) % 360
    return min(g, 360 - g)


def gap_coded(a, b):
    """what `Coordinates.distance` does: difference of the two residues"""
    return abs(a % 360 - b % 360)


def radicands(gap, dl, dla, qlon, qlat):
    return [gap(a, qlon) ** 2 + (b - qlat) ** 2 for a, b in zip(dl, dla)]


def is_square(r):
    n, d = r.numerator, r.denominator
    return n >= 0 and math.isqrt(n) ** 2 == n and math.isqrt(d) ** 2 == d


def exact_sqrt(r):
    return F(math.isqrt(r.numerator), math.isqrt(r.denominator))


def in360(xs):
    return all(0 <= x <= 360 for x in xs)


def in180(xs):
    return all(-180 <= x <= 180 for x in xs)


def frs(xs):
    return [F(x) for x in xs]


# ------------------------------------------------------------------------------------------------
# case container
# ------------------------------------------------------------------------------------------------
def case_json(c):
    return dict(method=c["method"], dl=[str(x) for x in c["dl"]], dla=[str(x) for x in c["dla"]],
                ql=[str(x) for x in c["ql"]], qla=[str(x) for x in c["qla"]], tol=str(c["tol"]),
                max_sites=c["max_sites"], unique=c["unique"], exact=c["exact"], missing=c["missing"], pre=c["pre"],
                as_array=c.get("as_array", False), tag=c.get("tag", ""), group=c.get("group"),
                floats=dict(dl=[float(x) for x in c["dl"]], ql=[float(x) for x in c["ql"]], tol=float(c["tol"])))


def case_from_json(j):
    c = dict(method=j["method"], dl=frs(j["dl"]), dla=frs(j["dla"]), ql=frs(j["ql"]), qla=frs(j["qla"]), tol=F(j["tol"]),
             max_sites=j.get("max_sites", "default"), unique=bool(j.get("unique", False)), exact=bool(j.get("exact", False)),
             missing=j.get("missing", "raise"), pre=bool(j.get("pre", False)), as_array=bool(j.get("as_array", False)),
             tag=j.get("tag", "replay"), group=j.get("group"))
    return c


def mk_case(method, dl, dla, ql, qla, tol, max_sites="default", unique=False, exact=False, missing="raise", pre=False,
            as_array=False, tag="", group=None):
    return dict(method=method, dl=frs(dl), dla=frs(dla), ql=frs(ql), qla=frs(qla), tol=F(tol), max_sites=max_sites,
                unique=unique, exact=exact, missing=missing, pre=pre, as_array=as_array, tag=tag, group=group)


# witnesses of the recorded findings + a few hand-made regression cases; always run first
def witnesses():
    W = []
    # F12: stations either side of Greenwich, query just east of it
    W.append(mk_case("nearest", [F(2879, 8), F(1, 2)], [0, 0], [F(1, 8)], [0], 5, tag="w:nearest-greenwich"))
    W.append(mk_case("nearest", [F(719, 2), 10], [0, 0], [F(3, 8)], [0], 2, tag="w:nearest-greenwich-tol"))
    W.append(mk_case("nearest", [F(-1, 8), F(1, 2)], [0, 0], [F(1, 8)], [0], 5, tag="w:nearest-greenwich-180"))
    W.append(mk_case("idw", [F(719, 2), F(1, 2)], [0, 0], [0], [0], 2, tag="w:idw-greenwich"))
    W.append(mk_case("idw", [-1, 1, 3], [0, 0, 0], [F(1, 2)], [0], 5, max_sites=2, tag="w:idw-greenwich-180"))
    # F13: western box on a 0–360 dataset; tolerance; straddling box with tolerance; inner extent
    W.append(mk_case("bbox", [10, 180, 350], [0, 0, 0], [-20, -5], [-1, 1], 0, tag="w:bbox-west"))
    W.append(mk_case("bbox", [10, 180, 350], [0, 0, 0], [-20, -5], [-1, 1], 6, tag="w:bbox-west-tol"))
    W.append(mk_case("bbox", [10, 180, 350], [0, 0, 0], [-12, 12], [-1, 1], 3, tag="w:bbox-straddle-tol"))
    W.append(mk_case("bbox", [8, 180, 352], [0, 0, 0], [-10, 5, 10], [-1, 1, 0], 0, tag="w:bbox-inner-extent"))
    W.append(mk_case("bbox", [10, 180, -10, -175, 175], [0, 0, 0, 0, 0], [170, 190], [-1, 1], 0, tag="w:bbox-antimeridian"))
    W.append(mk_case("bbox", [2, 180, 358], [0, 0, 0], [5, 10], [-1, 1], 10, tag="w:bbox-seam"))
    # correct on this tree
    W.append(mk_case("bbox", [10, 180, 350], [0, 0, 0], [-12, 12], [-1, 1], 0, tag="w:bbox-straddle-ok"))
    W.append(mk_case("nearest", [-10, 10], [30, 30], [351], [31], 5, pre=True, tag="w:test_sel-180-360"))
    W.append(mk_case("idw", [0, 350], [30, 30], [-1], [30], 10, max_sites=4, tag="w:test_sel-idw"))
    W.append(mk_case(None, [10, 20], [0, 1], [20, 10], [1, 0], 2, tag="w:none-exact"))
    W.append(mk_case(None, [10, 20], [0, 1], [20, F(21, 2)], [1, 0], 2, tag="w:none-inexact"))
    W.append(mk_case("nearest", [10, 20], [0, 1], [], [], 2, tag="w:empty-query"))
    W.append(mk_case("nearest", [10, 20], [0, 1], [1, 2], [1], 2, tag="w:len-mismatch"))
    W.append(mk_case("foo", [10, 20], [0, 1], [1], [1], 2, tag="w:bad-method"))
    return W


# ------------------------------------------------------------------------------------------------
# generators
# ------------------------------------------------------------------------------------------------
CENTERS = [0, 0, 0, 0, 180, 180, 180, 90, 270, F(1, 2), F(719, 2), F(359), 1, 179, 181, 45, 315]


def dy(rng, spread):
    """a multiple of 1/8 in [-spread, spread]"""
    return F(rng.randint(-8 * spread, 8 * spread), 8)


def gen_geometry(rng):
    """Stations and queries in 'true' longitudes (any representative); returns (slon, slat, qlon, qlat, layout)."""
    layout = rng.choice(["line_lat", "line_lat", "line_lon", "star", "star", "free", "free"])
    c = F(rng.choice(CENTERS))
    spread = rng.choice([1, 2, 5, 5, 20, 60])
    lat0 = F(rng.choice([0, 0, 30, -45, 60, F(-121, 8)]))
    ns = rng.choice([1, 2, 2, 3, 3, 4, 5, 7])
    nq = rng.choice([1, 1, 2, 2, 3, 4])
    if layout == "line_lat":
        slon = [c + dy(rng, spread) for _ in range(ns)]
        slat = [lat0] * ns
        qlon = [c + dy(rng, spread) for _ in range(nq)]
        qlat = [lat0] * nq
    elif layout == "line_lon":
        off = dy(rng, 1)
        slon = [c + off] * ns
        slat = [lat0 + dy(rng, min(spread, 20)) for _ in range(ns)]
        qlon = [c + off] * nq
        qlat = [lat0 + dy(rng, min(spread, 20)) for _ in range(nq)]
    elif layout == "star":
        q = (c + dy(rng, 2), lat0 + dy(rng, 2))
        qlon, qlat = [q[0]] * nq, [q[1]] * nq
        slon, slat = [], []
        for _ in range(ns):
            a, b = rng.choice(TRIPLES)
            s = F(rng.choice([1, 1, 2, 3, 4, 8]), 8)
            slon.append(q[0] + rng.choice([-1, 1]) * a * s)
            slat.append(q[1] + rng.choice([-1, 1]) * b * s)
    else:
        slon = [c + dy(rng, spread) for _ in range(ns)]
        slat = [lat0 + dy(rng, min(spread, 20)) for _ in range(ns)]
        qlon = [c + dy(rng, spread) for _ in range(nq)]
        qlat = [lat0 + dy(rng, min(spread, 20)) for _ in range(nq)]
    # duplicated stations / queries, exact matches
    if ns > 1 and rng.random() < 0.15:
        i, j = rng.sample(range(ns), 2)
        slon[j], slat[j] = slon[i], slat[i]
    if nq > 1 and rng.random() < 0.3:
        i, j = rng.sample(range(nq), 2)
        qlon[j], qlat[j] = qlon[i], qlat[i]
    if layout != "star" and rng.random() < 0.3:
        for j in range(nq):
            if rng.random() < 0.6:
                k = rng.randrange(ns)
                qlon[j], qlat[j] = slon[k], slat[k]
    slat = [max(F(-90), min(F(90), x)) for x in slat]
    qlat = [max(F(-90), min(F(90), x)) for x in qlat]
    return slon, slat, qlon, qlat, layout


def canon_station(x, conv):
    """express a longitude in a convention; never the non-canonical representatives 360 / −180"""
    return to360(x) if conv == 360 else to180(x)


def canon_query(x, conv, rng):
    v = to360(x) if conv == 360 else to180(x)
    # occasionally the other representative of the seam
    if conv == 360 and v == 0 and rng.random() < 0.3:
        v = F(360)
    if conv == 180 and v == 180 and rng.random() < 0.3:
        v = F(-180)
    return v


def pick_tol(rng, c_dl, dla, ql, qla):
    r = rng.random()
    if r < 0.35 and ql:
        # a tolerance equal to an actual distance (boundary of `<=`), when rational
        j = rng.randrange(len(ql))
        gap = rng.choice([gap_short, gap_coded])
        cand = [exact_sqrt(x) for x in radicands(gap, c_dl, dla, ql[j], qla[j]) if is_square(x)]
        if cand:
            return rng.choice(cand)
    return F(rng.choice([0, F(1, 8), F(1, 2), 1, 2, 2, 5, 10, 10, 50, 400]))


def gen_group(rng, gid):
    """One geometry, expressed in several convention combinations (the convention-independence group)."""
    slon, slat, qlon, qlat, layout = gen_geometry(rng)
    method = rng.choice(["nearest", "nearest", "nearest", "idw", "idw", "idw", "bbox", "bbox", "bbox", None])
    combos = [(d, q) for d in (360, 180) for q in (360, 180)]
    rng.shuffle(combos)
    combos = combos[:rng.choice([2, 2, 4])]
    out = []
    base = None
    for dconv, qconv in combos:
        dl = [canon_station(x, dconv) for x in slon]
        if method == "bbox" and base is not None:
            ql = base["ql"]       # the box is defined by the query's own numbers: keep them, vary the dataset only
        else:
            ql = [canon_query(x, qconv, rng) for x in qlon]
        if base is None:
            tol = pick_tol(rng, dl, slat, ql, qlat)
            if method == "bbox":
                tol = F(rng.choice([0, 0, 0, 0, F(1, 2), 1, 3, 6, 10]))
            opts = dict(max_sites=rng.choice(["default", "default", 1, 2, 2, 3, 5, None, 0]),
                        unique=rng.random() < 0.3, exact=rng.random() < 0.05,
                        missing=rng.choice(["raise", "raise", "raise", "ignore", "ignore", "other"]) if rng.random() < 0.6 else "raise")
            base = dict(tol=tol, opts=opts, ql=ql)
        c = mk_case(method, dl, slat, ql, qlat, base["tol"], pre=rng.random() < 0.3, as_array=rng.random() < 0.5,
                    tag=f"gen:{layout}:d{dconv}q{qconv}", group=gid, **base["opts"])
        out.append(c)
    return out


def gen_bbox_case(rng, gid):
    """Boxes designed around the branches of sel_bbox: west/east of Greenwich, straddling 0 or 180, with/without
    tolerance, several query longitudes on one side."""
    ns = rng.choice([3, 4, 6, 8])
    kind = rng.choice(["west", "straddle0", "straddle0", "straddle0_multi", "east", "straddle180", "seam_tol", "wide"])
    span = rng.choice([5, 10, 20, 40])
    if kind == "west":
        lo = -F(rng.randint(span + 1, 150)); hi = lo + span
    elif kind in ("straddle0", "straddle0_multi"):
        lo = -F(rng.randint(1, span)); hi = F(rng.randint(1, span))
    elif kind == "east":
        lo = F(rng.randint(1, 150)); hi = lo + span
    elif kind == "straddle180":
        lo = 180 - F(rng.randint(1, span)); hi = 180 + F(rng.randint(1, span))
    elif kind == "seam_tol":
        lo = F(rng.randint(1, 4)); hi = lo + span
    else:
        lo = -F(rng.randint(100, 170)); hi = F(rng.randint(100, 170))
    qconv = rng.choice([360, 180])
    if kind == "straddle180":
        qconv = 360          # [170, 190] is an interval only in 0–360 numbers
    if kind in ("west", "straddle0", "straddle0_multi", "wide"):
        qconv = 180          # [-20, -5] / [-10, 10] are intervals only in ±180 numbers
    ql = [lo, hi]
    if kind == "straddle0_multi" or rng.random() < 0.25:
        for _ in range(rng.choice([1, 2])):
            ql.append(lo + F(rng.randint(0, int(8 * (hi - lo))), 8))
        rng.shuffle(ql)
    la0 = F(rng.choice([-5, 0, 20])); la1 = la0 + rng.choice([2, 10])
    qla = [la0, la1] + [la0 + F(rng.randint(0, int(8 * (la1 - la0))), 8) for _ in ql[2:]]
    tol = F(rng.choice([0, 0, 0, 1, 3, 6])) if kind != "seam_tol" else F(rng.choice([5, 10]))
    # stations: inside, just outside, on the boundary, far away — all expressed later in the dataset convention
    slon, slat = [], []
    for _ in range(ns):
        r = rng.random()
        if r < 0.35:
            x = lo + F(rng.randint(0, int(8 * (hi - lo))), 8)
        elif r < 0.5:
            x = rng.choice([lo, hi, lo - tol, hi + tol])
        elif r < 0.75:
            x = rng.choice([lo - tol - F(1, 8), hi + tol + F(1, 8), lo - 2 * tol - 1, hi + 2 * tol + 1])
        else:
            x = F(rng.randint(-8 * 180, 8 * 180), 8)
        slon.append(x)
        slat.append(rng.choice([la0, la1, la0 - tol, la1 + tol, la0 - tol - F(1, 8), (la0 + la1) / 2, (la0 + la1) / 2, la0 + 1]))
    out = []
    for dconv in (360, 180):
        dl = [canon_station(x, dconv) for x in slon]
        out.append(mk_case("bbox", dl, slat, ql, qla, tol, pre=rng.random() < 0.3, as_array=rng.random() < 0.5,
                           tag=f"bbox:{kind}:d{dconv}q{qconv}", group=gid))
    return out


# ------------------------------------------------------------------------------------------------
# implementation
# ------------------------------------------------------------------------------------------------
NT, NF, ND = 2, 2, 2


def make_dataset(xr, dl, dla):
    ds = make_dataset_float(xr, dl, dla)
    # stations on whole degrees are sometimes stored as integers (what `dset["lon"].values = [-10, 10]` produces)
    if all(float(x) == int(x) for x in dl) and all(float(x) == int(x) for x in dla) and (len(dl) + int(float(dl[0]))) % 2 == 0:
        ds["lon"] = (("site",), np.array([int(x) for x in dl], dtype="int64"))
        ds["lat"] = (("site",), np.array([int(x) for x in dla], dtype="int64"))
    return ds


def make_dataset_float(xr, dl, dla):
    ns = len(dl)
    base = np.arange(NT * NF * ND, dtype=float).reshape(NT, 1, NF, ND)
    site = (np.arange(ns, dtype=float) + 1).reshape(1, ns, 1, 1) * 1000.0
    efth = site + base * (1 + np.arange(ns).reshape(1, ns, 1, 1) % 3)
    return xr.Dataset(
        {"efth": (("time", "site", "freq", "dir"), efth),
         "lon": (("site",), np.array([float(x) for x in dl], dtype=float)),
         "lat": (("site",), np.array([float(x) for x in dla], dtype=float))},
        coords={"time": np.array(["2020-01-01T00", "2020-01-01T03"], dtype="datetime64[ns]"), "site": np.arange(ns),
                "freq": [0.1, 0.2], "dir": [0.0, 180.0]})


def run_impl(xr, c):
    """returns (status, payload): ('ok', dict(efth, lon, lat)) | ('err', class name) | ('skip', why)"""
    try:
        ds = make_dataset(xr, c["dl"], c["dla"])
    except Exception as e:  # pragma: no cover
        return "skip", f"dataset: {e}"
    before = (ds.lon.values.copy(), ds.lat.values.copy(), ds.efth.values.copy())
    lons = [float(x) for x in c["ql"]]
    lats = [float(x) for x in c["qla"]]
    if c["as_array"]:
        lons, lats = np.array(lons), np.array(lats)
    kw = {}
    m = c["method"]
    if m in ("nearest", None):
        if c["unique"]:
            kw["unique"] = True
        if c["missing"] != "raise":
            kw["missing"] = c["missing"]
        if c["exact"] and m == "nearest":
            kw["exact"] = True
    if m == "idw" and c["max_sites"] != "default":
        kw["max_sites"] = c["max_sites"]
    if c["pre"]:
        kw["dset_lons"] = ds.lon.values.copy()
        kw["dset_lats"] = ds.lat.values.copy()
    elif (len(c["dl"]) + len(c["ql"])) % 3 == 0:
        # the dataset has a history: the same Dataset object held its stations elsewhere (other convention, shifted) when its
        # accessor first served a selection, and its coordinates were then replaced in place; the selection below must be made
        # from the stations it holds now
        real_lon, real_lat = ds["lon"].variable.copy(deep=True), ds["lat"].variable.copy(deep=True)
        try:
            ds["lon"] = (ds["lon"].dims, (np.asarray(ds.lon.values, dtype=float) + 97.0) % 360.0)
            ds["lat"] = (ds["lat"].dims, -np.asarray(ds.lat.values, dtype=float) * 0.5)
            for mm in ("nearest", "idw", "bbox"):
                try:
                    ds.spec.sel(lons=[10.0, 200.0], lats=[-5.0, 5.0], method=mm, tolerance=400.0)
                except Exception:
                    pass
        finally:
            ds["lon"] = real_lon
            ds["lat"] = real_lat
        before = (ds.lon.values.copy(), ds.lat.values.copy(), ds.efth.values.copy())
    try:
        out = ds.spec.sel(lons=lons, lats=lats, method=m, tolerance=float(c["tol"]), **kw)
    except (AssertionError, ValueError, NotImplementedError, KeyError, IndexError, TypeError, ZeroDivisionError) as e:
        return "err", type(e).__name__
    repeat = None
    if c["as_array"]:
        # the same query arrays reused for a second, identical call: the selection is a function of the query values
        qchanged = not (np.array_equal(lons, np.array([float(x) for x in c["ql"]])) and np.array_equal(lats, np.array([float(x) for x in c["qla"]])))
        try:
            out2 = ds.spec.sel(lons=lons, lats=lats, method=m, tolerance=float(c["tol"]), **kw)
            same2 = (out2.sizes == out.sizes and np.array_equal(out2.efth.values, out.efth.values, equal_nan=True)
                     and np.array_equal(np.atleast_1d(out2.lon.values), np.atleast_1d(out.lon.values))
                     and np.array_equal(np.atleast_1d(out2.lat.values), np.atleast_1d(out.lat.values)))
        except Exception as e:
            same2 = False
        if qchanged or not same2:
            repeat = ("the caller's query arrays were rewritten by sel" if qchanged else "") + \
                     ("" if same2 else " / a second identical call with the same arrays selected differently")
    res = dict(efth=np.asarray(out.efth.transpose("time", "site", "freq", "dir").values, dtype=float),
               lon=[float(x) for x in np.atleast_1d(out.lon.values)], lat=[float(x) for x in np.atleast_1d(out.lat.values)],
               src=ds.efth.values, repeat=repeat,
               mutated=not (np.array_equal(before[0], ds.lon.values) and np.array_equal(before[1], ds.lat.values)
                            and np.array_equal(before[2], ds.efth.values)))
    return "ok", res


def impl_ids(res):
    """station index of every output site (nearest/bbox): from the per-site marker in efth"""
    mark = res["efth"][0, :, 0, 0]
    ids = []
    for v in mark:
        if not np.isfinite(v) or v % 1000 != 0:
            return None
        ids.append(int(round(v / 1000)) - 1)
    for j, k in enumerate(ids):
        if k < 0 or k >= res["src"].shape[1] or not np.array_equal(res["efth"][:, j], res["src"][:, k]):
            return None
    return ids


# ------------------------------------------------------------------------------------------------
# model request
# ------------------------------------------------------------------------------------------------
def model_request(c):
    m = c["method"]
    mname = "none" if m is None else str(m)
    gap = gap_short if FIXED["dist"] else gap_coded
    mode, rows = "exact", []
    if mname in ("nearest", "none", "idw") and len(c["ql"]) == len(c["qla"]):
        rad = [radicands(gap, c["dl"], c["dla"], a, b) for a, b in zip(c["ql"], c["qla"])]
        if not all(is_square(x) for r in rad for x in r):
            mode = "approx"
        for r in rad:
            rows.append([exact_sqrt(x) if mode == "exact" else F(*math.sqrt(float(x)).as_integer_ratio()) for x in r])
    ms = c["max_sites"]
    ms = str(DEFAULT_MAX_SITES) if ms == "default" else ("none" if ms is None else str(int(ms)))
    sq = enc_m(rows, len(c["dl"])) if rows else "m 0 0"
    line = " ".join(["select", mname, "1" if FIXED["dist"] else "0", "1" if FIXED["bbox"] else "0",
                     enc_v(c["ql"]), enc_v(c["qla"]), enc_v(c["dl"]), enc_v(c["dla"]), enc_v(c["dl"]),
                     enc(c["tol"]), ms, "1" if c["unique"] else "0", "1" if c["exact"] else "0", c["missing"], mode, sq])
    return line, mode


# ------------------------------------------------------------------------------------------------
# IDW helpers (shared by the comparison with the model and by the oracle)
# ------------------------------------------------------------------------------------------------
def tie_alternatives(r, order, ms):
    """order: in-range stations sorted by radicand; returns the admissible choices of the first `ms`"""
    kept = order if ms is None else order[:ms]
    if ms is None or len(order) <= ms or not kept or r[order[ms]] != r[kept[-1]]:
        return [kept]
    cut = r[kept[-1]]
    fixed = [k for k in kept if r[k] < cut]
    G = [k for k in order if r[k] == cut]
    need = len(kept) - len(fixed)
    return [fixed + list(cmb) for cmb in itertools.islice(itertools.combinations(G, need), 60)]


def combo(src, ks, r):
    w = np.array([1.0 / math.sqrt(float(r[k])) for k in ks])
    w = w / w.sum()
    return sum(wk * src[:, k] for wk, k in zip(w, ks))


def arr_close(a, b):
    if a.shape != b.shape:
        return False
    if np.isnan(a).any() or np.isnan(b).any():
        return bool(np.isnan(a).all() and np.isnan(b).all())
    return bool(np.all(np.abs(a - b) <= 1e-9 * max(1.0, float(np.abs(b).max()))))


def idw_expect(c, res, gap, j, interpretive_ok=True):
    """Property text for query j under the longitude gap `gap`.
    Returns (verdict, text): verdict True/False, or None when the text leaves the case open."""
    r = radicands(gap, c["dl"], c["dla"], c["ql"][j], c["qla"][j])
    tol2 = c["tol"] ** 2
    inr = sorted([k for k in range(len(r)) if r[k] <= tol2], key=lambda k: (r[k], k))
    ms = DEFAULT_MAX_SITES if c["max_sites"] == "default" else c["max_sites"]
    got = res["efth"][:, j]
    src = res["src"]
    if ms is not None and ms < 1:
        return None, "max_sites<1"
    zeros = [k for k in inr if r[k] == 0]
    if zeros:
        ok = any(np.array_equal(got, src[:, k]) for k in zeros)
        return ok, f"station at distance 0 ({zeros}) must be returned exactly"
    if ms is not None and ms < 2:
        return None, "max_sites=1 without an exact match (text open: one station or missing)"
    if len(inr) < 2:
        return bool(np.isnan(got).all()), f"fewer than two stations in range ({inr}): must be missing"
    alts = tie_alternatives(r, inr, ms)
    ok = any(arr_close(got, combo(src, ks, r)) for ks in alts)
    return ok, f"convex 1/d combination of {alts[0]} (of in-range {inr})"


# ------------------------------------------------------------------------------------------------
# direct oracle (property text)
# ------------------------------------------------------------------------------------------------
def oracle_nearest(c, st, res, gap):
    """list of failure texts ([] = pass), or None if the text leaves the case open"""
    if c["missing"] not in ("raise", "ignore"):
        return None
    tol2 = c["tol"] ** 2
    exact = c["exact"] or c["method"] is None
    exp, err = [], None
    for qlon, qlat in zip(c["ql"], c["qla"]):
        r = radicands(gap, c["dl"], c["dla"], qlon, qlat)
        m = min(r)
        if m > tol2:
            if c["missing"] == "raise":
                err = "AssertionError"
                break
            continue
        if exact and m > 0:
            err = "AssertionError"
            break
        exp.append({k for k in range(len(r)) if r[k] == m})
    if err is None and not exp:
        err = "ValueError"
    if err is not None:
        return [] if (st == "err" and res == err) else [f"expected {err} (nearest station beyond tolerance / not exact), got {st}:{res if st == 'err' else 'result'}"]
    if st != "ok":
        return [f"unexpected {res}: every query has a station within tolerance"]
    ids = impl_ids(res)
    if ids is None:
        return ["returned spectra are not copies of dataset stations"]
    if not c["unique"]:
        if len(ids) != len(exp):
            return [f"{len(ids)} sites returned for {len(exp)} answerable queries"]
        bad = [j for j, (i, s) in enumerate(zip(ids, exp)) if i not in s]
        return [f"query {j}: station {ids[j]} returned, nearest (short way) is {sorted(exp[j])}" for j in bad[:2]]
    if any(len(s) > 1 for s in exp):
        return None
    seq = []
    for s in exp:
        k = next(iter(s))
        if k not in seq:
            seq.append(k)
    return [] if seq == ids else [f"unique: stations {ids}, expected {seq}"]


def oracle_idw(c, st, res, gap):
    if st != "ok":
        return [f"unexpected {res}"], 0
    fails, open_ = [], 0
    if res["efth"].shape[1] != len(c["ql"]):
        return [f"{res['efth'].shape[1]} sites for {len(c['ql'])} queries"], 0
    for j in range(len(c["ql"])):
        v, txt = idw_expect(c, res, gap, j)
        if v is None:
            open_ += 1
        elif not v:
            fails.append(f"query {j}: {txt}")
    return fails, open_


def box_of(c):
    lo, hi = min(c["ql"]) - c["tol"], max(c["ql"]) + c["tol"]
    la0, la1 = min(c["qla"]) - c["tol"], max(c["qla"]) + c["tol"]
    return lo, hi, la0, la1


def oracle_bbox(c, st, res):
    lo, hi, la0, la1 = box_of(c)
    E = [k for k, (x, y) in enumerate(zip(c["dl"], c["dla"]))
         if la0 <= y <= la1 and any(lo <= x + 360 * m <= hi for m in (-2, -1, 0, 1, 2))]
    if not E:
        return [] if (st == "err" and res == "ValueError") else [f"no station in the box: expected ValueError, got {st}:{res if st == 'err' else impl_ids(res)}"]
    if st != "ok":
        return [f"stations {E} are inside the box but {res} was raised"]
    ids = impl_ids(res)
    if ids is None:
        return ["returned spectra are not copies of dataset stations"]
    if sorted(ids) != E:
        return [f"stations {sorted(ids)} returned, inside the box [{lo},{hi}]x[{la0},{la1}] (mod 360) are {E}"]
    return []


def oracle_report(c, res):
    """reported longitudes are the station's / query's longitude in the convention of the query"""
    out = []
    q360, q180 = in360(c["ql"]), in180(c["ql"])
    if c["method"] == "idw":
        targets = list(c["ql"])
        lats = [float(x) for x in c["qla"]]
    else:
        ids = impl_ids(res)
        if ids is None:
            return out
        targets = [c["dl"][k] for k in ids]
        lats = [float(c["dla"][k]) for k in ids]
    if len(res["lon"]) != len(targets):
        return [f"{len(res['lon'])} longitudes for {len(targets)} sites"]
    for j, (rv, t) in enumerate(zip(res["lon"], targets)):
        rv = fr(rv)
        if (rv - t) % 360 != 0:
            out.append(f"site {j}: reported lon {float(rv)} is not the longitude {float(t)} (mod 360)")
        elif not ((q360 and 0 <= rv <= 360) or (q180 and -180 <= rv <= 180)):
            out.append(f"site {j}: reported lon {float(rv)} not in the convention of the query {[float(x) for x in c['ql']]}")
    if [float(x) for x in res["lat"]] != lats:
        out.append(f"reported lat {res['lat']} != {lats}")
    return out[:2]


# ------------------------------------------------------------------------------------------------
# trigger predicates (DESIGN Appendix D) — functions of the INPUT only (+ re-run of the oracle with the coded gap)
# ------------------------------------------------------------------------------------------------
def pair_straddles_greenwich(c):
    return any(gap_coded(a, q) != gap_short(a, q) for a in c["dl"] for q in c["ql"])


def trig_dist(c, st, res, oracle_fn):
    """the failure is of the recorded kind iff a station/query pair straddles Greenwich AND the same text with the
    residue difference instead of the short-way gap is satisfied"""
    if not pair_straddles_greenwich(c):
        return None
    r = oracle_fn(c, st, res, gap_coded)
    r = r[0] if isinstance(r, tuple) else r
    return "pair_straddles_greenwich" if r == [] else None


def trig_bbox(c):
    dl, ql, tol = c["dl"], c["ql"], c["tol"]
    d360 = min(dl) >= 0 and max(dl) <= 360
    q360 = min(ql) >= 0 and max(ql) <= 360
    lo, hi = min(ql) - tol, max(ql) + tol
    if d360 and not q360:                       # wrapped branch of sel_bbox
        if max(ql) < 0:
            return "bbox_inconsistent_conventions_not_straddling"
        if tol != 0:
            return "bbox_wrapped_with_tolerance"
        if len({x for x in ql if x < 0}) > 1 or len({x for x in ql if x >= 0}) > 1:
            return "bbox_wrapped_inner_extent"
        return None
    eff = (lo, hi)
    if (not d360) and q360:
        east = [x for x in ql if x > 180]
        if east and len(east) < len(ql):
            return "bbox_360_query_spans_antimeridian_on_180_dataset"
        if east:
            eff = (lo - 360, hi - 360)
    inside = (eff[0] >= 0 and eff[1] < 360) if d360 else (eff[0] > -180 and eff[1] <= 180)
    return None if inside else "bbox_box_crosses_dataset_seam"


# ------------------------------------------------------------------------------------------------
# evaluation of one case
# ------------------------------------------------------------------------------------------------
def in_scope(c):
    """the property's domain: dataset and query each within one longitude convention, valid method, tol ≥ 0"""
    return (c["method"] in ("nearest", "idw", "bbox", None) and len(c["ql"]) == len(c["qla"]) and c["ql"] and c["dl"]
            and (in360(c["dl"]) or in180(c["dl"])) and (in360(c["ql"]) or in180(c["ql"])) and c["tol"] >= 0)


def op_name(c):
    """method=None is sel_nearest(exact=True)"""
    return "sel:nearest" if c["method"] is None else f"sel:{c['method']}"


def compare_model(ck, c, st, res, resp, mode):
    """model vs implementation; returns model parse"""
    cj = case_json(c)
    op = op_name(c)
    mst, mo = parse_resp(resp)
    if resp.startswith("err proto") or resp.startswith("err oracle") or resp.startswith("err trailing"):
        ck.disagree(op, f"model protocol error: {resp}", cj)
        return None
    if mst != "ok":
        if not (st == "err" and res == mo):
            ck.disagree(op, f"model {resp!r} but implementation {st}:{res if st == 'err' else 'result'}", cj)
        return None
    if st != "ok":
        ck.disagree(op, f"implementation raised {res} but model {resp[:200]!r}", cj)
        return None
    if res["mutated"]:
        ck.disagree(op, "the dataset passed to sel was modified", cj)
    if res.get("repeat"):
        ck.fail(op, f"query given as ndarray: {res['repeat'].strip(' /')}", cj, "query_array_reuse")
    if c["method"] == "idw":
        cnt, ids, w = mo["cnt"], mo["ids"], mo["w"]
        if res["efth"].shape[1] != len(cnt):
            ck.disagree(op, f"{res['efth'].shape[1]} output sites, model {len(cnt)}", cj)
            return mo
        gap = gap_short if FIXED["dist"] else gap_coded
        p = 0
        for j, n in enumerate(cnt):
            ks, ws = ids[p:p + n], w[p:p + n]
            p += n
            got = res["efth"][:, j]
            if n == 0:
                good = bool(np.isnan(got).all())
            else:
                good = arr_close(got, sum(float(wk) * res["src"][:, k] for wk, k in zip(ws, ks)))
                if not good:   # exact ties at the max_sites cut / among zero distances: any member of the tie group
                    r = radicands(gap, c["dl"], c["dla"], c["ql"][j], c["qla"][j])
                    tol2 = c["tol"] ** 2
                    inr = sorted([k for k in range(len(r)) if r[k] <= tol2], key=lambda k: (r[k], k))
                    if n == 1 and r[ks[0]] == 0:
                        good = any(np.array_equal(got, res["src"][:, k]) for k in inr if r[k] == 0)
                    else:
                        ms = DEFAULT_MAX_SITES if c["max_sites"] == "default" else c["max_sites"]
                        if ms is None or ms >= 0:
                            alts = tie_alternatives(r, inr, ms)
                            if len(alts) > 1:
                                ck.count("idw_tie_at_cut")
                                good = any(arr_close(got, combo(res["src"], a, r)) for a in alts)
            if not good:
                ck.disagree(op, f"query {j}: implementation differs from the model's combination ids={ks} w={[float(x) for x in ws]}", cj)
        mlon = [float(x) for x in mo["lons"]]
        if not np.allclose(res["lon"], mlon, rtol=0, atol=1e-9) or len(mlon) != len(res["lon"]):
            ck.disagree(op, f"reported lon {res['lon']} model {mlon}", cj)
        return mo
    ids = impl_ids(res)
    if ids is None or ids != mo["ids"]:
        ck.disagree(op, f"stations {ids} model {mo['ids']}", cj)
        return mo
    mlon = [float(x) for x in mo["lons"]]
    if len(mlon) != len(res["lon"]) or not np.allclose(res["lon"], mlon, rtol=0, atol=1e-9):
        ck.disagree(op, f"reported lon {res['lon']} model {mlon}", cj)
    if res["lat"] != [float(c["dla"][k]) for k in ids]:
        ck.disagree(op, f"reported lat {res['lat']}", cj)
    return mo


def run_oracle(ck, c, st, res):
    cj = case_json(c)
    m = c["method"]
    op = op_name(c)
    if m in ("nearest", None):
        r = oracle_nearest(c, st, res, gap_short)
        if r is None:
            ck.count("oracle_open:nearest")
        else:
            for t in r:
                ck.fail(op, t, cj, trigger=trig_dist(c, st, res, oracle_nearest))
            ck.count("oracle_fail:nearest" if r else "oracle_pass:nearest")
    elif m == "idw":
        r, open_ = oracle_idw(c, st, res, gap_short)
        if open_:
            ck.count("oracle_open:idw_queries", open_)
        for t in r:
            ck.fail(op, t, cj, trigger=trig_dist(c, st, res, oracle_idw))
        ck.count("oracle_fail:idw" if r else "oracle_pass:idw")
    elif m == "bbox":
        r = oracle_bbox(c, st, res)
        for t in r:
            ck.fail(op, t, cj, trigger=trig_bbox(c))
        ck.count("oracle_fail:bbox" if r else "oracle_pass:bbox")
    if st == "ok":
        for t in oracle_report(c, res):
            ck.fail(op + ":report", t, cj, trigger=None)


def signature(c, st, res, mode):
    def side(xs):
        return ("neg" if any(x < 0 for x in xs) else "") + ("hi" if any(x > 180 for x in xs) else "")
    out = res if st == "err" else ("ok%d" % min(res["efth"].shape[1], 3))
    return (str(c["method"]), side(c["dl"]), side(c["ql"]), min(len(c["dl"]), 4), min(len(c["ql"]), 3), pair_straddles_greenwich(c) if c["ql"] and c["dl"] else False,
            c["tol"] == 0, str(c["max_sites"]) if c["method"] == "idw" else "", c["unique"], c["missing"], c["pre"], mode, out)


def run_check():
    ck = Check("C14")
    ck.extra["rule"] = ("case = one call of Dataset.spec.sel; signature = (method, sign/range classes of dataset and query "
                        "longitudes, #stations class, #queries class, a station/query pair straddles Greenwich, tol=0, max_sites, "
                        "unique, missing, precomputed dset_lons, sqrt mode, outcome class); non-trivial = in the property's domain "
                        "with at least two stations")
    ck.do_audit()
    import_ws()
    import xarray as xr

    rng = ck.rng
    cases = []
    replay = os.environ.get("VERIF_REPLAY")
    if replay:
        data = json.loads(open(replay).read())
        for f in data.get("failures", []) + data.get("disagreements", []):
            if isinstance(f.get("case"), dict) and "dl" in f["case"]:
                cases.append(case_from_json(f["case"]))
        ck.extra["replayed"] = len(cases)
    else:
        cases += witnesses()
        ngroups = 150 if ck.tier == "quick" else 2600
        nbox = 60 if ck.tier == "quick" else 900
        gid = 0
        for _ in range(ngroups):
            cases += gen_group(rng, gid)
            gid += 1
        for _ in range(nbox):
            cases += gen_bbox_case(rng, gid)
            gid += 1
    # implementation
    impl = [run_impl(xr, c) for c in cases]
    reqs = [model_request(c) for c in cases]
    resps = run_driver([r[0] for r in reqs])
    groups = {}
    for c, (st, res), (line, mode), resp in zip(cases, impl, reqs, resps):
        if st == "skip":
            ck.count("skipped")
            continue
        ck.count(f"method:{c['method']}")
        ck.count(f"sqrt:{mode}")
        ck.count(f"impl:{res if st == 'err' else 'ok'}")
        compare_model(ck, c, st, res, resp, mode)
        scope = in_scope(c)
        if scope:
            nf0 = len(ck.oracle_failures)
            run_oracle(ck, c, st, res)
            if c.get("group") is not None and c["method"] != "idw":
                ids = impl_ids(res) if st == "ok" else None
                groups.setdefault(c["group"], []).append((c, res if st == "err" else (tuple(sorted(ids)) if ids is not None else None),
                                                          len(ck.oracle_failures) > nf0))
        else:
            ck.count("out_of_scope")
        ck.case(signature(c, st, res, mode), bool(scope and len(c["dl"]) >= 2),
                sample=dict(case=case_json(c), impl=(res if st == "err" else dict(lon=res["lon"], stations=impl_ids(res))), model=resp[:160]))
    # convention independence, stated directly: the variants of one geometry that satisfy the text select the same stations
    ncmp = 0
    for gid, members in groups.items():
        clean = [(c, out) for c, out, failed in members if not failed]
        if len(clean) >= 2:
            ncmp += 1
            if len({out for _, out in clean}) > 1 and not any(c["unique"] for c, _ in clean):
                ck.fail(op_name(clean[0][0]) + ":convention", "variants of one geometry select different stations: "
                        + str([(c["tag"], out) for c, out in clean]), case_json(clean[0][0]), trigger=None)
    ck.extra["convention_groups_compared"] = ncmp
    ck.assumptions = ["exact-arithmetic model; every coordinate/tolerance is a multiple of 1/8 so the implementation's float "
                      "arithmetic before sqrt is exact; sqrt supplied to the model by the harness (exact rational, or the "
                      "correctly rounded double in `approx` mode, verified by the driver)",
                      "np.argsort ties: equidistant stations at the max_sites cut are accepted in any order",
                      "idw with max_sites<2 and no exact match, nearest with an undocumented `missing` value: property text open, counted not judged",
                      "stations are never stored as 360 or −180 (non-canonical representatives of the seam)"]
    return ck.finish()


if __name__ == "__main__":
    from ..common import main_wrapper

    main_wrapper(run_check)

"""C17 — no operation modifies the data it is given (frame condition; DESIGN §3 C17)."""
import copy
import os
import shutil

import numpy as np

from .. import gen
from ..common import BUILD, Check, case_rng, import_ws, pmap, run_driver


# ------------------------------------------------------------------------------------------------
# deep snapshots
# ------------------------------------------------------------------------------------------------
def snap(x):
    """Canonical deep snapshot of an argument object (values bit-for-bit, coords, attrs, encodings, dims, chunks, flags)."""
    import xarray as xr

    if isinstance(x, xr.Dataset):
        return ("Dataset", tuple(x.dims), {k: snap(v) for k, v in x.variables.items()}, sorted(x.data_vars), sorted(x.coords),
                snap(dict(x.attrs)), snap(dict(x.encoding)))
    if isinstance(x, xr.DataArray):
        return ("DataArray", str(x.name), snap(x.variable), {k: snap(v.variable) for k, v in x.coords.items()})
    if isinstance(x, xr.Variable):
        data = x.data
        chunks = getattr(data, "chunks", None)
        arr = np.asarray(x.values)
        return ("Variable", tuple(x.dims), str(arr.dtype), arr.shape, arr.tobytes(), snap(dict(x.attrs)), snap(dict(x.encoding)),
                chunks, None if chunks is not None else bool(getattr(x._data, "flags", arr.flags).writeable if hasattr(x._data, "flags") else True))
    if isinstance(x, np.ndarray):
        return ("ndarray", str(x.dtype), x.shape, x.tobytes(), x.strides, bool(x.flags.writeable))
    if isinstance(x, dict):
        return ("dict", tuple((repr(k), snap(v)) for k, v in x.items()))
    if isinstance(x, (list, tuple)):
        return (type(x).__name__, tuple(snap(v) for v in x))
    if isinstance(x, (np.generic,)):
        return ("scalar", repr(x))
    return ("obj", repr(x))


def diff_snap(a, b, path=""):
    if type(a) != type(b):
        return path + ": type"
    if isinstance(a, tuple):
        if len(a) != len(b):
            return path + ": length"
        for i, (x, y) in enumerate(zip(a, b)):
            d = diff_snap(x, y, f"{path}/{a[0] if i and isinstance(a[0], str) else ''}{i}")
            if d:
                return d
        return None
    if isinstance(a, dict):
        if a.keys() != b.keys():
            return path + f": keys {sorted(set(a) ^ set(b))}"
        for k in a:
            d = diff_snap(a[k], b[k], f"{path}/{k}")
            if d:
                return d
        return None
    return None if a == b else path + ": value"


# ------------------------------------------------------------------------------------------------
# objects
# ------------------------------------------------------------------------------------------------
def make_world(rng, backing):
    """A station dataset (time, site, freq, dir) with lon/lat/wspd/wdir/dpt, whose arrays are views of caller buffers."""
    import xarray as xr

    nt, ns = rng.randint(2, 3), rng.randint(2, 4)
    nf, nd = rng.choice([6, 8, 10]), rng.choice([8, 12])
    freq, _ = gen.gen_freq(rng, nf, kind="log")
    dirs, _ = gen.gen_dirs(rng, nd, order=rng.choice(["sorted", "rotated"]))
    base = np.zeros((nt, ns, nf + 2, nd))  # caller-owned buffer; efth is a view of it
    for t in range(nt):
        for s in range(ns):
            base[t, s, 1:-1] = gen.gen_spectrum(rng, nf, nd, kind=rng.choice(["blobs", "noisy"]))[0] + 0.03125
    efth = base[:, :, 1:-1, :]
    times = np.array(["2022-03-01T00:00:00"], dtype="datetime64[s]").astype("datetime64[ns]") + np.arange(nt) * np.timedelta64(3, "h")
    ds = xr.Dataset(
        {"efth": (("time", "site", "freq", "dir"), efth),
         "wspd": (("time", "site"), np.array([[rng.uniform(3, 15) for _ in range(ns)] for _ in range(nt)])),
         "wdir": (("time", "site"), np.array([[rng.uniform(0, 360) for _ in range(ns)] for _ in range(nt)])),
         "dpt": (("time", "site"), np.array([[rng.uniform(10, 200) for _ in range(ns)] for _ in range(nt)])),
         "lon": (("site",), np.array([rng.choice([359.0, 0.5, 10.0, 179.5, 181.0, 200.0]) + 0.01 * i for i in range(ns)])),
         "lat": (("site",), np.array([-30.0 + 1.5 * i for i in range(ns)]))},
        coords={"time": times, "site": np.arange(1, ns + 1), "freq": freq, "dir": dirs},
        attrs={"title": "caller dataset", "history": "a; b"},
    )
    ds.efth.attrs = {"units": "m2/Hz/deg", "note": "caller attr"}
    ds.efth.encoding = {"dtype": "float32", "_FillValue": -1.0}
    # what a dataset opened from a chunked netCDF4 / zarr store carries on its coordinates
    ds.time.encoding = {"units": "hours since 2000-01-01", "calendar": "proleptic_gregorian", "chunksizes": (1,), "original_shape": (nt,),
                        "preferred_chunks": {"time": 1}}
    ds.freq.encoding = {"chunksizes": (len(freq),), "original_shape": (len(freq),), "preferred_chunks": {"freq": len(freq)}, "dtype": "float32"}
    ds.dir.encoding = {"chunksizes": (len(dirs),), "original_shape": (len(dirs),), "preferred_chunks": {"dir": len(dirs)}}
    ds.freq.attrs = {"units": "Hz"}
    if backing == "dask":
        ds = ds.chunk({"time": 1, "site": 1})
    elif backing == "readonly":
        for v in ds.variables.values():
            try:
                v.values.flags.writeable = False
            except Exception:
                pass
        base.flags.writeable = False
    return ds, base


def ops_table(ws):
    """name -> f(ds, rng) returning (callable, extra argument objects to snapshot)."""
    import xarray as xr
    from wavespectra.core import utils, npstats
    from wavespectra.construct import frequency, direction, construct_partition
    from wavespectra.partition import partition as P
    from wavespectra.input.ww3 import from_ww3
    from wavespectra.input.ncswan import from_ncswan
    from wavespectra.input.dataset import read_dataset

    T = {}
    simple = ["hs", "hrms", "hmax", "tp", "fp", "tm01", "tm02", "dm", "dp", "dpm", "dspr", "dpspr", "swe", "sw", "gw", "goda",
              "alpha", "gamma", "oned", "to_energy", "uss", "uss_x", "uss_y", "mss", "celerity", "wavelen", "crsd"]
    for nm in simple:
        T["da." + nm] = (lambda nm: lambda ds, rng: ((lambda: getattr(ds.efth.spec, nm)()), []))(nm)
        T["ds." + nm] = (lambda nm: lambda ds, rng: ((lambda: getattr(ds.spec, nm)()), []))(nm)
    T["da.momf"] = lambda ds, rng: ((lambda: ds.efth.spec.momf(2)), [])
    T["da.momd"] = lambda ds, rng: ((lambda: ds.efth.spec.momd(1)), [])

    def stats_list(ds, rng):
        names = ["hs", "tp", "dpm"]
        return (lambda: ds.spec.stats(names)), [names]

    def stats_dict(ds, rng):
        kw = {"hs": {"tail": False}, "tp": {"smooth": False}}
        ren = ["a", "b"]
        return (lambda: ds.efth.spec.stats(kw, names=ren, fmin=float(ds.freq[1]), fmax=float(ds.freq[-2]))), [kw, ren]

    T["ds.stats(list)"] = stats_list
    T["da.stats(dict)"] = stats_dict
    T["da.split"] = lambda ds, rng: ((lambda: ds.efth.spec.split(fmin=float(ds.freq[1]) * 1.01, fmax=float(ds.freq[-2]), dmin=10, dmax=200)), [])
    T["da.smooth"] = lambda ds, rng: ((lambda: ds.efth.spec.smooth(3, 3)), [])
    T["ds.smooth"] = lambda ds, rng: ((lambda: ds.spec.smooth(3, 5)), [])

    def interp(ds, rng):
        f = np.linspace(float(ds.freq[0]) * 0.8, float(ds.freq[-1]) * 1.1, 7)
        d = np.arange(0.0, 360.0, 40.0)
        return (lambda: ds.efth.spec.interp(freq=f, dir=d)), [f, d]

    def interp_lists(ds, rng):
        f = [float(x) for x in ds.freq.values[::2]]
        d = [0.0, 90.0, 180.0, 270.0]
        return (lambda: utils.regrid_spec(ds, freq=f, dir=d)), [f, d]

    def interp_like(ds, rng):
        other = ds.isel(freq=slice(0, None, 2), dir=slice(0, None, 2)).copy(deep=True)
        return (lambda: ds.spec.interp_like(other)), [other]

    def interp_coord_arrays(ds, rng):
        # the new basis handed over as bare coordinate DataArrays WITHOUT attributes (the source coordinates have some)
        f = xr.DataArray(np.asarray(ds.freq.values[::2], dtype=float), dims="freq", name="freq")
        f = f.assign_coords(freq=f.values)
        d = xr.DataArray(np.arange(0.0, 360.0, 45.0), dims="dir", name="dir")
        d = d.assign_coords(dir=d.values)
        which = rng.choice(["freq", "dir", "both"])
        kw = dict(freq=f.freq) if which == "freq" else dict(dir=d.dir) if which == "dir" else dict(freq=f.freq, dir=d.dir)
        return (lambda: ds.efth.spec.interp(**kw)), [f, d, kw]

    def interp_like_bare(ds, rng):
        other = xr.DataArray(np.ones((3, 4)), dims=("freq", "dir"), coords={"freq": np.asarray(ds.freq.values[:3], dtype=float) * 1.01,
                                                                          "dir": np.array([0.0, 90.0, 180.0, 270.0])}, name="efth")
        return (lambda: ds.spec.interp_like(other)), [other]

    def ncswan_already_named(ds, rng):
        # a SWAN-netCDF dataset whose variables and dimensions already carry the wavespectra names (nothing to rename)
        import random as _r

        from . import c12
        from wavespectra.input import ncswan as m_ncswan

        nat, _ = c12.build_ncswan(_r.Random(rng.getrandbits(32)), False)
        ren = {k: v for k, v in m_ncswan.MAPPING.items() if k != v and (k in nat.variables or k in nat.dims)}
        d2 = nat.rename(ren).copy(deep=True)
        return (lambda: m_ncswan.from_ncswan(d2)), [d2]

    T["from_ncswan(already wavespectra names)"] = ncswan_already_named

    def stat_bare_coords(ds, rng):
        # station spectra built by hand: lon/lat as coordinates along site WITHOUT attributes, a scalar time left by isel
        da = ds.efth.isel(time=0).copy(deep=True)
        da = da.assign_coords(lon=("site", np.asarray(ds.lon.values, dtype=float).copy()), lat=("site", np.asarray(ds.lat.values, dtype=float).copy()))
        for c in ("lon", "lat", "time", "site"):
            da[c].attrs = {}
        name = rng.choice(["hs", "tp", "tm01", "oned", "stats"])
        f = (lambda: da.spec.stats(["hs", "tp"])) if name == "stats" else (lambda: getattr(da.spec, name)())
        return f, [da]

    T["da.stat(coordinates without attrs)"] = stat_bare_coords
    T["da.interp(coordinate arrays)"] = interp_coord_arrays
    T["ds.interp_like(bare)"] = interp_like_bare
    T["da.interp"] = interp
    T["regrid_spec(lists)"] = interp_lists
    T["ds.interp_like"] = interp_like
    T["da.rotate"] = lambda ds, rng: ((lambda: ds.efth.spec.rotate(33.0)), [])
    T["da.scale_by_hs"] = lambda ds, rng: ((lambda: ds.efth.spec.scale_by_hs("0.5*hs", hs_min=0.1, tp_min=1.0)), [])
    T["scaled"] = lambda ds, rng: ((lambda: utils.scaled(ds.efth, 2.0)), [])
    T["smooth_spec"] = lambda ds, rng: ((lambda: utils.smooth_spec(ds, 3, 3)), [])
    for m, kw in (("ptm1", dict(swells=2)), ("ptm2", dict(swells=2)), ("ptm3", dict(parts=3))):
        def part(ds, rng, m=m, kw=kw):
            args = [] if m == "ptm3" else [ds.wspd, ds.wdir, ds.dpt]
            kws = dict(kw, smooth=rng.random() < 0.3)
            return (lambda: getattr(ds.efth.spec.partition, m)(*args, **kws).compute()), [kws]
        T["partition." + m] = part
    T["partition.ptm4"] = lambda ds, rng: ((lambda: ds.spec.partition.ptm4(ds.wspd, ds.wdir, ds.dpt).compute()), [])
    T["partition.ptm5"] = lambda ds, rng: ((lambda: ds.efth.spec.partition.ptm5(float(ds.freq[2]) * 1.03).compute()), [])

    def bbox(ds, rng):
        bb = [dict(fmin=float(ds.freq[0]), fmax=float(ds.freq[2]), dmin=0.0, dmax=180.0),
              dict(fmin=float(ds.freq[3]), fmax=float(ds.freq[-1]), dmin=0.0, dmax=359.0)]
        return (lambda: ds.efth.spec.partition.bbox(bb).compute()), [bb]

    T["partition.bbox"] = bbox

    def bbox_omitted(ds, rng):
        # limits may be omitted (documented): the caller's dicts must not receive the defaults
        bb = [dict(fmax=float(ds.freq[2]), dmax=180.0), dict(fmin=float(ds.freq[3]))]
        return (lambda: ds.efth.spec.partition.bbox(bb).compute()), [bb]

    T["partition.bbox(omitted limits)"] = bbox_omitted
    T["partition.ptm1_track"] = lambda ds, rng: ((lambda: ds.efth.spec.partition.ptm1_track(ds.wspd, ds.wdir, ds.dpt, swells=2).compute()), [])

    def np_ptm(ds, rng):
        spec = np.array(ds.efth.isel(time=0, site=0).values)
        f = np.array(ds.freq.values)
        d = np.array(ds.dir.values)
        return (lambda: P.np_ptm1(spec, spec, f, d, 10.0, 45.0, 50.0, swells=2)), [spec, f, d]

    T["np_ptm1"] = np_ptm

    def np_hs(ds, rng):
        spec = np.array(ds.efth.isel(time=0, site=0).values)
        f = np.array(ds.freq.values)
        d = np.array(ds.dir.values)
        return (lambda: (npstats.hs(spec, f, d), npstats.dm(spec, d), npstats.mom1(spec, d))), [spec, f, d]

    T["npstats"] = np_hs
    for meth in ("nearest", "idw", None):
        def sel_nd(ds, rng, meth=meth):
            # query given as float64 ndarrays (views of a caller buffer) in the OTHER longitude convention than the dataset
            d180 = ds.assign(lon=((ds.lon + 180) % 360) - 180)
            buf = np.zeros(8)
            buf[:2] = [(float(d180.lon[0]) % 360) + 0.05, (float(d180.lon[-1]) % 360) - 0.05]
            if meth is None:
                buf[:2] = [float(d180.lon[0]) % 360, float(d180.lon[-1]) % 360]
            if not (buf[:2] > 180).any():
                buf[0] = 181.0 if meth != None else buf[0]
            lons = buf[:2]
            lats = np.array([float(d180.lat[0]), float(d180.lat[-1])])
            kw = dict(method=meth, tolerance=400.0)
            return (lambda: d180.spec.sel(lons, lats, **kw).compute()), [d180, buf, lons, lats, kw]
        T[f"sel_ndarray({meth})"] = sel_nd
    def sel_bbox_other(ds, rng):
        # stations stored in [0, 360] beyond the 180 meridian, adjacent in the site index; box given in [-180, 180]
        ns = ds.sizes["site"]
        lon360 = np.array([185.0 + 5.0 * k for k in range(ns)])
        d360 = ds.assign(lon=("site", lon360), lat=("site", np.array([10.0 + k for k in range(ns)])))
        lons = np.array([-176.0, float(lon360[-1]) - 360.0 + 1.0])
        lats = np.array([9.0, 10.0 + ns])
        kw = dict(method="bbox", tolerance=0.5)
        return (lambda: d360.spec.sel(lons, lats, **kw).compute()), [d360, lons, lats, kw]

    T["sel_bbox(other convention)"] = sel_bbox_other
    for meth in ("nearest", "idw", "bbox", None):
        def sel(ds, rng, meth=meth):
            lons = [float(ds.lon[0]) + 0.1, float(ds.lon[-1]) - 0.1]
            lats = [float(ds.lat[0]), float(ds.lat[-1])]
            if meth is None:
                lons, lats = [float(ds.lon[0])], [float(ds.lat[0])]
            kw = dict(method=meth, tolerance=5.0)
            pre = rng.random() < 0.4
            dl, dla = (np.array(ds.lon.values), np.array(ds.lat.values)) if pre else (None, None)
            return (lambda: ds.spec.sel(lons, lats, dset_lons=dl, dset_lats=dla, **kw).compute()), [lons, lats, kw, dl, dla]
        T[f"sel({meth})"] = sel

    def jonswap(ds, rng):
        hs = xr.DataArray([1.0, 2.0], dims="site")
        fp = xr.DataArray([0.1, 0.12], dims="site")
        return (lambda: frequency.jonswap(freq=ds.freq, fp=fp, hs=hs, gamma=2.0)), [hs, fp]

    def cartw(ds, rng):
        dm = xr.DataArray([10.0, 350.0], dims="site")
        return (lambda: direction.cartwright(dir=ds.dir, dm=dm, dspr=25.0)), [dm]

    def cpart(ds, rng):
        fk = {"freq": ds.freq, "fp": 0.1, "hs": 2.0}
        dk = {"dir": ds.dir, "dm": 350.0, "dspr": 20.0}
        return (lambda: construct_partition("jonswap", "cartwright", fk, dk)), [fk, dk]

    T["construct.jonswap"] = jonswap
    T["construct.cartwright"] = cartw
    T["construct_partition"] = cpart

    def native_ww3(ds, rng):
        nat = xr.Dataset({"efth": (("time", "station", "frequency", "direction"), np.array(ds.efth.values)),
                          "longitude": (("time", "station"), np.tile(ds.lon.values, (ds.sizes["time"], 1))),
                          "latitude": (("time", "station"), np.tile(ds.lat.values, (ds.sizes["time"], 1))),
                          "wnd": (("time", "station"), np.array(ds.wspd.values)),
                          "wnddir": (("time", "station"), np.array(ds.wdir.values)),
                          "dpt": (("time", "station"), np.array(ds.dpt.values))},
                         coords={"time": ds.time.values, "station": np.arange(ds.sizes["site"]), "frequency": ds.freq.values,
                                 "direction": ds.dir.values}, attrs={"src": "native"})
        nat.efth.attrs = {"units": "m2 s rad-1"}
        fn = rng.choice([from_ww3, read_dataset])
        return (lambda: fn(nat)), [nat]

    def native_ncswan(ds, rng):
        nat = xr.Dataset({"density": (("time", "points", "frequency", "direction"), np.array(ds.efth.values)),
                          "longitude": (("points",), np.array(ds.lon.values)), "latitude": (("points",), np.array(ds.lat.values)),
                          "xwnd": (("time", "points"), np.array(ds.wspd.values)), "ywnd": (("time", "points"), np.array(ds.wspd.values) * 0.5),
                          "depth": (("time", "points"), np.array(ds.dpt.values))},
                         coords={"time": ds.time.values, "frequency": ds.freq.values, "direction": np.radians(ds.dir.values)})
        fn = rng.choice([from_ncswan, read_dataset])
        return (lambda: fn(nat)), [nat]

    T["from_ww3"] = native_ww3
    T["from_ncswan"] = native_ncswan

    def native_wwm(named):
        def f(ds, rng):
            from wavespectra.input.wwm import from_wwm

            nf, nd = ds.sizes["freq"], ds.sizes["dir"]
            nat = xr.Dataset({"AC": (("ocean_time", "nbstation", "nfreq", "ndir"), np.array(ds.efth.values)),
                              "lon": (("nbstation",), np.array(ds.lon.values)), "lat": (("nbstation",), np.array(ds.lat.values)),
                              "DEP": (("ocean_time", "nbstation"), np.array(ds.dpt.values)),
                              "Uwind": (("ocean_time", "nbstation"), np.array(ds.wspd.values)),
                              "Vwind": (("ocean_time", "nbstation"), np.array(ds.wspd.values) * 0.25),
                              "SPSIG": (("nfreq",), 2 * np.pi * np.asarray(ds.freq.values, dtype=float)),
                              "SPDIR": (("ndir",), np.radians(np.asarray(ds.dir.values, dtype=float)))},
                             coords={"ocean_time": ds.time.values}, attrs={"src": "wwm"})
            if named:
                # the file was already renamed to the wavespectra names (the reader tolerates that: nothing is left to rename)
                from wavespectra.input import wwm as m_wwm

                ren = {k: v for k, v in m_wwm.MAPPING.items() if k != v and (k in nat.variables or k in nat.dims)}
                nat = nat.rename(ren).copy(deep=True)
            return (lambda: from_wwm(nat)), [nat]
        return f

    T["from_wwm"] = native_wwm(False)
    T["from_wwm(already wavespectra names)"] = native_wwm(True)

    def plot_kwargs(ds, rng):
        # keyword dictionaries handed to the plotting accessor (polar axes defaults are merged into a copy, not into the caller's)
        import matplotlib

        matplotlib.use("Agg")
        import matplotlib.pyplot as plt

        skw = {"facecolor": "w"}
        ckw = {"shrink": 0.5}
        da = ds.efth.isel(time=0, site=0)

        def call():
            try:
                return da.spec.plot(subplot_kws=skw, cbar_kwargs=ckw) and None
            finally:
                plt.close("all")
        return call, [skw, ckw, da]

    T["plot(subplot_kws, cbar_kwargs)"] = plot_kwargs
    T["read_dataset(wavespectra)"] = lambda ds, rng: ((lambda: read_dataset(ds)), [])
    tmp = BUILD / "tmp" / f"c17_{os.getpid()}"

    def writer(name, **kw):
        def f(ds, rng):
            tmp.mkdir(parents=True, exist_ok=True)
            path = str(tmp / f"out_{name}")
            d1 = ds if name not in ("to_octopus", "to_funwave") else ds.isel(site=[0])
            if name == "to_funwave":
                d1 = ds.isel(site=0, time=0)
            kw2 = dict(kw)
            if name == "to_octopus":
                kw2["fcut"] = float(ds.freq[2])
            return (lambda: getattr(d1.spec, name)(path, **kw2)), [d1, kw2]
        return f

    def writer_scalar_pos(name, **kw):
        # one site, lon/lat stored as scalar data variables (no site dimension): e.g. a single moored buoy
        def f(ds, rng):
            tmp.mkdir(parents=True, exist_ok=True)
            path = str(tmp / f"out1_{name}")
            d1 = ds.isel(site=[0]).drop_vars(["lon", "lat"])
            d1["lon"] = float(ds.lon[0])
            d1["lat"] = float(ds.lat[0])
            kw2 = dict(kw)
            if name == "to_octopus":
                kw2["fcut"] = float(ds.freq[2])
            return (lambda: getattr(d1.spec, name)(path, **kw2)), [d1, kw2]
        return f

    def writer_failing(name, **kw):
        def f(ds, rng):
            import tempfile

            missing = os.path.join(tempfile.gettempdir(), "c17_no_such_dir_%d" % rng.randrange(10 ** 9), "sub", "out.nc")

            def call():
                try:
                    getattr(ds.spec, name)(missing, **kw)
                except Exception:
                    return None   # the write fails (target directory does not exist / invalid format): the input must be as before
                return None
            return call, [kw]
        return f

    T["to_netcdf(failing: no such directory)"] = writer_failing("to_netcdf", ncformat="NETCDF3_64BIT", compress=False, packed=False)
    T["to_netcdf(failing: invalid format)"] = writer_failing("to_netcdf", ncformat="NETCDF9")
    T["to_swan(failing: no such directory)"] = writer_failing("to_swan")
    T["to_swan(scalar lon/lat)"] = writer_scalar_pos("to_swan")
    T["to_octopus(scalar lon/lat)"] = writer_scalar_pos("to_octopus")
    T["to_swan"] = writer("to_swan")
    T["to_swan(ntime)"] = writer("to_swan", ntime=1)
    T["to_octopus"] = writer("to_octopus", fcut=None)
    T["to_json"] = writer("to_json")
    T["to_funwave"] = writer("to_funwave", clip=False)
    T["to_netcdf"] = writer("to_netcdf", ncformat="NETCDF3_64BIT", compress=False, packed=False)
    T["to_ww3"] = writer("to_ww3", ncformat="NETCDF3_64BIT", compress=False)
    return T


def run_sequence(args):
    seed, icase, nops = args
    rng = case_rng("C17", seed, icase)
    ws = import_ws()
    backing = rng.choice(["numpy", "numpy", "dask", "readonly"])
    ds, base = make_world(rng, backing)
    T = ops_table(ws)
    names = sorted(T)
    out = []
    for k in range(nops):
        nm = rng.choice(names)
        try:
            call, extra = T[nm](ds, rng)
        except Exception as e:
            out.append(dict(op=nm, backing=backing, skipped=f"setup {type(e).__name__}: {e}"))
            continue
        objs = [ds, base] + list(extra)
        before = [snap(o) for o in objs]
        exc = None
        try:
            call()
        except Exception as e:
            exc = f"{type(e).__name__}: {str(e)[:200]}"
        after = [snap(o) for o in objs]
        changed = [(i, diff_snap(a, b)) for i, (a, b) in enumerate(zip(before, after)) if diff_snap(a, b)]
        out.append(dict(op=nm, backing=backing, exc=exc, k=k,
                        changed=[("dataset" if i == 0 else "base buffer" if i == 1 else f"argument {i - 2}", d) for i, d in changed]))
    shutil.rmtree(BUILD / "tmp" / f"c17_{os.getpid()}", ignore_errors=True)
    return dict(icase=icase, backing=backing, steps=out)


def run_check():
    ck = Check("C17", level="proof")
    ck.explanation = ("Lean (Model/FrameIR.lean, Props/C17frm.lean): 25 operations (the 22 anchored by C17 plus from_wwm, from_era5, from_ndbc) are translated from the current source "
                      "into an imperative IR (assign-with-sharing / store; objects with cells values, coords, attrs, encoding, dims, name, held); "
                      "the may-alias analysis `writes` is proved sound for all programs and all traces (frame_ir_general) and the write-set of "
                      "each regenerated program is decided: empty for 16 operations, an exact residual set for 9 (attribute setter, helper "
                      "objects' own dictionaries, the in-place longitude swap on its own argument, sel_* through isel views). Trusted: the "
                      "fresh/view/share tables of xarray/numpy methods, flow-insensitivity, summaries of untranslated calls. The residual "
                      "sets and everything dynamic are carried by the exploration: deep snapshots (values bit-for-bit, coords, attrs, "
                      "encodings, dims, chunks, flags) of every argument object and of the caller-owned base buffer before and after each "
                      "call, over random sequences of public operations on the same objects (numpy-backed views of caller buffers, read-only "
                      "buffers, dask-backed). Props/C17.lean keeps the frame theorem over the declared write-set table, now tied to the "
                      "regenerated sets by genfrm_table.")
    ck.extra["rule"] = ("operation sequences on one shared world; signature = (operation, backing, position-in-sequence class); non-trivial = the "
                        "operation ran (with or without raising) on a world with at least 2 times and 2 sites")
    ck.do_audit()
    import_ws()
    nseq, nops = (60, 6) if ck.tier == "quick" else (600, 12)
    from ..common import replay_ids

    res = pmap(run_sequence, [(ck.seed, i, nops) for i in replay_ids(ck, nseq)])
    # the model's frame prediction for the same op names (all write-sets empty after the repair)
    opnames = sorted({s["op"] for r in res for s in r["steps"]})
    resp = run_driver([f"frame {len(opnames)} " + " ".join(n.replace(" ", "_") for n in opnames)])[0]
    writes = dict(zip(opnames, resp.split()[1:])) if resp.startswith("ok") else {}
    if not writes:
        ck.disagree("frame", f"model response {resp[:200]}", {})
    nrun = 0
    excs = {}
    for r in res:
        for s in r["steps"]:
            if "skipped" in s:
                ck.count("skipped:" + s["op"])
                continue
            nrun += 1
            ck.case((s["op"], s["backing"], min(s["k"], 3)), True, sample=dict(op=s["op"], backing=s["backing"], exc=s["exc"]))
            if s["exc"]:
                excs[s["op"]] = s["exc"]
                ck.count("raised:" + s["op"])
                if "read-only" in s["exc"] or "readonly" in s["exc"]:
                    ck.fail(s["op"], f"attempted an in-place write to a caller-owned read-only array: {s['exc']}", dict(icase=r["icase"], step=s),
                            "inplace_write_attempt")
            if s["changed"]:
                ck.fail(s["op"], f"caller-owned data changed: {s['changed']}", dict(icase=r["icase"], step=s), "argument_modified")
            if writes.get(s["op"], "-") != "-":
                ck.disagree(s["op"], f"model declares write-set {writes[s['op']]}", dict(step=s))
    ck.extra["operations_run"] = nrun
    ck.extra["distinct_operations"] = len(opnames)
    ck.extra["operations_that_raised"] = excs
    ck.assumptions = ["file writers run against a scratch directory under .build/tmp; netCDF writers through scipy's netcdf3 engine",
                      "plot() is not exercised (matplotlib back end)"]
    return ck.finish()


if __name__ == "__main__":
    from ..common import main_wrapper

    main_wrapper(run_check)

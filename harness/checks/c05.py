"""C05 — results depend on labelled values, not on storage order or memory layout (DESIGN §3 C05)."""
import itertools

import numpy as np

from .. import gen, opcat
from ..common import Check, case_rng, import_ws, pmap

NO_REVERSE = opcat.WATERSHED  # the watershed's tie-breaking may depend on orientation (excluded by the property)


def variants(rng, da, aux):
    """(tag, variant DataArray) for the same labelled data."""
    import xarray as xr

    out = []
    dims = list(da.dims)
    perms = list(itertools.permutations(dims))
    rng.shuffle(perms)
    for p in perms[:2]:
        if list(p) != dims:
            out.append((f"transpose{list(p)}", da.transpose(*p)))
    out.append(("fortran", da.copy(data=np.asfortranarray(da.values))))
    big = np.zeros(tuple(2 * s for s in da.shape))
    big[tuple(slice(None, None, 2) for _ in da.shape)] = da.values
    out.append(("strided", da.copy(data=big[tuple(slice(None, None, 2) for _ in da.shape)])))
    neg = da.values[..., ::-1].copy()
    out.append(("negstride", da.copy(data=neg[..., ::-1])))
    out.append(("float32", da.astype("float32")))
    # narrow dtype AND non-contiguous memory together (a float32 block may be handed on without the copy a float64 one gets)
    f32 = da.astype("float32")
    big32 = np.zeros(tuple(2 * s for s in da.shape), dtype="float32")
    big32[tuple(slice(None, None, 2) for _ in da.shape)] = f32.values
    out.append(("float32_strided", f32.copy(data=big32[tuple(slice(None, None, 2) for _ in da.shape)])))
    out.append(("float32_negstride", f32.copy(data=f32.values[..., ::-1].copy()[..., ::-1])))
    out.append(("float32_fortran", f32.copy(data=np.asfortranarray(f32.values))))
    nd = da.sizes["dir"]
    ks = sorted(set([1, nd - 1, rng.randint(1, nd - 1)]))
    for k in ks:
        out.append((f"roll{k}", da.roll(dir=k, roll_coords=True)))
    out.append(("reversed", da.isel(dir=slice(None, None, -1))))
    # descending storage that starts somewhere else on the circle (orientation and rotation together)
    kk = rng.randint(1, nd - 1)
    out.append((f"reversed_roll{kk}", da.isel(dir=slice(None, None, -1)).roll(dir=kk, roll_coords=True)))
    shuf = list(range(nd))
    rng.shuffle(shuf)
    out.append(("dirshuffled->sortby", da.isel(dir=shuf).sortby("dir")))
    return out


def norm(op, can, da):
    """Canonical result with the comparisons the property leaves open removed: order of equal-Hs partitions, angles of
    (near-)zero moment vectors, tied peak directions; tiny Stokes-drift components are compared against the drift speed."""
    out = []
    lead = [d for d in da.dims if d not in ("freq", "dir")]
    for c in can:
        if op in opcat.PART_HEADS:
            c = opcat.sort_parts(c, opcat.PART_HEADS[op])
        nm = c["name"].split(":")[-1]
        if nm in ("dm", "dp", "dpm") and "freq" not in c["dims"]:
            c = opcat.mask_positions(c, lead, opcat.weak_angle_positions(nm, da))
        out.append(c)
    return out


def abs_tol(op, da):
    if op in ("uss_x", "uss_y"):
        return 1e-9 * float(da.spec.uss().max())
    if op in ("momd1", "crsd"):  # signed sums that cancel: compared against the size of their terms
        return 1e-9 * float(da.spec.oned().max())
    return 0.0


def basin_tie(da, smooth=False):
    """True when, at some position, two watershed basins have (near-)equal Hs: the rank of the two, and with it which of
    them survives the `swells`/`parts` truncation, is then decided by the scan order and the property leaves it open."""
    from wavespectra.core import npstats
    from wavespectra.partition.partition import np_ptm3

    lead = [d for d in da.dims if d not in ("freq", "dir")]
    x = da.transpose(*lead, "freq", "dir").sortby("dir")
    if smooth:
        xs = x.spec.smooth(3, 3).transpose(*lead, "freq", "dir")
    else:
        xs = x
    f, d = x.freq.values, x.dir.values
    E = np.asarray(x.values, dtype=float).reshape((-1, len(f), len(d)))
    Es = np.asarray(xs.values, dtype=float).reshape((-1, len(f), len(d)))
    for S, Ss in zip(E, Es):
        parts = np_ptm3(S, Ss, f, d, parts=None)
        hs = sorted(float(npstats.hs(np.asarray(q, dtype=float), f, d)) for q in parts)
        hs = [h for h in hs if h > 0]
        if any(b - a <= 2e-6 * max(b, 1e-300) for a, b in zip(hs, hs[1:])):
            return True
    return False


def make_case(args):
    seed, icase = args
    rng = case_rng("C05", seed, icase)
    import_ws()
    import xarray as xr
    from wavespectra.partition.partition import np_ptm3

    nextra = rng.choice([0, 1, 1, 2])
    names = rng.sample(["time", "site"], nextra)
    shape = [rng.randint(1, 3) for _ in names]
    nf, nd = rng.choice([5, 6, 8]), rng.choice([8, 12, 16, 24])
    freq, _ = gen.gen_freq(rng, nf, kind=rng.choice(["log", "irregular"]))
    freq = np.round(freq * 4096) / 4096
    if not np.all(np.diff(freq) > 0):
        return []
    dirs, _ = gen.gen_dirs(rng, nd, order="sorted")
    extra = []
    for nme, n in zip(names, shape):
        if nme == "time":
            vals = (np.array(["2020-01-01T00:00:00"], dtype="datetime64[s]") + np.arange(n) * np.timedelta64(3600, "s")).astype("datetime64[ns]")
        else:
            vals = np.arange(n, dtype=float)
        extra.append((nme, vals))
    npos = int(np.prod(shape)) if shape else 1
    E = np.array([gen.gen_spectrum(rng, nf, nd, kind=rng.choice(["blobs", "blobs", "noisy", "sparse", "plateau"]))[0]
                  for _ in range(npos)]).reshape(tuple(shape) + (nf, nd))
    da = gen.make_da(freq, dirs, E, extra=extra)
    lead = [d for d in da.dims if d not in ("freq", "dir")]

    def auxarr(lo, hi):
        return xr.DataArray(np.array([rng.uniform(lo, hi) for _ in range(npos)]).reshape(tuple(da.sizes[d] for d in lead)), dims=lead,
                            coords={d: da[d] for d in lead})

    aux = dict(wspd=auxarr(2, 20), wdir=auxarr(0, 360), dpt=auxarr(8, 300))
    C = opcat.catalogue(include_hp01=True)
    out = []
    vs = variants(rng, da, aux)
    colsum = np.asarray(da.sum("freq").transpose(..., "dir").values).reshape((-1, nd))
    srt = np.sort(colsum, axis=1)[:, ::-1]
    dp_tie = bool((srt[:, 0] - srt[:, 1] <= 1e-9 * np.maximum(srt[:, 0], 1e-300)).any())
    for op in rng.sample(sorted(C), 6) + (["hp01"] if icase % 2 == 0 else []):
        if op == "dp" and dp_tie:
            out.append(dict(op=op, variant="base", ambiguous="frequency-summed spectrum has tied maxima: any maximiser is a valid dp", icase=icase))
            continue
        try:
            ref = norm(op, opcat.canon(C[op](da, aux)), da)
            atol = abs_tol(op, da)
        except Exception as e:
            if op.startswith("hp01"):
                # experimental method (its docstring says so): raising on a degenerate spectrum is not a layout question
                out.append(dict(op=op, variant="base", ambiguous=f"experimental hp01 raised on the base storage: {type(e).__name__}", icase=icase))
                continue
            out.append(dict(op=op, variant="base", crash=f"{type(e).__name__}: {str(e)[:200]}", icase=icase))
            continue
        for tag, v in vs:
            if tag.startswith("reversed") and op in NO_REVERSE:
                continue
            rec = dict(op=op, variant=tag, icase=icase, dims=list(da.dims), nd=nd, nf=nf)
            f32 = tag.startswith("float32")
            try:
                got = norm(op, opcat.canon(C[op](v, aux)), da)
                rel = 2e-4 if f32 else (3e-6 if op in opcat.FLOAT32_OUT else 1e-9)
                if f32 and op in opcat.WATERSHED:
                    rel = 1e-5
                rec["diff"] = opcat.compare(got, ref, rel=rel, abs_=atol, coord_rel=1e-6 if f32 else 1e-12)
                if rec["diff"] and op in opcat.WATERSHED and (tag.startswith("roll") or tag.startswith("reversed")) and basin_tie(da, op == "ptm1_smooth"):
                    rec["ambiguous"] = "two basins of equal Hs: their rank (and which one is kept) depends on the scan order"
            except Exception as e:
                rec["crash"] = f"{type(e).__name__}: {str(e)[:200]}"
            out.append(rec)
        # sorting the directions before or after the operation gives the same labelled result
        if op not in ("rotate", "rotate_any") and op not in NO_REVERSE:
            shuf = list(range(nd))
            rng.shuffle(shuf)
            vsh = da.isel(dir=shuf)
            rec = dict(op=op, variant="shuffled_storage", icase=icase, dims=list(da.dims), nd=nd, nf=nf)
            try:
                got = norm(op, opcat.canon(C[op](vsh, aux)), da)
                rec["diff"] = opcat.compare(got, ref, rel=3e-6 if op in opcat.FLOAT32_OUT else 1e-9)
                if rec["diff"]:
                    rec["note"] = "arbitrary (non-monotone) stored direction order"
            except Exception as e:
                rec["crash"] = f"{type(e).__name__}: {str(e)[:200]}"
            rec["informational"] = True  # the property names rotations and reversal; arbitrary shuffles are reported, not failed
            out.append(rec)
    # sector grids (directions covering part of the circle) stored descending: statistics, smoothing and direction bands give the
    # same labelled result as for ascending storage
    if icase % 3 == 0:
        nds, dds = rng.choice([6, 8, 12]), rng.choice([10.0, 15.0])
        sd = rng.choice([0.0, 20.0, 185.0]) + dds * np.arange(nds)
        Esec = gen.gen_spectrum(rng, nf, nds, kind=rng.choice(["blobs", "noisy"]))[0] + 0.015625
        bsec = gen.make_da(freq, sd, Esec)
        S = {"smooth": lambda x: x.spec.smooth(3, 3), "smooth5": lambda x: x.spec.smooth(1, 5), "hs": lambda x: x.spec.hs(), "dm": lambda x: x.spec.dm(),
             "dspr": lambda x: x.spec.dspr(), "dpm": lambda x: x.spec.dpm(), "oned": lambda x: x.spec.oned(),
             "split_dir": lambda x: x.spec.split(dmin=float(sd[1]), dmax=float(sd[-2])),
             "stats_dir": lambda x: x.spec.stats(["hs", "dm"], dmin=float(sd[1]), dmax=float(sd[-2]))}
        for vtag, v in (("sector_reversed", bsec.isel(dir=slice(None, None, -1))), ("sector_reversed_T", bsec.isel(dir=slice(None, None, -1)).transpose("dir", "freq"))):
            for opn, f in S.items():
                rec = dict(op="sector:" + opn, variant=vtag, icase=icase, dims=list(v.dims), nd=nds, nf=nf)
                try:
                    rec["diff"] = opcat.compare(opcat.canon(f(v)), opcat.canon(f(bsec)), rel=3e-6 if opn in ("dpm",) else 1e-9)
                except Exception as e:
                    rec["crash"] = f"{type(e).__name__}: {str(e)[:200]}"
                out.append(rec)
    # numpy-level kernels with non C-contiguous arrays
    S = np.asarray(da.values.reshape((-1, nf, nd))[0], dtype=float)
    try:
        ref = np_ptm3(S, S, freq, dirs, parts=3)
        for tag, arr in (("fortran", np.asfortranarray(S)), ("strided", np.repeat(S, 2, axis=1)[:, ::2]), ("transposed_view", S.T.copy().T)):
            got = np_ptm3(arr, arr, freq, dirs, parts=3)
            out.append(dict(op="np_ptm3", variant=tag, icase=icase, dims=["freq", "dir"], nd=nd, nf=nf,
                            diff=None if np.array_equal(np.asarray(got), np.asarray(ref)) else "partitions differ from the C-contiguous call",
                            contiguous=bool(arr.flags["C_CONTIGUOUS"])))
    except Exception as e:
        out.append(dict(op="np_ptm3", variant="layout", crash=f"{type(e).__name__}: {str(e)[:200]}", icase=icase))
    # the legacy numpy regridder (2-D branch: new directions) on Fortran-ordered / transposed-view / strided spectra
    try:
        from wavespectra.core.utils import interp_spec

        tf = np.concatenate([freq[::2], (freq[:-1] + freq[1:]) / 2])
        td = (np.asarray(dirs) + 360.0 / nd / 2) % 360
        ref = np.asarray(interp_spec(np.ascontiguousarray(S), freq, dirs, outfreq=tf, outdir=td))
        for tag, arr in (("fortran", np.asfortranarray(S)), ("transposed_view", S.T.copy().T), ("strided", np.repeat(S, 2, axis=1)[:, ::2])):
            got = np.asarray(interp_spec(arr, freq, dirs, outfreq=tf, outdir=td))
            out.append(dict(op="interp_spec", variant=tag, icase=icase, dims=["freq", "dir"], nd=nd, nf=nf, contiguous=True,
                            diff=None if np.allclose(got, ref, rtol=1e-12, atol=1e-12, equal_nan=True) else
                            f"differs from the C-contiguous call by {float(np.nanmax(np.abs(got - ref)))}"))
    except Exception as e:
        out.append(dict(op="interp_spec", variant="layout", crash=f"{type(e).__name__}: {str(e)[:200]}", icase=icase))
    return out


def run_check():
    ck = Check("C05")
    ck.extra["rule"] = ("every catalogue operation on the same labelled data stored as: permuted dimensions, Fortran order, strided and "
                        "negative-stride views, float32, every kind of rotation of the stored direction sequence (incl. the seam between the "
                        "first two), reversed, shuffled-then-sorted; signature = (operation, variant kind, number of dims, nd class); "
                        "non-trivial = variant differs from the base storage")
    ck.do_audit()
    import_ws()
    n = 40 if ck.tier == "quick" else 500
    from ..common import replay_ids

    res = pmap(make_case, [(ck.seed, i) for i in replay_ids(ck, n)])
    info = {}
    for recs in res:
        for r in recs:
            vkind = r["variant"].split("[")[0].rstrip("0123456789")
            ck.case((r["op"], vkind, len(r.get("dims", [])), r.get("nd")), r["variant"] != "base", sample={k: r[k] for k in ("op", "variant") if k in r})
            ck.count("variant:" + vkind)
            if r.get("ambiguous"):
                ck.ambiguous += 1
                continue
            if r.get("informational"):
                if r.get("diff") or r.get("crash"):
                    info[r["op"]] = r.get("diff") or r.get("crash")
                continue
            if "crash" in r:
                ck.fail(r["op"], f"variant {r['variant']} raised {r['crash']}", r, "crash")
            elif r.get("diff"):
                trig = None
                if r["op"] == "np_ptm3" and not r.get("contiguous", True):
                    trig = "noncontiguous_kernel_input"
                elif r["variant"].startswith("roll") and r["op"] in opcat.WATERSHED:
                    trig = "watershed_rotation_tiebreak"
                ck.fail(r["op"], f"variant {r['variant']} gives a different labelled result: {r['diff']}", r, trig)
    ck.extra["arbitrary_shuffle_differences"] = info
    ck.assumptions = ["float32 variant compared at 2e-4 relative (values are exactly representable, arithmetic is narrower)",
                      "arbitrary non-monotone direction storage is reported as information only: the property names rotations and reversal"]
    return ck.finish()


if __name__ == "__main__":
    from ..common import main_wrapper

    main_wrapper(run_check)

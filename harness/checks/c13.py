"""C13 — instrument file readers return what the file says; constructed 2-D spectra integrate back to the file's 1-D
spectrum (DESIGN §3 C13).

Lean decides the numeric contract (Props/C13.lean on Model/IO/Instruments.lean); tokenisation / number and time parsing
are carried here by differential testing: random contents are written by the independent reference encoders of
`harness/c13_formats.py`, read back by the real readers and compared (i) with the values the file says, converted as the
property says — the DIRECT ORACLE, computed in this file from the published conventions — and (ii) with the Lean model
through the driver (normalisation factors, direction maps, unit factors, block decoding, record order, grids).
"""
import datetime as dt
import math
import os
import shutil
import traceback

from pathlib import Path

import numpy as np

from .. import c13_formats as F
from ..common import BUILD, REPO, Check, case_rng, enc, enc_im, enc_iv, enc_m, enc_v, import_ws, parse_resp, pmap, run_driver

PI = math.pi
E2V = 1025 * 9.81
FORMATS = ["triaxys", "ndbc", "spotter_csv", "spotter_json", "datawell", "obscape", "ww3station", "swan", "xwaves"]
OPNAME = {"triaxys": "read_triaxys", "ndbc": "read_ndbc_ascii", "spotter_csv": "read_spotter", "spotter_json": "read_spotter",
          "datawell": "read_datawell", "obscape": "read_obscape", "ww3station": "read_ww3_station", "swan": "read_swan",
          "xwaves": "read_xwaves"}
MODELFMT = {"triaxys": "triaxys", "ndbc": "ndbc", "spotter_csv": "spotter", "spotter_json": "spotter", "datawell": "datawell",
            "obscape": "obscape", "ww3station": "ww3station", "swan": "swan", "xwaves": "xwaves"}
SAMPLES = REPO / "tests" / "sample_files"


# ------------------------------------------------------------------------------------------------
# small helpers
# ------------------------------------------------------------------------------------------------
def tsec(ds_time):
    return [int(x) for x in np.asarray(ds_time).astype("datetime64[s]").astype("int64").ravel()]


def fingerprint(a):
    a = np.asarray(a, dtype=float).ravel()
    a = np.where(np.isnan(a), -1.0, a)
    return [float(a.sum())] + [float(x) for x in a[:8]]


def fp_close(a, b, rel=1e-8):
    a, b = np.asarray(a), np.asarray(b)
    if a.shape != b.shape:
        return False
    sc = max(float(np.abs(b).max()) if b.size else 0.0, 1e-300)
    return bool(np.all(np.abs(a - b) <= rel * sc))


class Fails(list):
    def __init__(self, op):
        super().__init__()
        self.op = op

    def add(self, what, trigger=None, op=None):
        self.append(dict(op=op or self.op, what=what, trigger=trigger))


def cmp_arr(fails, name, got, exp, rel=1e-9, trigger=None, scale=None):
    """|got − exp| ≤ rel·max|exp| elementwise; NaN must match NaN."""
    got = np.asarray(got, dtype=float)
    exp = np.asarray(exp, dtype=float)
    if got.shape != exp.shape:
        fails.add(f"{name}: shape {got.shape} but the file says {exp.shape}", trigger)
        return False
    if got.size == 0:
        return True
    en, gn = np.isnan(exp), np.isnan(got)
    if not np.array_equal(en, gn):
        k = int(np.argmax(en != gn))
        fails.add(f"{name}: missing-value pattern differs at flat index {k} (got {got.ravel()[k]}, file says {exp.ravel()[k]})", trigger)
        return False
    e0 = np.where(en, 0.0, exp)
    g0 = np.where(gn, 0.0, got)
    sc = scale if scale is not None else float(np.abs(e0).max())
    err = np.abs(g0 - e0)
    tol = rel * sc + 1e-300
    if np.any(err > tol):
        k = int(np.argmax(err))
        fails.add(f"{name}: got {g0.ravel()[k]!r} but the file says {e0.ravel()[k]!r} at flat index {k} "
                  f"(max abs err {float(err.max()):.3g}, scale {sc:.3g})", trigger)
        return False
    return True


def check_records(fails, got_times, exp_recs, cmp_record, unsorted_input):
    """exp_recs: [(t_seconds, payload)] with distinct times, in the order the reader visits them.  The property: output
    sorted by time and each record carrying its own time stamp.  cmp_record(fails, i_got, payload, trigger).
    `unsorted_records` is attached only to the two failure modes of an unsorted input: the time axis comes back unsorted,
    or it comes back sorted while the records stayed in file order (re-labelled)."""
    exp_sorted = sorted(exp_recs, key=lambda r: r[0])
    trig = "unsorted_records" if unsorted_input else None
    gt = list(got_times)
    if gt == [r[0] for r in exp_sorted]:
        tmp = Fails(fails.op)
        for i, r in enumerate(exp_sorted):
            cmp_record(tmp, i, r[1], None)
        if tmp and unsorted_input:
            tmp2 = Fails(fails.op)
            for i, r in enumerate(exp_recs):
                cmp_record(tmp2, i, r[1], None)
            if not tmp2:
                fails.add("time axis sorted but the records are still in file order: every record carries another record's "
                          f"time stamp (file order {[r[0] for r in exp_recs][:4]}…)", trig)
                return False
        fails.extend(tmp)
        return not tmp
    if sorted(gt) == [r[0] for r in exp_sorted]:
        fails.add(f"time axis is not sorted: {gt[:6]}… (file times sorted: {[r[0] for r in exp_sorted][:6]}…)", trig)
        bytime = {r[0]: r[1] for r in exp_recs}
        for i, t in enumerate(gt):
            cmp_record(fails, i, bytime[t], None)
        return False
    fails.add(f"time stamps differ: reader {gt[:6]}… file {[r[0] for r in exp_sorted][:6]}…", None)
    return False


def gen_times(rng, n, step="minute"):
    base = dt.datetime(rng.randint(1995, 2035), rng.randint(1, 12), rng.randint(1, 28), rng.randint(0, 23),
                       rng.randint(0, 59) if step != "hour" else 0, rng.randint(0, 59) if step == "second" else 0)
    out = [base]
    for _ in range(n - 1):
        if step == "hour":
            inc = dt.timedelta(hours=rng.choice([1, 1, 3, 6, 25]))
        elif step == "minute":
            inc = dt.timedelta(minutes=rng.choice([1, 10, 30, 60, 61, 1440, 50000]))
        else:
            inc = dt.timedelta(seconds=rng.choice([1, 59, 1800, 3600, 86400, 86401, 3000000]))
        out.append(out[-1] + inc)
    return out


def gen_order(rng, n):
    """(order kind, permutation)"""
    kind = rng.choice(["sorted", "sorted", "sorted", "reversed", "shuffled"]) if n > 1 else "sorted"
    idx = list(range(n))
    if kind == "reversed":
        idx.reverse()
    elif kind == "shuffled":
        while idx == sorted(idx) and n > 1:
            rng.shuffle(idx)
    return kind, idx


def gen_freqs(rng, nf, dec=4):
    kind = rng.choice(["uniform", "log", "irregular"])
    if kind == "uniform":
        f0, d = rng.randint(20, 80) / 1000.0, rng.randint(5, 20) / 1000.0
        f = [f0 + i * d for i in range(nf)]
    elif kind == "log":
        f0, r = rng.choice([0.03, 0.035, 0.0418, 0.05]), rng.choice([1.07, 1.1, 1.15])
        f = [f0 * r ** i for i in range(nf)]
    else:
        f = [rng.randint(20, 60) / 1000.0]
        for _ in range(nf - 1):
            f.append(f[-1] + rng.randint(3, 40) / 1000.0)
    f = [round(x, dec) for x in f]
    for i in range(1, nf):  # strictly increasing after rounding
        if f[i] <= f[i - 1]:
            f[i] = round(f[i - 1] + 10 ** (-dec), dec)
    return f


def gen_spec1d(rng, nf):
    kind = rng.choice(["peaked", "peaked", "random", "sparse", "tiny", "huge"])
    if kind == "peaked":
        p = rng.randrange(nf)
        w = rng.uniform(0.8, 3)
        v = [rng.uniform(0.5, 20) * math.exp(-((i - p) / w) ** 2) + (rng.random() * 0.01) for i in range(nf)]
    elif kind == "random":
        v = [rng.random() ** 3 * 30 for _ in range(nf)]
    elif kind == "sparse":
        v = [0.0] * nf
        for _ in range(rng.randint(1, 3)):
            v[rng.randrange(nf)] = rng.uniform(0.01, 50)
    elif kind == "tiny":
        v = [rng.random() * 1e-3 for _ in range(nf)]
    else:
        v = [rng.random() * 400 for _ in range(nf)]
    return v, kind


def gen_spec2d(rng, nf, nd):
    kind = rng.choice(["blob", "blob", "random", "sparse", "zero"])
    E = np.zeros((nf, nd))
    if kind == "blob":
        for _ in range(rng.randint(1, 2)):
            i0, j0 = rng.randrange(nf), rng.randrange(nd)
            sf, sd = rng.uniform(0.7, 3.0), rng.uniform(0.7, max(1.0, nd / 5))
            amp = rng.choice([0.01, 1, 30, 900])
            for i in range(nf):
                for j in range(nd):
                    dj = min(abs(j - j0), nd - abs(j - j0))
                    E[i, j] += amp * math.exp(-((i - i0) / sf) ** 2 - (dj / sd) ** 2)
    elif kind == "random":
        E = np.array([[rng.random() ** 2 * 5 for _ in range(nd)] for _ in range(nf)])
    elif kind == "sparse":
        for _ in range(rng.randint(1, 4)):
            E[rng.randrange(nf), rng.randrange(nd)] = rng.uniform(0.001, 100)
    return E, kind


def cartwright_oracle(dirs, dm, dspr):
    """Published definition: G(θ) ∝ cos^{2s}(½(θ−θm)), s = 2/σ² − 1 (σ in radians), normalised so that Σ_j G(θ_j)·Δθ = 1
    on the uniform circle `dirs` (Δθ = 360/n degrees).  Returns (G per degree, raw table g)."""
    n = len(dirs)
    s = 2.0 / math.radians(dspr) ** 2 - 1.0
    g = []
    for th in dirs:
        d = abs(th - dm) % 360.0
        d = min(d, 360.0 - d)
        g.append(math.cos(0.5 * math.radians(d)) ** (2.0 * s))
    tot = sum(g)
    dth = 360.0 / n
    return [x / (tot * dth) for x in g], g


def clsn(n):
    return "1" if n == 1 else "2" if n == 2 else "3-5" if n <= 5 else "6+"


def file_texts(paths, limit=40000):
    out = {}
    used = 0
    for p in paths:
        try:
            if str(p).endswith(".gz") or str(p).endswith(".mat"):
                out[os.path.basename(str(p))] = "<binary>"
                continue
            t = open(p, encoding="utf-8").read()
        except Exception as e:
            t = f"<unreadable: {e}>"
        out[os.path.basename(str(p))] = t[:max(0, limit - used)]
        used += len(out[os.path.basename(str(p))])
    return out


# ------------------------------------------------------------------------------------------------
# per-format cases.  Each returns dict(sig, nontrivial, fails, reqs=[(line, ctx)], paths, desc, counts)
# ------------------------------------------------------------------------------------------------
def new_result(fmt):
    return dict(fmt=fmt, fails=Fails(OPNAME[fmt]), reqs=[], paths=[], desc={}, counts=[], sig=(fmt,), nontrivial=True, ambiguous=0)


def order_request(res, fmt, files_times, got_times, got_fps, exp_fps):
    """correspondence of the record order: model `readerOrder` vs the reader's time axis and record identity."""
    line = "instr_order %s %d %s" % (MODELFMT[fmt], len(files_times), " ".join(enc_iv(ft) for ft in files_times))
    res["reqs"].append((line, dict(kind="order", got_times=got_times, got_fps=got_fps, exp_fps=exp_fps)))


def case_triaxys(ws, rng, tmp, res, tier):
    directional = rng.random() < 0.7
    nfiles = rng.choice([1, 1, 2, 3, 4])
    okind, perm = gen_order(rng, nfiles)
    times = gen_times(rng, nfiles, "minute")
    nf = rng.choice([3, 5, 8, 13, 21]) if tier == "quick" else rng.choice([3, 5, 8, 13, 21, 64, 129])
    f0 = rng.choice([0.0, 0.0, 0.005, 0.03, 0.05])
    df = rng.choice([0.005, 0.01, 0.01, 0.02, 0.025])
    ddir = rng.choice([3, 5, 10, 15, 22.5, 30, 45, 90]) if directional else None
    toff = rng.choice([0, 0, 10, -3.5])
    title = rng.choice(["TRIAXYS BUOY DATA REPORT", "TRIAXYS BUOY REPORT"])
    sep = rng.choice([" ", " ", ","])
    # a float `arange(f0, f0+df*nf, df)` may hold nf+1 entries: named trigger computed from the header numbers alone
    f0q, dfq = float("%7.3f" % f0), float("%7.3f" % df)
    arange_len = int(math.ceil((f0q + dfq * nf - f0q) / dfq))
    trig_grid = "triaxys_arange_float_length" if arange_len != nf else None
    interp_second = nfiles >= 2 and rng.random() < 0.15
    said, names = [], []
    kinds = []
    for k in range(nfiles):
        it = perm[k]
        nf_k, f0_k, df_k = nf, f0, df
        if interp_second and k >= 1:
            # another basis whose nodes never coincide with the reference nodes (multiples of 0.005) nor with the ends of its
            # range: np.interp with left/right = 0 is discontinuous there and an ulp decides (would be ambiguous)
            nf_k, f0_k, df_k = nf + rng.choice([-1, 0, 2]), f0 + rng.choice([0.002, 0.003]), df * rng.choice([1.0, 2.0])
            nf_k = max(2, nf_k)
        if directional:
            ncol = int(round(360.0 / ddir)) + 1
            E, kd = gen_spec2d(rng, nf_k, ncol - 1)
            E = np.concatenate([E, E[:, :1]], axis=1) if rng.random() < 0.8 else np.concatenate([E, E[:, :1] * 0.5], axis=1)
            vals = E.tolist()
        else:
            vals, kd = gen_spec1d(rng, nf_k)
        kinds.append(kd)
        f0kq, dfkq = float("%7.3f" % f0_k), float("%7.3f" % df_k)
        if int(math.ceil((f0kq + dfkq * nf_k - f0kq) / dfkq)) != nf_k:
            trig_grid = "triaxys_arange_float_length"  # any file of the set: its bogus extra bin enters the interpolation
        name = "%03d_buoy.%s" % (k, "DIRSPEC" if directional else "NONDIRSPEC")
        rec = dict(time=times[it], directional=directional, f0=f0_k, df=df_k, nf=nf_k, ddir=ddir, values=vals, title=title, sep=sep)
        said.append(F.enc_triaxys(tmp / name, rec))
        names.append(tmp / name)
    res["paths"] = names
    res["sig"] = ("triaxys", "2d" if directional else "1d", clsn(nfiles), okind, "interp" if interp_second else "same", str(toff != 0))
    res["desc"] = dict(directional=directional, nfiles=nfiles, order=okind, nf=nf, f0=f0, df=df, ddir=ddir, toff=toff, sep=sep,
                       interp=interp_second)
    res["counts"] += ["triaxys:" + ("2d" if directional else "1d"), "order:" + okind]
    arg = str(tmp / ("*.DIRSPEC" if directional else "*.NONDIRSPEC")) if rng.random() < 0.5 else [str(p) for p in names]
    ds = ws.read_triaxys(arg, toff=toff)
    fails = res["fails"]
    ref = said[0]
    exp_f = [ref["f0"] + i * ref["df"] for i in range(ref["nf"])]
    cmp_arr(fails, "freq", ds.freq.values, exp_f, rel=1e-12, trigger=trig_grid)
    if directional:
        exp_d = [j * ref["ddir"] for j in range(int(round(360.0 / ref["ddir"])) + 1)]
        cmp_arr(fails, "dir", ds.dir.values, exp_d, rel=1e-12)
    elif "dir" in ds.dims:
        fails.add("non-directional file returned with a dir dimension")
    got = np.asarray(ds.efth.values, dtype=float)

    def expected(s):
        v = np.asarray(s["values"], dtype=float)
        if s["f0"] == ref["f0"] and s["df"] == ref["df"] and s["nf"] == ref["nf"]:
            return v
        fin = [s["f0"] + i * s["df"] for i in range(s["nf"])]
        if v.ndim == 1:
            return np.interp(exp_f, fin, v, left=0.0, right=0.0)
        return np.stack([np.interp(exp_f, fin, v[:, j], left=0.0, right=0.0) for j in range(v.shape[1])], axis=1)

    def cmp_record(fails, i, s, trig):
        if trig_grid is not None and got.shape[1] == len(exp_f) + 1:
            cmp_arr(fails, f"efth[{i}] (first nf rows)", got[i][:len(exp_f)], expected(s), rel=1e-12, trigger=trig or trig_grid)
        else:
            cmp_arr(fails, f"efth[{i}]", got[i], expected(s), rel=1e-12 if not interp_second else 1e-9, trigger=trig or trig_grid)

    exp_recs = [(F.secs(s["time"]) - int(round(toff * 3600)), s) for s in said]
    check_records(fails, tsec(ds.time.values), exp_recs, cmp_record, okind != "sorted")
    # model: grids from the header numbers, record order
    res["reqs"].append(("instr_triaxys %s %s %d %s" % (enc(ref["f0"]), enc(ref["df"]), ref["nf"], enc(ref.get("ddir", 0) or 0)),
                        dict(kind="triaxys_grid", freq=[float(x) for x in ds.freq.values],
                             dir=[float(x) for x in ds.dir.values] if directional else None, float_len=arange_len, nf=nf)))
    if True:
        order_request(res, "triaxys", [[F.secs(s["time"]) - int(round(toff * 3600))] for s in said], tsec(ds.time.values),
                      [fingerprint(got[i]) for i in range(got.shape[0])], [fingerprint(expected(s)) for s in said])


def case_ndbc(ws, rng, tmp, res, tier):
    variant = rng.choice(["realtime", "realtime", "history", "history", "history_old"])
    directional = rng.random() < 0.65
    nt = rng.choice([1, 2, 3, 5, 8])
    nf = rng.choice([2, 3, 6, 11])
    okind, perm = gen_order(rng, nt)
    times = gen_times(rng, nt, "hour" if variant == "history_old" else "minute")
    freqs = gen_freqs(rng, nf, dec=3 if variant != "history" else 4)
    gz = variant != "realtime" and rng.random() < 0.3
    comps = {"spec": []}
    kinds = []
    for _ in range(nt):
        v, kd = gen_spec1d(rng, nf)
        kinds.append(kd)
        comps["spec"].append(v)
    if directional:
        comps["swdir"] = [[float(rng.randint(0, 359)) if rng.random() < 0.9 else 999.0 for _ in range(nf)] for _ in range(nt)]
        comps["swdir2"] = [[float(rng.randint(0, 359)) for _ in range(nf)] for _ in range(nt)]
        comps["swr1"] = [[rng.randint(0, 99) / 100.0 for _ in range(nf)] for _ in range(nt)]
        comps["swr2"] = [[rng.randint(0, 80) / 100.0 for _ in range(nf)] for _ in range(nt)]
        if variant == "realtime":
            comps["swdir"] = [[x if x == 999.0 else x + rng.choice([0.0, 0.5]) for x in row] for row in comps["swdir"]]
        # 999 (missing) only where there is no energy
        for it in range(nt):
            for i in range(nf):
                if comps["swdir"][it][i] == 999.0:
                    comps["spec"][it][i] = 0.0
                    if variant == "realtime":
                        # real files carry the marker in all four moment files of an empty bin
                        comps["swdir2"][it][i] = comps["swr1"][it][i] = comps["swr2"][it][i] = 999.0
    sep = [rng.randint(100, 400) / 1000.0 for _ in range(nt)] if variant == "realtime" else None
    times_f = [times[i] for i in perm]
    comps_f = {k: [v[i] for i in perm] for k, v in comps.items()}
    sep_f = [sep[i] for i in perm] if sep else None
    paths, said = F.enc_ndbc(tmp, "41010", variant, times_f, freqs, comps_f, sepfreq=sep_f, gz=gz)
    res["paths"] = paths
    nd = rng.choice([3, 4, 8, 12, 36])
    start = rng.choice([0.0, 0.0, 5.0, 2.5])
    dirs = np.array([start + j * 360.0 / nd for j in range(nd)])
    default_dirs = directional and rng.random() < 0.3
    if default_dirs:
        dirs = np.arange(0, 360, 10).astype(float)
        nd = 36
    res["sig"] = ("ndbc", variant, "2d" if directional else "1d", clsn(nt), okind, "gz" if gz else "txt", clsn(nd))
    res["desc"] = dict(variant=variant, directional=directional, nt=nt, nf=nf, order=okind, gz=gz, dirs=dirs.tolist() if directional else None)
    res["counts"] += ["ndbc:" + variant, "order:" + okind]
    fails = res["fails"]
    arg = [str(p) for p in paths] if directional else (str(paths[0]) if rng.random() < 0.5 else paths[0])
    ds = ws.read_ndbc_ascii(arg) if (not directional or default_dirs) else ws.read_ndbc_ascii(arg, dirs=dirs)
    cmp_arr(fails, "freq", ds.freq.values, said["freqs"], rel=2e-7)  # the reader stores float32 frequencies
    got = np.asarray(ds.efth.values, dtype=float)
    scaled_hist = directional and variant != "realtime"
    trig_r = "ndbc_history_r1r2_in_hundredths" if scaled_hist else None

    def expected2d(k):
        sp = said["comps"]["spec"][k]
        if not directional:
            return np.asarray(sp, dtype=float)[:, None]
        out = np.zeros((nf, nd))
        for i in range(nf):
            a1, a2 = said["comps"]["swdir"][k][i], said["comps"]["swdir2"][k][i]
            r1, r2 = said["comps"]["swr1"][k][i], said["comps"]["swr2"][k][i]
            for j, th in enumerate(dirs):
                D = (1.0 / PI) * (0.5 + r1 * math.cos(math.radians(th - a1)) + r2 * math.cos(2 * math.radians(th - a2)))  # per radian
                out[i, j] = sp[i] * D * PI / 180.0  # per degree
        return out

    if directional:
        cmp_arr(fails, "dir", ds.dir.values, dirs, rel=1e-12)
    elif ds.dir.size != 1:
        fails.add(f"1-D request returned {ds.dir.size} directions")

    def cmp_record(fails, i, k, trig):
        sp = np.asarray(said["comps"]["spec"][k], dtype=float)
        # 2D consistent with 1D: the direction integral gives back the file's spectral density
        ddv = 360.0 / nd if directional else 1.0
        cmp_arr(fails, f"direction integral of efth[{i}] vs file spectral density", got[i].sum(axis=1) * ddv, sp, rel=1e-9,
                trigger=trig, scale=max(float(sp.max()), 1e-300))
        cmp_arr(fails, f"efth[{i}]", got[i], expected2d(k), rel=1e-9, trigger=trig_r or trig,
                scale=max(float(np.abs(expected2d(k)).max()), float(sp.max()) / 360.0, 1e-300))

    exp_recs = [(F.secs(t), k) for k, t in enumerate(said["times"])]
    check_records(fails, tsec(ds.time.values), exp_recs, cmp_record, okind != "sorted")
    if sep_f is not None:
        if "Sep_Freq" not in ds:
            fails.add("realtime file: Sep_Freq not returned")
        else:
            o = np.argsort([F.secs(t) for t in said["times"]])
            cmp_arr(fails, "Sep_Freq", ds["Sep_Freq"].values, np.asarray(said["sepfreq"])[o], rel=1e-12)
    # model: construct_spectra on one record with the harness's trig tables, as the READER sees the numbers
    k0 = int(np.argsort([F.secs(t) for t in said["times"]])[0])
    if directional:
        # r1/r2 as PRINTED in the file (hundredths in the history format); the model decides what the reader makes of them
        pr = (lambda x: round(x * 100)) if scaled_hist else (lambda x: x)
        c1 = [[math.cos(math.radians(th - said["comps"]["swdir"][k0][i])) for th in dirs] for i in range(nf)]
        c2 = [[math.cos(2 * math.radians(th - said["comps"]["swdir2"][k0][i])) for th in dirs] for i in range(nf)]
        line = " ".join(["instr_ndbc", "1" if variant != "realtime" else "0", enc(PI), enc(360.0 / nd), enc_v(said["comps"]["spec"][k0]),
                         enc_v([pr(x) for x in said["comps"]["swr1"][k0]]), enc_v([pr(x) for x in said["comps"]["swr2"][k0]]),
                         enc_m(c1, nd), enc_m(c2, nd)])
        tg = tsec(ds.time.values)
        if F.secs(said["times"][k0]) in tg:
            res["reqs"].append((line, dict(kind="matrix", got=got[tg.index(F.secs(said["times"][k0]))].tolist(), rel=1e-9,
                                           oned=said["comps"]["spec"][k0])))
    order_request(res, "ndbc", [[F.secs(t) for t in said["times"]]], tsec(ds.time.values),
                  [fingerprint(got[i].sum(axis=1)) for i in range(got.shape[0])],
                  [fingerprint(np.asarray(said["comps"]["spec"][k]) * (1.0 if not directional else 1.0 / (360.0 / nd))) for k in range(nt)])


def gen_spotter_recs(rng, nt, nf):
    recs, kinds = [], []
    times = gen_times(rng, nt, "second")
    for it in range(nt):
        ef, kd = gen_spec1d(rng, nf)
        kinds.append(kd)
        recs.append(dict(time=times[it], lat=rng.uniform(-70, 70), lon=rng.uniform(-180, 180), hs=rng.uniform(0.1, 8),
                         ef=ef, dm=[rng.uniform(0, 360) if rng.random() < 0.9 else float(rng.choice([0, 90, 357.5, 359.999])) for _ in range(nf)],
                         dspr=[rng.uniform(8, 79) for _ in range(nf)]))
    return recs, kinds


def spotter_like_compare(res, ds, said_recs, freqs_said, dd, okind_unsorted, lat_lon=True, time_key="time", oned_requested=False,
                         model_mode="spotter", smax=None, rel_said=None, files_times=None, fmtname="spotter_csv"):
    """shared by Spotter and Datawell: efth(time,freq[,dir]) built as efth(f)·G(θ; dm_f, dspr_f)."""
    fails = res["fails"]
    cmp_arr(fails, "freq", ds.freq.values, freqs_said, rel=1e-12)
    got = np.asarray(ds.efth.values, dtype=float)
    nf = len(freqs_said)
    if dd is None:
        if "dir" in ds.efth.dims:
            fails.add("1-D request (dd=None) returned a dir dimension")
        dirs = None
    else:
        nd_exp = int(math.ceil(360.0 / dd - 1e-12))
        dirs = [j * dd for j in range(nd_exp)]
        if "dir" not in ds.efth.dims:
            fails.add("2-D request returned no dir dimension")
            return
        cmp_arr(fails, "dir", ds.dir.values, dirs, rel=1e-12)
        if ds.efth.dims[-1] != "dir":
            got = np.asarray(ds.efth.transpose("time", "freq", "dir").values, dtype=float)
    full_circle = dd is None or abs(len(dirs) * dd - 360.0) < 1e-9
    trig_dd = None if full_circle else "dd_not_dividing_360"

    def cmp_record(fails, i, s, trig):
        ef = np.asarray(s["ef"], dtype=float)
        if dd is None:
            cmp_arr(fails, f"efth[{i}] (1-D request) vs file spectrum", got[i], ef, rel=1e-12, trigger=trig)
            return
        cmp_arr(fails, f"direction integral of efth[{i}] vs file spectrum", got[i].sum(axis=1) * dd, ef, rel=1e-9,
                trigger=trig or trig_dd, scale=max(float(ef.max()), 1e-300))
        if full_circle:
            exp = np.array([[ef[k] * g for g in cartwright_oracle(dirs, s["dm"][k], s["dspr"][k])[0]] for k in range(nf)])
            cmp_arr(fails, f"efth[{i}] vs efth(f)·G(θ)", got[i], exp, rel=1e-9, trigger=trig,
                    scale=max(float(exp.max()), float(ef.max()) / 360.0, 1e-300))
        if lat_lon:
            for nm in ("lat", "lon"):
                if nm not in ds:
                    fails.add(f"{nm} not returned")
                else:
                    cmp_arr(fails, f"{nm}[{i}]", [float(ds[nm].values[i])], [s[nm]], rel=1e-12, trigger=trig, scale=max(abs(s[nm]), 1.0))

    exp_recs = [(F.secs(s[time_key]), s) for s in said_recs]
    check_records(fails, tsec(ds.time.values), exp_recs, cmp_record, okind_unsorted)
    # model: one record, a few frequency rows (rows are independent)
    tg = tsec(ds.time.values)
    s0 = said_recs[0]
    if F.secs(s0[time_key]) in tg:
        i0 = tg.index(F.secs(s0[time_key]))
        rows = list(range(nf))[:6]
        if dd is None:
            line = " ".join(["instr_cart", model_mode, enc(PI), "none", enc(smax if smax is not None else 1),
                             enc_v([(rel_said if rel_said is not None else s0["ef"])[k] for k in rows]), "m 0 0"])
            res["reqs"].append((line, dict(kind="vector", got=[float(got[i0][k]) for k in rows], rel=1e-12)))
        else:
            G = [cartwright_oracle(dirs, s0["dm"][k], s0["dspr"][k])[1] for k in rows]
            line = " ".join(["instr_cart", model_mode, enc(PI), enc(dd), enc(smax if smax is not None else 1),
                             enc_v([(rel_said if rel_said is not None else s0["ef"])[k] for k in rows]), enc_m(G, len(dirs))])
            res["reqs"].append((line, dict(kind="matrix", got=[got[i0][k].tolist() for k in rows], rel=1e-9,
                                           oned=None if not full_circle else [s0["ef"][k] for k in rows],
                                           oned_general=[s0["ef"][k] * len(dirs) * dd / 360.0 for k in rows])))
    if files_times is not None:
        fp = (lambda a: fingerprint(np.asarray(a).sum(axis=-1) * dd)) if dd is not None else fingerprint
        order_request(res, fmtname, files_times, tg, [fp(got[i]) for i in range(got.shape[0])],
                      [fingerprint(np.asarray(s["ef"]) * (1.0 if full_circle or dd is None else len(dirs) * dd / 360.0)) for s in said_recs])


def case_spotter(ws, rng, tmp, res, tier, kind):
    nfiles = rng.choice([1, 1, 1, 2, 3])
    nf = rng.choice([3, 5, 9, 16])
    freqs = gen_freqs(rng, nf, dec=5)
    dd = rng.choice([None, 5.0, 5.0, 10.0, 15.0, 22.5, 30.0, 45.0, 90.0, 7.0])
    per_file = [rng.choice([1, 2, 3, 5]) for _ in range(nfiles)]
    recs, kinds = gen_spotter_recs(rng, sum(per_file), nf)
    # distribute records over files; inside a file any order (the reader sorts each file); files named in visiting order
    forder, fperm = gen_order(rng, nfiles)
    chunks, pos = [], 0
    for n in per_file:
        chunks.append(recs[pos:pos + n])
        pos += n
    chunks = [chunks[i] for i in fperm]
    inner = rng.choice(["sorted", "reversed", "shuffled"])
    offset = 0
    if kind == "json" and rng.random() < 0.15:
        offset = rng.choice([3600, -1800])
    said_all, paths, files_times = [], [], []
    for k, ch in enumerate(chunks):
        ch = list(ch)
        if inner == "reversed":
            ch.reverse()
        elif inner == "shuffled":
            rng.shuffle(ch)
        p = tmp / ("spot_%03d.%s" % (k, kind))
        said = F.enc_spotter_csv(p, ch, freqs, pad=rng.random() < 0.7) if kind == "csv" else F.enc_spotter_json(p, ch, freqs, offset)
        paths.append(p)
        said_all += said["recs"]
        files_times.append([F.secs(r["time"]) for r in said["recs"]])
        fsaid = said["freqs"]
    res["paths"] = paths
    across_unsorted = forder != "sorted"
    res["sig"] = ("spotter", kind, "1d" if dd is None else ("2d" if dd != 7.0 else "2d-dd7"), clsn(nfiles), forder, inner,
                  "offset" if offset else "aligned")
    res["desc"] = dict(kind=kind, nfiles=nfiles, per_file=per_file, nf=nf, dd=dd, file_order=forder, inner_order=inner, wave_time_offset=offset)
    res["counts"] += ["spotter:" + kind, "order:" + forder, "dd:" + str(dd)]
    arg = str(tmp / ("spot_*." + kind)) if rng.random() < 0.5 else [str(p) for p in paths]
    if nfiles == 1 and rng.random() < 0.5:
        arg = str(paths[0])
    ds = ws.read_spotter(arg, dd=dd)
    if offset:
        # the spectra of frequencyData[i] carry frequencyData[i].timestamp in the file
        fails = res["fails"]
        gt = tsec(ds.time.values)
        exp_t = sorted(F.secs(r["time"]) for r in said_all)
        if gt != exp_t and not across_unsorted:
            fails.add(f"spectra labelled with waves[].timestamp {gt[:3]}… instead of frequencyData[].timestamp {exp_t[:3]}…",
                      "spotter_json_freqdata_time_differs")
        # everything else is compared on the labels the reader chose
        spotter_like_compare(res, ds, said_all, fsaid, dd, across_unsorted, time_key="wave_time", files_times=None, fmtname="spotter_" + kind)
        return
    spotter_like_compare(res, ds, said_all, fsaid, dd, across_unsorted, files_times=files_times, fmtname="spotter_" + kind)


def case_datawell(ws, rng, tmp, res, tier):
    nfiles = rng.choice([1, 2, 3, 5])
    nf = rng.choice([3, 6, 12])
    freqs = gen_freqs(rng, nf, dec=3)
    dd = rng.choice([None, 5.0, 10.0, 20.0, 45.0, 7.0])
    times = gen_times(rng, nfiles, "minute")
    okind, perm = gen_order(rng, nfiles)
    # file names carry the time; to visit them out of time order the location prefix is made to sort differently
    said_all, paths, files_times = [], [], []
    lon, lat = rng.choice([None, 151.25]), rng.choice([None, -33.5])
    recs = []
    for k in range(nfiles):
        it = perm[k]
        rel, kd = gen_spec1d(rng, nf)
        mx = max(rel) or 1.0
        rel = [x / mx for x in rel]
        recs.append(dict(time=times[it], hs_cm=rng.uniform(10, 900), smax=rng.choice([5.4183e-1, 12.5, 3.3e-3, 250.0]), rel=rel,
                         dm=[round(rng.uniform(0, 359.9), 1) for _ in range(nf)], dspr=[round(rng.uniform(8, 79), 1) for _ in range(nf)]))
    for k, r in enumerate(recs):
        loc = "buoy" if okind == "sorted" else "b%03d" % k
        p, said = F.enc_datawell(tmp, r, freqs, location=loc)
        said["ef"] = [x * said["smax"] for x in said["rel"]]
        said["lat"], said["lon"] = lat, lon
        paths.append(p)
        said_all.append(said)
    visit = sorted(range(nfiles), key=lambda k: os.path.basename(str(paths[k])))
    files_times = [[F.secs(said_all[k]["time"])] for k in visit]
    res["paths"] = paths
    res["sig"] = ("datawell", "1d" if dd is None else ("2d" if dd != 7.0 else "2d-dd7"), clsn(nfiles), okind, "pos" if lon is not None else "nopos")
    res["desc"] = dict(nfiles=nfiles, nf=nf, dd=dd, order=okind, lon=lon, lat=lat)
    res["counts"] += ["datawell", "order:" + okind, "dd:" + str(dd)]
    arg = str(tmp / "*.spt") if rng.random() < 0.6 else [str(paths[k]) for k in visit]
    kw = {}
    if lon is not None:
        kw["lon"] = lon
    if lat is not None:
        kw["lat"] = lat
    ds = ws.read_datawell(arg, dd=dd, **kw)
    fails = res["fails"]
    for nm, v in (("lon", lon), ("lat", lat)):
        if v is not None:
            if nm not in ds or float(np.asarray(ds[nm].values).ravel()[0]) != v:
                fails.add(f"{nm} passed to the reader not returned")
    # hs of the header is in cm
    o = np.argsort([F.secs(s["time"]) for s in said_all])
    if "hs" in ds and ds.hs.size == nfiles and tsec(ds.time.values) == sorted(F.secs(s["time"]) for s in said_all):
        cmp_arr(fails, "hs (header, cm → m)", np.asarray(ds.hs.values).ravel(), [said_all[k]["hs"] for k in o], rel=1e-12)
    s0 = said_all[0]
    spotter_like_compare(res, ds, [said_all[k] for k in visit], said_all[0]["freqs"], dd, False, lat_lon=False,
                         model_mode="datawell", smax=said_all[visit[0]]["smax"], rel_said=said_all[visit[0]]["rel"],
                         files_times=files_times, fmtname="datawell")


def case_obscape(ws, rng, tmp, res, tier):
    nfiles = rng.choice([1, 2, 3, 4])
    nf = rng.choice([2, 5, 9])
    dd = rng.choice([3.0, 5.0, 10.0, 15.0, 22.5, 45.0, 90.0]) if tier == "thorough" else rng.choice([5.0, 10.0, 15.0, 22.5, 45.0, 90.0])
    nd = int(round(360.0 / dd))
    freqs = gen_freqs(rng, nf, dec=6)
    times = gen_times(rng, nfiles, "second")
    okind, perm = gen_order(rng, nfiles)
    said_all, paths = [], []
    lat, lon = rng.uniform(-60, 60), rng.uniform(-180, 180)
    for k in range(nfiles):
        E, kd = gen_spec2d(rng, nf, nd)
        # the logger names its files yyyymmdd_hhmmss_…: the directory reader selects files by that stamp
        name = times[perm[k]].strftime("%Y%m%d_%H%M%S") + "_wavebuoy_%03d_spec2D.csv" % k
        said_all.append(F.enc_obscape(tmp / name, dict(time=times[perm[k]], lat=lat, lon=lon, values=E.tolist()), freqs, dd,
                                      extra_comment=rng.random() < 0.7))
        paths.append(tmp / name)
    res["paths"] = paths
    res["sig"] = ("obscape", clsn(nfiles), okind, clsn(nf), str(dd))
    res["desc"] = dict(nfiles=nfiles, nf=nf, dd=dd, order=okind)
    res["counts"] += ["obscape", "order:" + okind]
    arg = str(tmp / "*_spec2D.csv") if rng.random() < 0.5 else [str(p) for p in paths]
    ds = ws.read_obscape(arg)
    fails = res["fails"]
    # the directory entry point: all files, and the files whose stamp lies in [start, end] (both ends included)
    from wavespectra.input.obscape import read_obscape_dir

    try:
        dall = read_obscape_dir(str(tmp))
        if not (np.array_equal(dall.time.values, ds.time.values) and np.array_equal(dall.efth.values, ds.efth.values)):
            fails.add("read_obscape_dir(directory) differs from read_obscape on the same files")
        ts = sorted(times)
        lo, hi = ts[rng.randrange(len(ts))], ts[rng.randrange(len(ts))]
        if lo > hi:
            lo, hi = hi, lo
        want = sorted(F.secs(t) for t in ts if lo <= t <= hi)
        dsel = read_obscape_dir(str(tmp), start_date=lo, end_date=hi)
        if tsec(dsel.time.values) != want:
            fails.add(f"read_obscape_dir(start_date, end_date): got times {tsec(dsel.time.values)}, files stamped inside the range: {want}")
    except Exception as e:
        fails.add(f"read_obscape_dir raised {type(e).__name__}: {e}")
    cmp_arr(fails, "freq", ds.freq.values, said_all[0]["freqs"], rel=1e-12)
    cmp_arr(fails, "dir", ds.dir.values, said_all[0]["dirs"], rel=1e-12)
    got = np.asarray(ds.efth.values, dtype=float)
    for nm, key in (("lat", "Latitude [deg]"), ("lon", "Longitude [deg]")):
        if key not in ds.attrs:
            fails.add(f"position: attribute {key!r} missing")
        else:
            cmp_arr(fails, f"position {nm}", [float(ds.attrs[key])], [said_all[0][nm]], rel=1e-12, scale=1.0)

    def cmp_record(fails, i, s, trig):
        cmp_arr(fails, f"efth[{i}] (m²/Hz/rad → m²/Hz/deg)", got[i], np.asarray(s["values"]) * PI / 180.0, rel=1e-12, trigger=trig)

    check_records(fails, tsec(ds.time.values), [(F.secs(s["time"]), s) for s in said_all], cmp_record, okind != "sorted")
    tg = tsec(ds.time.values)
    if F.secs(said_all[0]["time"]) in tg:
        res["reqs"].append((" ".join(["instr_units", "obscape", enc(PI), enc_m(said_all[0]["values"], nd)]),
                            dict(kind="matrix", got=got[tg.index(F.secs(said_all[0]["time"]))].tolist(), rel=1e-12)))
    order_request(res, "obscape", [[F.secs(s["time"])] for s in said_all], tg, [fingerprint(got[i]) for i in range(got.shape[0])],
                  [fingerprint(np.asarray(s["values"]) * PI / 180.0) for s in said_all])
    # the first file is rewritten in place (same name, the logger re-transmits a corrected record): reading it again returns what
    # it holds now
    try:
        E2, _ = gen_spec2d(rng, nf, nd)
        E2 = np.asarray(E2, dtype=float) + 1.0
        t2 = times[perm[0]] + dt.timedelta(hours=1)
        said2 = F.enc_obscape(paths[0], dict(time=t2, lat=lat, lon=lon, values=E2.tolist()), freqs, dd, extra_comment=True)
        d2 = ws.read_obscape(str(paths[0]))
        if tsec(d2.time.values) != [F.secs(t2)]:
            fails.add(f"file rewritten in place: read again gives time {tsec(d2.time.values)}, the file says {[F.secs(t2)]}")
        else:
            cmp_arr(fails, "file rewritten in place: efth", np.asarray(d2.efth.values, dtype=float)[0], np.asarray(said2["values"]) * PI / 180.0,
                    rel=1e-12)
    except Exception as e:
        fails.add(f"file rewritten in place: {type(e).__name__}: {e}")


def case_ww3station(ws, rng, tmp, res, tier):
    nt = rng.choice([1, 2, 3, 5])
    nf = rng.choice([2, 3, 8, 25]) if tier == "quick" else rng.choice([2, 3, 8, 25, 50])
    nd = rng.choice([4, 7, 12, 24, 36])
    nloc = 1 if rng.random() < 0.9 else 2
    freqs = gen_freqs(rng, nf, dec=4)
    # WW3 lists going-to directions, typically starting near 90° − Δ/2 and running clockwise or anticlockwise
    dth = 2 * PI / nd
    start = rng.choice([0.5 * PI - 0.5 * dth, 0.0, 0.5 * dth, 1.2345])
    sense = rng.choice([-1, 1])
    dirs_rad = [(start + sense * j * dth) % (2 * PI) for j in range(nd)]
    times = gen_times(rng, nt, "second")
    okind, perm = gen_order(rng, nt)
    if rng.random() < 0.85:
        okind, perm = "sorted", list(range(nt))
    names = ["44097", "NZ_0001"]
    pos = [(round(rng.uniform(-60, 60), 2), round(rng.uniform(-179, 179) if rng.random() < 0.5 else rng.uniform(0.5, 359.5), 2)) for _ in range(nloc)]
    recs = []
    for k in range(nt):
        st = []
        for s in range(nloc):
            E, kd = gen_spec2d(rng, nd, nf)
            st.append(dict(name=names[s], lat=pos[s][0], lon=pos[s][1], depth=rng.uniform(5, 4000), wspd=rng.uniform(0, 30),
                           wdir=rng.uniform(0, 360), spec=(E * rng.choice([1e-6, 1.0, 40.0])).tolist()))
        recs.append(dict(time=times[perm[k]], stations=st))
    p = tmp / "ww3.spec"
    said = F.enc_ww3_station(p, freqs, dirs_rad, recs)
    res["paths"] = [p]
    res["sig"] = ("ww3station", clsn(nt), okind, clsn(nf), clsn(nd), "nloc%d" % nloc, "cw" if sense < 0 else "acw")
    res["desc"] = dict(nt=nt, nf=nf, nd=nd, nloc=nloc, order=okind)
    res["counts"] += ["ww3station", "order:" + okind, "nloc:%d" % nloc]
    fails = res["fails"]
    try:
        if rng.random() < 0.5:
            ds = ws.read_ww3_station(str(p))
        else:
            with open(p) as fh:
                ds = ws.read_ww3_station(fh)
    except Exception as e:
        trig = "ww3station_several_locations" if nloc > 1 else None
        fails.add(f"{type(e).__name__}: {e}", trig or "crash")
        return
    if nloc > 1:
        fails.add("file with two locations: not compared further", "ww3station_several_locations")
        return
    cmp_arr(fails, "freq", ds.freq.values, said["freqs"], rel=1e-12)
    # going-to radians → coming-from degrees
    exp_dirs = [(math.degrees(x) + 180.0) % 360.0 for x in said["dirs_rad"]]
    gd = np.asarray(ds.dir.values, dtype=float)
    if gd.shape != (nd,) or not all(abs((a - b + 180.0) % 360.0 - 180.0) <= 1e-9 for a, b in zip(gd, exp_dirs)):
        fails.add(f"dir: reader {gd[:4]}… but the file's going-to radians are coming-from {exp_dirs[:4]}…")
    if np.any(gd < 0) or np.any(gd >= 360):
        fails.add("dir outside [0, 360)")
    for nm in ("lat", "lon"):
        cmp_arr(fails, nm, np.asarray(ds[nm].values).ravel(), [said["recs"][0]["stations"][0][nm]], rel=1e-12, scale=1.0)
    got = np.asarray(ds.efth.values, dtype=float).reshape(nt, nf, nd)

    def cmp_record(fails, i, r, trig):
        exp = np.asarray(r["stations"][0]["spec"], dtype=float).T * PI / 180.0
        cmp_arr(fails, f"efth[{i}] (m²/Hz/rad, dir-major → m²/Hz/deg, freq-major)", got[i], exp, rel=1e-12, trigger=trig)
        for nm, key in (("wspd", "wspd"), ("wdir", "wdir"), ("dpt", "depth")):
            cmp_arr(fails, f"{nm}[{i}]", [float(np.asarray(ds[nm].values).ravel()[i])], [r["stations"][0][key]], rel=1e-12, trigger=trig)

    check_records(fails, tsec(ds.time.values), [(F.secs(r["time"]), r) for r in said["recs"]], cmp_record, okind != "sorted")
    r0 = said["recs"][0]
    tg = tsec(ds.time.values)
    line = " ".join(["instr_ww3", enc(PI), str(nf), enc_v(said["dirs_rad"]), enc_m(r0["stations"][0]["spec"], nf)])
    res["reqs"].append((line, dict(kind="ww3", dirs=gd.tolist(), got=got[0].tolist() if okind == "sorted" else None, rel=1e-12)))
    order_request(res, "ww3station", [[F.secs(r["time"]) for r in said["recs"]]], tg, [fingerprint(got[i]) for i in range(nt)],
                  [fingerprint(np.asarray(r["stations"][0]["spec"], dtype=float).T * PI / 180.0) for r in said["recs"]])


def case_swan(ws, rng, tmp, res, tier):
    timed = rng.random() < 0.8
    nt = rng.choice([1, 2, 3, 4]) if timed else 1
    nf = rng.choice([2, 3, 7, 12])
    nd = rng.choice([3, 6, 12, 24, 36])
    cdir = rng.random() < 0.5
    energy = rng.random() < 0.3
    dirorder = rng.random() < 0.8
    as_site = rng.random() < 0.2
    layout = rng.choice(["single", "single", "stations", "stations", "grid_lonmajor", "grid_latmajor", "grid_shuffled", "column"])
    if layout == "single":
        x, y = [rng.uniform(-180, 180)], [rng.uniform(-80, 80)]
    elif layout == "stations":
        n = rng.choice([2, 3, 5])
        x = [round(100 + 1.5 * k + rng.random(), 3) for k in range(n)]
        y = [round(-40 + 2.5 * ((k * 7) % n) + rng.random(), 3) for k in range(n)]
    elif layout == "column":
        n = rng.choice([2, 3])
        x = [150.5] * n
        y = [round(-30 - k * 0.5, 2) for k in range(n)]
        if rng.random() < 0.5:
            y.reverse()
    else:
        nlon, nlat = rng.choice([(2, 2), (2, 3), (3, 2), (3, 3)])
        lons = [round(170 + 0.5 * b, 2) for b in range(nlon)]
        lats = [round(-45 + 0.25 * a, 2) for a in range(nlat)]
        if layout == "grid_lonmajor":
            nodes = [(lo, la) for lo in lons for la in lats]
        elif layout == "grid_latmajor":
            nodes = [(lo, la) for la in lats for lo in lons]
        else:
            nodes = [(lo, la) for lo in lons for la in lats]
            rng.shuffle(nodes)
        x, y = [n[0] for n in nodes], [n[1] for n in nodes]
    nloc = len(x)
    freqs = gen_freqs(rng, nf, dec=4)
    ddeg = 360.0 / nd
    if cdir:
        start = rng.choice([265.0, 270.0 - ddeg / 2, 90.0, 7.5])
        step = rng.choice([-ddeg, ddeg])
        dirs = [start + j * step for j in range(nd)]  # Cartesian, may leave [0,360) as SWAN writes them
    else:
        start = rng.choice([0.0, ddeg / 2, 5.0, 355.0, 180.0])
        step = rng.choice([-ddeg, ddeg])
        dirs = [start + j * step for j in range(nd)]
        if rng.random() < 0.5:
            dirs = [d % 360.0 for d in dirs]
    times = gen_times(rng, nt, "second") if timed else None
    okind, perm = ("sorted", list(range(nt)))
    if timed and nt > 1 and rng.random() < 0.12:
        okind, perm = gen_order(rng, nt)
    blocks = []
    nblk = {"NODATA": 0, "ZERO": 0, "FACTOR": 0}
    for it in range(nt):
        row = []
        for ip in range(nloc):
            r = rng.random()
            if r < 0.12:
                row.append(("NODATA",))
            elif r < 0.24:
                row.append(("ZERO",))
            else:
                E, kd = gen_spec2d(rng, nf, nd)
                mx = float(E.max())
                if mx <= 0:
                    row.append(("ZERO",))
                else:
                    mx *= (E2V if energy else 1.0) * rng.choice([1e-4, 1.0, 1.0, 25.0])
                    fac = mx / rng.choice([9998.0, 9998.0, 99998.0, 990.0])
                    ints = np.round(E / E.max() * mx / fac).astype(int)
                    row.append(("FACTOR", fac, ints.tolist()))
            nblk[row[-1][0]] += 1
        blocks.append(row)
    head = dict(times=[times[i] for i in perm] if timed else None, lonlat=rng.random() < 0.8, x=x, y=y, afreq=rng.random() < 0.8,
                freqs=freqs, cdir=cdir, dirs=dirs, energy=energy, excval=rng.choice([-99.0, -0.99e2, -9.0]))
    p = tmp / ("site1.spec" if rng.random() < 0.7 else "swanout.swn")
    said = F.enc_swan(p, head, blocks)
    res["paths"] = [p]
    res["sig"] = ("swan", "time" if timed else "notime", clsn(nt), layout, "cdir" if cdir else "ndir", "endens" if energy else "vadens",
                  "dirorder" if dirorder else "asis", "as_site" if as_site else "auto", okind,
                  "+".join(k for k, v in sorted(nblk.items()) if v))
    res["desc"] = dict(timed=timed, nt=nt, nf=nf, nd=nd, cdir=cdir, energy=energy, dirorder=dirorder, as_site=as_site, layout=layout,
                       x=x, y=y, order=okind, blocks=nblk)
    res["counts"] += ["swan:" + layout, "swan:" + ("cdir" if cdir else "ndir"), "swan:" + ("endens" if energy else "vadens"),
                      "order:" + okind] + ["swan_block:" + k for k, v in nblk.items() if v]
    fails = res["fails"]
    ds = ws.read_swan(str(p), dirorder=dirorder, as_site=as_site)
    cmp_arr(fails, "freq", ds.freq.values, said["freqs"], rel=1e-12)
    naut = [(270.0 - d) % 360.0 for d in said["dirs"]] if cdir else list(said["dirs"])
    lab = [d % 360.0 for d in naut] if dirorder else naut
    gd = np.asarray(ds.dir.values, dtype=float)
    if dirorder:
        cmp_arr(fails, "dir (sorted)", gd, sorted(lab), rel=1e-12, scale=360.0)
        colof = [int(np.argmin(np.abs(gd - v))) for v in lab]  # file column j is shown under its own label
    else:
        cmp_arr(fails, "dir (file order)", gd, lab, rel=1e-12, scale=360.0)
        colof = list(range(nd))
    uf = E2V if energy else 1.0

    def decode(b):
        if b[0] == "NODATA":
            return np.full((nf, nd), np.nan)
        if b[0] == "ZERO":
            return np.zeros((nf, nd))
        return np.asarray(b[2], dtype=float) * b[1] / uf  # file units → m²/Hz/deg

    def placed(arr):
        out = np.empty_like(arr)
        out[:, colof] = arr
        return out

    lonmajor_sorted = [(lo, la) for lo in sorted(set(said["x"])) for la in sorted(set(said["y"]))]
    is_grid_like = len(set(said["x"])) * len(set(said["y"])) == nloc
    trig_grid = "swan_grid_layout" if (is_grid_like and nloc > 1 and not as_site and list(zip(said["x"], said["y"])) != lonmajor_sorted) else None
    got = ds.efth
    if not timed:
        if ds.time.size != 1:
            fails.add(f"file without time stamps returned {ds.time.size} times")

    def cmp_record(fails, i, blks, trig):
        for k, b in enumerate(blks):
            exp = placed(decode(b))
            if "site" in got.dims:
                g = np.asarray(got.isel(time=i, site=k).values, dtype=float)
                for nm, v in (("lon", said["x"][k]), ("lat", said["y"][k])):
                    cmp_arr(fails, f"{nm}[site {k}]", [float(ds[nm].values[k])], [v], rel=1e-12, scale=1.0)
            else:
                try:
                    g = np.asarray(got.isel(time=i).sel(lon=said["x"][k], lat=said["y"][k]).values, dtype=float)
                except KeyError:
                    fails.add(f"position ({said['x'][k]}, {said['y'][k]}) of the header not found in lon/lat coordinates", trig)
                    continue
            cmp_arr(fails, f"efth[time {i}, location {k} at ({said['x'][k]}, {said['y'][k]})]", g, exp, rel=1e-12,
                    trigger=trig or trig_grid, scale=max(float(np.nanmax(np.abs(exp))) if np.any(~np.isnan(exp)) else 0.0, 1e-300))

    if timed:
        check_records(fails, tsec(ds.time.values), [(F.secs(t), said["blocks"][k]) for k, t in enumerate(said["times"])], cmp_record,
                      okind != "sorted")
    else:
        cmp_record(fails, 0, said["blocks"][0], None)
    # model: header directions, dirmap, unit factor and the block state machine on the first time step
    blk = said["blocks"][0][:4]
    toks = []
    for b in blk:
        toks.append("nodata" if b[0] == "NODATA" else "zero" if b[0] == "ZERO" else "factor %s %s" % (enc(b[1]), enc_im(b[2], nd)))
    line = " ".join(["instr_swan", "1" if dirorder else "0", "1" if cdir else "0", "1" if energy else "0", enc(E2V), str(nf),
                     enc_v(said["dirs"]), str(len(blk))] + toks)
    gblocks = []
    if okind == "sorted":
        for k in range(len(blk)):
            if "site" in got.dims:
                gblocks.append(np.asarray(got.isel(time=0, site=k).values, dtype=float).tolist())
            else:
                gblocks.append(np.asarray(got.isel(time=0).sel(lon=said["x"][k], lat=said["y"][k]).values, dtype=float).tolist())
    res["reqs"].append((line, dict(kind="swan", dirs=gd.tolist(), blocks=gblocks, rel=1e-12)))
    if "site" not in got.dims and nloc > 1:
        nlat, nlon = ds.lat.size, ds.lon.size
        ux, uy = sorted(set(said["x"])), sorted(set(said["y"]))
        fps = [[fingerprint(got.isel(time=0, lat=a, lon=b).values) for b in range(nlon)] for a in range(nlat)]
        t0 = int(np.argmin([F.secs(t) for t in said["times"]])) if timed else 0
        res["reqs"].append(("instr_gridpos %d %d %s %s" % (nlat, nlon, enc_iv([ux.index(v) for v in said["x"]]),
                                                          enc_iv([uy.index(v) for v in said["y"]])),
                            dict(kind="gridpos", nlat=nlat, nlon=nlon, got_fps=fps,
                                 file_fps=[fingerprint(placed(decode(b))) for b in said["blocks"][t0]])))
    if timed:
        order_request(res, "swan", [[F.secs(t) for t in said["times"]]], tsec(ds.time.values), None, None)


def case_xwaves(ws, rng, tmp, res, tier):
    nt = rng.choice([1, 2, 4])
    nf = rng.choice([2, 5, 9])
    nd = rng.choice([4, 12, 24])
    freqs = gen_freqs(rng, nf, dec=4)
    dirs = [j * 360.0 / nd for j in range(nd)]
    times = gen_times(rng, nt, "second")
    okind, perm = ("sorted", list(range(nt)))
    if nt > 1 and rng.random() < 0.15:
        okind, perm = gen_order(rng, nt)
    spec = [gen_spec2d(rng, nf, nd)[0].tolist() for _ in range(nt)]
    p = tmp / "xw.mat"
    td_dtype = rng.choice(["int32", "int16", "uint16", "float64"])  # MATLAB's datevec is of class double
    said = F.enc_xwaves(p, [times[i] for i in perm], freqs, dirs, spec, td_dtype=td_dtype)
    res["paths"] = [p]
    res["sig"] = ("xwaves", clsn(nt), okind, clsn(nf), clsn(nd), td_dtype)
    res["desc"] = dict(nt=nt, nf=nf, nd=nd, order=okind, td_dtype=td_dtype)
    res["counts"] += ["xwaves", "order:" + okind, "xwaves_td:" + td_dtype]
    fails = res["fails"]
    try:
        ds = ws.read_xwaves(str(p))
    except TypeError as e:
        fails.add(f"TypeError: {e} (td stored as {td_dtype})", "xwaves_td_double" if td_dtype == "float64" else "crash")
        return
    cmp_arr(fails, "freq", ds.freq.values, said["freqs"], rel=1e-12)
    cmp_arr(fails, "dir", ds.dir.values, said["dirs"], rel=1e-12)
    got = np.asarray(ds.efth.values, dtype=float)

    def cmp_record(fails, i, k, trig):
        cmp_arr(fails, f"efth[{i}] (per radian → per degree)", got[i], np.asarray(said["spec"][k]) * PI / 180.0, rel=1e-12, trigger=trig)

    check_records(fails, tsec(ds.time.values), [(F.secs(t), k) for k, t in enumerate(said["times"])], cmp_record, okind != "sorted")
    if okind == "sorted":
        res["reqs"].append((" ".join(["instr_units", "xwaves", enc(PI), enc_m(said["spec"][0], nd)]),
                            dict(kind="matrix", got=got[0].tolist(), rel=1e-12)))
    order_request(res, "xwaves", [[F.secs(t) for t in said["times"]]], tsec(ds.time.values), [fingerprint(got[i]) for i in range(nt)],
                  [fingerprint(np.asarray(s) * PI / 180.0) for s in said["spec"]])


CASES = {"triaxys": case_triaxys, "ndbc": case_ndbc, "spotter_csv": lambda *a: case_spotter(*a, "csv"),
         "spotter_json": lambda *a: case_spotter(*a, "json"), "datawell": case_datawell, "obscape": case_obscape,
         "ww3station": case_ww3station, "swan": case_swan, "xwaves": case_xwaves}


def make_case(args):
    seed, icase, tier = args
    rng = case_rng("C13", seed, icase)
    fmt = FORMATS[icase % len(FORMATS)]
    ws = import_ws()
    res = new_result(fmt)
    tmp = BUILD / "tmp" / ("c13_%d_%d_%d" % (os.getpid(), seed, icase))
    shutil.rmtree(tmp, ignore_errors=True)
    tmp.mkdir(parents=True)
    try:
        if icase % 3 == 0:
            # the same paths first held OTHER files of this format, which the readers were asked to read (a reader that remembers
            # what it found at a path must not serve it again once the file has changed)
            try:
                CASES[fmt](ws, case_rng("C13-decoy", seed, icase), tmp, new_result(fmt), tier)
            except Exception:
                pass
            shutil.rmtree(tmp, ignore_errors=True)
            tmp.mkdir(parents=True)
        try:
            CASES[fmt](ws, rng, tmp, res, tier)
        except Exception as e:
            res["fails"].add(f"{type(e).__name__}: {e} | {traceback.format_exc().splitlines()[-3].strip()}", "crash")
        if res["fails"]:
            res["files"] = file_texts(res["paths"])
    finally:
        shutil.rmtree(tmp, ignore_errors=True)
    res["paths"] = [os.path.basename(str(p)) for p in res["paths"]]
    res["fails"] = list(res["fails"])
    res["icase"] = icase
    return res


# ------------------------------------------------------------------------------------------------
# encoder validation against the repository's sample files
# ------------------------------------------------------------------------------------------------
def validate_encoders(ck, ws):
    """A real sample file parsed by the reader, re-encoded by the reference encoder from the parsed content and parsed
    again must give the same dataset: ties each encoder's layout to a real file of the format."""
    import xarray as xr

    tmp = BUILD / "tmp" / ("c13_samples_%d" % os.getpid())
    shutil.rmtree(tmp, ignore_errors=True)
    tmp.mkdir(parents=True)
    done = []

    def same(name, a, b, rel=1e-9):
        ok = True
        for v in ("efth",):
            x, y = np.asarray(a[v].values, dtype=float), np.asarray(b[v].values, dtype=float)
            if x.shape != y.shape or not np.allclose(x, y, rtol=rel, atol=rel * max(float(np.nanmax(np.abs(x))), 1e-300), equal_nan=True):
                ok = False
        for c in ("time", "freq", "dir"):
            if (c in a.coords) != (c in b.coords):
                ok = False
            elif c in a.coords:
                if c == "time":
                    ok = ok and tsec(a[c].values) == tsec(b[c].values)
                else:
                    ok = ok and a[c].shape == b[c].shape and np.allclose(np.asarray(a[c].values, float), np.asarray(b[c].values, float), rtol=1e-6)
        if not ok:
            ck.disagree("encoder-validation", f"{name}: sample re-encoded by the reference encoder is not read back identically", dict(sample=name))
        done.append(name)

    def ptime(t):
        return dt.datetime.utcfromtimestamp(int(np.datetime64(t, "s").astype("int64")))

    try:
        # TRIAXYS
        for fn, directional in (("triaxys.DIRSPEC", True), ("triaxys.NONDIRSPEC", False)):
            a = ws.read_triaxys(str(SAMPLES / fn))
            f = [float(x) for x in a.freq.values]
            rec = dict(time=ptime(a.time.values[0]), directional=directional, f0=f[0], df=f[1] - f[0], nf=len(f),
                       ddir=float(a.dir.values[1] - a.dir.values[0]) if directional else None, values=a.efth.values[0].tolist())
            F.enc_triaxys(tmp / fn, rec, prec="%.10E")
            same(fn, a, ws.read_triaxys(str(tmp / fn)))
        # NDBC: each component file read alone is a "1-D spectrum"
        for variant, files in (("realtime", ["41010.data_spec", "41010.swdir", "41010.swdir2", "41010.swr1", "41010.swr2"]),
                               ("history", ["41010w2019part.txt.gz", "41010d2019part.txt.gz", "41010i2019part.txt.gz",
                                            "41010j2019part.txt.gz", "41010k2019part.txt.gz"]),
                               ("history_old", ["44004w2000.txt"])):
            parts = [ws.read_ndbc_ascii(str(SAMPLES / "ndbc" / fn)) for fn in files]
            times = [ptime(t) for t in parts[0].time.values][::-1]
            comps = {k: np.asarray(p.efth.values[::-1, :, 0], dtype=float).tolist() for k, p in zip(F.NDBC_KINDS, parts)}
            sep = [float(x) for x in parts[0]["Sep_Freq"].values[::-1]] if "Sep_Freq" in parts[0] else None
            d = tmp / ("ndbc_" + variant)
            d.mkdir()
            paths, _ = F.enc_ndbc(d, "41010", variant, times, [float(x) for x in parts[0].freq.values], comps, sepfreq=sep,
                                  gz=variant == "history", r_scaled=False, full=True)
            if len(files) == 5:
                same("ndbc-" + variant, ws.read_ndbc_ascii([str(SAMPLES / "ndbc" / fn) for fn in files]), ws.read_ndbc_ascii([str(p) for p in paths]))
            else:
                same("ndbc-" + variant, parts[0], ws.read_ndbc_ascii(str(paths[0])))
        # Spotter
        for fn, kind in (("spotter_20210929b.csv", "csv"), ("spotter_20180214.json", "json")):
            a = ws.read_spotter(str(SAMPLES / fn), dd=None)
            recs = [dict(time=ptime(t), lat=float(a.lat.values[i]), lon=float(a.lon.values[i]), hs=float(a.hs.values[i]),
                         ef=a.efth.values[i].tolist(), dm=a.dmf.values[i].tolist(), dspr=a.dsprf.values[i].tolist())
                    for i, t in enumerate(a.time.values)]
            p = tmp / ("re_" + fn)
            if kind == "csv":
                F.enc_spotter_csv(p, recs, [float(x) for x in a.freq.values], full=True)
            else:
                F.enc_spotter_json(p, recs, [float(x) for x in a.freq.values])
            same(fn + " (1d)", a, ws.read_spotter(str(p), dd=None))
            same(fn + " (2d)", ws.read_spotter(str(SAMPLES / fn), dd=10.0), ws.read_spotter(str(p), dd=10.0))
        # Datawell
        d = tmp / "dw"
        d.mkdir()
        a = ws.read_datawell(str(SAMPLES / "datawell" / "*.spt"), dd=None)
        for i, t in enumerate(a.time.values):
            smax = float(a.smax.values[i])
            F.enc_datawell(d, dict(time=ptime(t), hs_cm=float(a.hs.values[i]) * 100, smax=smax, rel=(a.efth.values[i] / smax).tolist(),
                                   dm=a.dmf.values[i].tolist(), dspr=a.dsprf.values[i].tolist()), [float(x) for x in a.freq.values], full=True)
        same("datawell (1d)", a, ws.read_datawell(str(d / "*.spt"), dd=None))
        same("datawell (2d)", ws.read_datawell(str(SAMPLES / "datawell" / "*.spt"), dd=5.0), ws.read_datawell(str(d / "*.spt"), dd=5.0))
        # Obscape (the two samples have different frequency grids: one at a time)
        for fn in sorted(os.listdir(SAMPLES / "obscape")):
            a = ws.read_obscape(str(SAMPLES / "obscape" / fn))
            F.enc_obscape(tmp / fn, dict(time=ptime(a.time.values[0]), lat=float(a.attrs["Latitude [deg]"]), lon=float(a.attrs["Longitude [deg]"]),
                                         values=(a.efth.values[0] * 180.0 / PI).tolist()), [float(x) for x in a.freq.values],
                          float(a.dir.values[1] - a.dir.values[0]), full=True)
            same("obscape " + fn, a, ws.read_obscape(str(tmp / fn)))
        # WW3 station
        a = ws.read_ww3_station(str(SAMPLES / "ww3station.spec"))
        dirs_rad = [math.radians((float(x) + 180.0) % 360.0) for x in a.dir.values]
        recs = []
        for i, t in enumerate(a.time.values):
            recs.append(dict(time=ptime(t), stations=[dict(name="44097", lat=float(a.lat.values.ravel()[0]), lon=float(a.lon.values.ravel()[0]),
                                                          depth=float(a.dpt.values.ravel()[i]), wspd=float(a.wspd.values.ravel()[i]),
                                                          wdir=float(a.wdir.values.ravel()[i]),
                                                          spec=(np.asarray(a.efth.values[i, 0, 0]).T * 180.0 / PI).tolist())]))
        F.enc_ww3_station(tmp / "ww3.spec", [float(x) for x in a.freq.values], dirs_rad, recs, full=True)
        same("ww3station", a, ws.read_ww3_station(str(tmp / "ww3.spec")))
        # SWAN
        a = ws.read_swan(str(SAMPLES / "swanfile.spec"))
        blocks = []
        for i in range(a.time.size):
            E = np.asarray(a.efth.values[i, 0, 0], dtype=float)
            fac = float(E.max()) / 999990.0
            blocks.append([("FACTOR", fac, np.round(E / fac).astype(int).tolist())] if E.max() > 0 else [("ZERO",)])
        head = dict(times=[ptime(t) for t in a.time.values], lonlat=True, x=[float(a.lon.values[0])], y=[float(a.lat.values[0])], afreq=True,
                    freqs=[float(x) for x in a.freq.values], cdir=False, dirs=[float(x) for x in a.dir.values], energy=False)
        F.enc_swan(tmp / "re_swanfile.spec", head, blocks)
        same("swanfile.spec", a, ws.read_swan(str(tmp / "re_swanfile.spec")), rel=2e-6)
    finally:
        shutil.rmtree(tmp, ignore_errors=True)
    return done


# ------------------------------------------------------------------------------------------------
# model responses vs reader
# ------------------------------------------------------------------------------------------------
def mat_close(got, model, rel, scale=None):
    g = np.asarray(got, dtype=float)
    m = np.array([[np.nan if x is None else float(x) for x in r] for r in model], dtype=float) if len(model) else np.zeros((0, 0))
    if g.shape != m.shape:
        return False, f"shape {g.shape} vs model {m.shape}"
    if not np.array_equal(np.isnan(g), np.isnan(m)):
        return False, "NaN pattern"
    g0, m0 = np.nan_to_num(g), np.nan_to_num(m)
    sc = scale if scale is not None else max(float(np.abs(m0).max()) if m0.size else 0.0, 1e-300)
    err = np.abs(g0 - m0)
    if err.size and float(err.max()) > rel * sc + 1e-300:
        k = int(np.argmax(err))
        return False, f"reader {g0.ravel()[k]!r} model {m0.ravel()[k]!r} at {k}"
    return True, ""


def compare_model(ck, res, ctx, resp):
    fmt = res["fmt"]
    case = dict(format=fmt, icase=res["icase"], **res["desc"])
    st, mo = parse_resp(resp)
    kind = ctx["kind"]
    trig = None
    known_trigs = {f["trigger"] for f in res["fails"] if f["trigger"]}
    if kind == "order":
        if st != "ok":
            ck.disagree("order", f"model {mo}", case)
            return
        if mo["times"] != ctx["got_times"]:
            ck.disagree("order", f"time axis: reader {ctx['got_times'][:6]} model {mo['times'][:6]}", case, trigger=None)
            return
        if ctx["got_fps"] is not None:
            for i, k in enumerate(mo["idx"]):
                if not fp_close(ctx["got_fps"][i], ctx["exp_fps"][k]):
                    if "ndbc_history_r1r2_in_hundredths" in known_trigs:
                        continue
                    ck.disagree("order", f"record {i} of the reader is not the file's record {k} the model predicts", case)
                    break
        ck.count("model:order")
        return
    if st != "ok":
        ck.disagree(kind, f"model error {mo}", case)
        return
    if kind == "triaxys_grid":
        mf = [float(x) for x in mo["freqs"]]
        if not fp_close(ctx["freq"], mf, 1e-12):
            ck.disagree("triaxys_grid", f"freq reader {ctx['freq'][:4]} model {mf[:4]}", case)
        if ctx["dir"] is not None and not fp_close(ctx["dir"], [float(x) for x in mo["dirs"]], 1e-12):
            ck.disagree("triaxys_grid", f"dir reader {ctx['dir'][:4]}… model {[float(x) for x in mo['dirs']][:4]}…", case)
        ck.count("model:triaxys_grid")
    elif kind == "vector":
        ok, why = mat_close([ctx["got"]], [mo["e"]], ctx["rel"])
        if not ok:
            ck.disagree("oned_request", why, case)
        ck.count("model:oned_request")
    elif kind == "matrix":
        ok, why = mat_close(ctx["got"], mo["e"], ctx["rel"])
        if not ok:
            ck.disagree(fmt + ":values", why, case)
        if "oned" in mo and ctx.get("oned") is not None:
            ok, why = mat_close([ctx["oned"]], [mo["oned"]], 1e-9, scale=max(max(map(abs, ctx["oned"])), 1e-300))
            if not ok:
                ck.disagree(fmt + ":integral", "model's direction integral is not the file's 1-D spectrum: " + why, case)
        elif "oned" in mo and ctx.get("oned_general") is not None:
            ok, why = mat_close([ctx["oned_general"]], [mo["oned"]], 1e-9, scale=max(max(map(abs, ctx["oned_general"])), 1e-300))
            if not ok:
                ck.disagree(fmt + ":integral", "model's direction integral is not efth·n·dd/360: " + why, case)
        ck.count("model:" + fmt)
    elif kind == "ww3":
        md = [float(x) for x in mo["dirs"]]
        if len(md) != len(ctx["dirs"]) or not all(abs((a - b + 180.0) % 360.0 - 180.0) <= 1e-9 for a, b in zip(ctx["dirs"], md)):
            ck.disagree("ww3:dirs", f"reader {ctx['dirs'][:4]} model {md[:4]}", case)
        if ctx["got"] is not None:
            ok, why = mat_close(ctx["got"], mo["e"], ctx["rel"])
            if not ok:
                ck.disagree("ww3:values", why, case)
        ck.count("model:ww3station")
    elif kind == "swan":
        md = [float(x) for x in mo["dirs"]]
        if not fp_close(ctx["dirs"], md, 1e-12):
            ck.disagree("swan:dirs", f"reader {ctx['dirs'][:4]} model {md[:4]}", case)
        for k, g in enumerate(ctx["blocks"]):
            ok, why = mat_close(g, mo[f"b{k}"], ctx["rel"])
            if not ok:
                ck.disagree("swan:block", f"block {k}: {why}", case)
        ck.count("model:swan")
    elif kind == "gridpos":
        pos = mo["pos"]
        ffp = ctx["file_fps"]
        nanfp = fingerprint(np.full((1,), np.nan))
        for a in range(ctx["nlat"]):
            for b in range(ctx["nlon"]):
                k = pos[a * ctx["nlon"] + b]
                g = ctx["got_fps"][a][b]
                if k < 0:
                    if g[0] >= 0:  # fingerprint of an all-NaN spectrum has a negative sum
                        ck.disagree("swan:gridpos", f"(lat {a}, lon {b}) has data but the model predicts no location there", case)
                        return
                elif k >= len(ffp) or not fp_close(g, ffp[k]):
                    ck.disagree("swan:gridpos", f"(lat {a}, lon {b}) is not file location {k} as the model predicts", case)
                    return
        ck.count("model:swan_gridpos")


def swanow_cases(ck):
    """`read_swanow` (SWAN nowcast files read together): the union of the records sorted by time; where the files overlap in
    time the record of the most recent file (last in name order) is returned.  Reference = `read_swan` of each file."""
    import shutil
    import tempfile
    import xarray as xr
    from wavespectra.input.swan import read_swan, read_swanow

    rng = ck.rng
    for it in range(5 if ck.tier == "quick" else 60):
        tmp = Path(tempfile.mkdtemp(prefix="c13now_"))
        try:
            nfile, nf, nd = rng.choice([2, 2, 3]), rng.choice([3, 5]), rng.choice([4, 8])
            freq = np.round(0.05 * 1.2 ** np.arange(nf), 4)
            dirs = np.arange(nd) * (360.0 / nd)
            t0 = np.datetime64("2021-03-01T00:00:00")
            paths, starts, lens = [], [], []
            for k in range(nfile):
                start = (starts[-1] + rng.randint(1, lens[-1])) if k else 0  # overlaps the previous file
                n = rng.randint(2, 4)
                starts.append(start); lens.append(n)
                times = (t0 + (start + np.arange(n)) * np.timedelta64(3600, "s")).astype("datetime64[ns]")
                E = np.array([[[[round(rng.uniform(0.001, 2.0), 4) for _ in range(nd)] for _ in range(nf)]] for _ in range(n)])
                ds = xr.DataArray(E, dims=("time", "site", "freq", "dir"), coords=dict(time=times, site=[1], freq=freq, dir=dirs), name="efth").to_dataset()
                ds["lon"] = (("site",), [170.25]); ds["lat"] = (("site",), [-40.5])
                p = tmp / ("now_%04d.spec" % k)
                ds.spec.to_swan(str(p))
                paths.append(str(p))
            parts = [read_swan(p) for p in paths]
            got = read_swanow(paths)
            want = {}
            for part in parts:   # later files overwrite earlier ones
                for i, t in enumerate(part.time.values):
                    want[t] = np.asarray(part.efth.isel(time=i).values, dtype=float)
            wt = sorted(want)
            case = dict(files=nfile, starts=starts, lengths=lens, nf=nf, nd=nd)
            ck.case(("read_swanow", nfile, nf, nd), True, sample=dict(op="read_swanow", **case))
            gt = list(got.time.values)
            if gt != wt:
                ck.fail("read_swanow", f"times {[str(t)[:16] for t in gt]} instead of the sorted union {[str(t)[:16] for t in wt]}", case, "swanow_times")
                continue
            bad = [str(t)[:16] for i, t in enumerate(gt) if not np.array_equal(np.asarray(got.efth.isel(time=i).values, dtype=float).reshape(want[t].shape), want[t])]
            if bad:
                ck.fail("read_swanow", f"records at {bad} are not those of the most recent file that holds them", case, "swanow_overlap")
        except Exception as e:
            ck.fail("read_swanow", f"raised {type(e).__name__}: {e}", dict(it=it), "crash")
        finally:
            shutil.rmtree(tmp, ignore_errors=True)


def run_check():
    ck = Check("C13")
    ck.extra["rule"] = ("one case = one set of files of one format written by the reference encoder and read by the real reader; "
                        "signature = (format, header variant, 1-D/2-D, number of files/records class, record order, layout/units/"
                        "block kinds …); non-trivial = every generated case (contents are random, never empty)")
    ck.do_audit()
    ws = import_ws()
    have = {f: hasattr(ws, OPNAME[f]) for f in FORMATS}
    missing = [f for f, ok in have.items() if not ok]
    done = validate_encoders(ck, ws)
    ck.extra["encoders_validated_on_samples"] = done
    n = 540 if ck.tier == "quick" else 13500
    todo = [(ck.seed, i, ck.tier) for i in range(n) if FORMATS[i % len(FORMATS)] not in missing]
    replay = os.environ.get("VERIF_REPLAY")
    if replay:
        import json

        rp = json.loads(open(replay).read())
        todo = sorted({(int(x["case"].get("seed", rp.get("seed", ck.seed))), int(x["case"]["icase"]), rp.get("tier", ck.tier))
                       for x in rp.get("failures", []) + rp.get("disagreements", []) if "icase" in x.get("case", {})})
        print(f"replaying {len(todo)} case(s) of {replay} against {REPO}", flush=True)
    results = pmap(make_case, todo)
    reqs, owners = [], []
    for res in results:
        ck.case(res["sig"], res["nontrivial"], sample=dict(format=res["fmt"], files=res["paths"], **res["desc"]))
        ck.count("format:" + res["fmt"])
        for c in res["counts"]:
            ck.count(c)
        case = dict(format=res["fmt"], icase=res["icase"], seed=ck.seed, **res["desc"])
        seen = set()
        for f in res["fails"]:
            key = (f["op"], f["trigger"])
            if key in seen and f["trigger"]:
                continue
            seen.add(key)
            ck.fail(f["op"], f["what"], dict(case, files=res.get("files")), f["trigger"])
        for line, ctx in res["reqs"]:
            reqs.append(line)
            owners.append((res, ctx))
    resps = run_driver(reqs) if reqs else []
    for (res, ctx), resp in zip(owners, resps):
        compare_model(ck, res, ctx, resp)
    swanow_cases(ck)
    ck.assumptions = [
        "tokenisation, float()/strptime/dateutil/pandas/json/loadmat parsing are not modelled in Lean: carried by the differential "
        "comparison against the reference encoders (DESIGN §1.5-3)",
        "trig/power tables (cos(½Δθ)^(2s), cos(θ−α1), cos 2(θ−α2)) and π are supplied to the model by the harness from the published formulas",
        "file side compared at the printing precision of each format (the encoder returns the value of every token it printed); "
        "reader vs file 1e-12 relative (NDBC frequencies 2e-7: stored as float32), constructed 2-D spectra and their direction integrals 1e-9",
        "triggers of repaired findings (triaxys_arange_float_length, unsorted_records, swan_grid_layout, ndbc_history_r1r2_in_hundredths, "
        "xwaves_td_double) are still computed: a regression would be reported as a VIOLATION since 'fixed' entries suppress nothing",
        "XWaves files are written with scipy.io.savemat (MATLAB level 5), date vectors as integers; no sample file of the format exists in the repository",
    ] + ([f"readers not importable in this environment, skipped: {missing}"] if missing else [])
    return ck.finish()


if __name__ == "__main__":
    from ..common import main_wrapper

    main_wrapper(run_check)

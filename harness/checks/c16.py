"""C16 — smoothing is a local circular average that keeps the grid (DESIGN §3 C16).

Every case is a plain dict (replayable on its own: `./check C16 --replay replays/C16-….json`).  `evaluate(case)`
runs the implementation, builds the model requests, and applies the property's direct oracle, which is written
in the space of direction LABELS (both input and output sorted by their own `dir` coordinate) with numpy only —
it never looks at the Lean model.
"""
import json
import math
import os
from fractions import Fraction

import numpy as np

from .. import gen
from ..common import ROOT, Check, case_rng, enc_m, enc_v, fr, import_ws, log, parse_resp, pmap, run_driver

FULL_ND = [2, 3, 4, 5, 6, 8, 9, 10, 12, 15, 16, 18, 20, 24, 32, 36]
VALUE_OP = "smooth:values"      # bounds / window mean / identity / shift commutation
COORD_OP = "smooth:coords"      # dimensions, coordinates, order
SIDE_OP = "smooth:side-variable-dims"
EVEN_OP = "smooth:even-window"
CRASH_OP = "smooth:crash"
# which labelling the model uses in step (3): "code" = Model/Smooth.lean `codeSortedLabels` (tied to the source by
# WS.C16.tie_smooth_source); "0"/"1" force the unrepaired/repaired variant (for trying a candidate patch before flipping)
MODEL_VARIANT = os.environ.get("VERIF_C16_MODEL", "code")


# ------------------------------------------------------------------------------------------------
# generation
# ------------------------------------------------------------------------------------------------
def representable32(d):
    d = np.asarray(d, dtype=float)
    return bool(np.array_equal(d.astype(np.float32).astype(float), d))


def gen_grid(rng, nd):
    """Sorted direction labels and the generator's name for the grid."""
    if nd == 1:
        return np.array([float(rng.choice([0, 45, 200, 359]))]), "single"
    kind = rng.choice(["full", "full", "full", "partial", "partial", "nearfull", "irregular", "ugly"])
    if kind in ("full", "nearfull"):
        m = nd if nd in FULL_ND else min(FULL_ND, key=lambda x: abs(x - nd))
        dd = 360.0 / m
        start = rng.choice([0.0, dd / 2, dd / 4, -180.0, float(rng.randint(0, max(0, int(dd) - 1)))])
        d = start + dd * np.arange(m)
        if not representable32(d):
            d = dd * np.arange(m)
        if kind == "nearfull" and m > 2:
            d = d[:-1]          # one bin missing: uniform, but 360 − span = 2·dd
        return d, kind
    if kind == "partial":
        dd = rng.choice([0.5, 1.0, 2.5, 5.0, 7.5, 10.0, 15.0, 22.5])
        while dd * (nd + 1) > 360:
            dd /= 2
        start = float(rng.randint(0, int(360 - dd * (nd + 1))))
        return start + dd * np.arange(nd), kind
    if kind == "irregular":
        steps = [rng.choice([5.0, 10.0, 15.0]) for _ in range(nd - 1)]
        if len(set(steps)) == 1:
            steps[-1] = 20.0 if nd > 2 else steps[-1]
        d = float(rng.randint(0, 20)) + np.concatenate([[0.0], np.cumsum(steps)])
        return d, kind
    # "ugly": spacing not exactly representable — outside the property's quantifier, kept for the correspondence
    if rng.random() < 0.6:
        m = rng.choice([7, 11, 13, 14]) if nd > 6 else 7
        return np.arange(m) * (360.0 / m), "ugly"
    return 0.1 * np.arange(1, nd + 1), "ugly"


def store_order(rng, d):
    n = len(d)
    if n == 1:
        return d, "sorted"
    order = rng.choice(["sorted", "sorted", "sorted", "rotated", "rotated", "reversed", "shuffled"])
    if order == "rotated":
        return np.roll(d, -rng.randint(1, n - 1)), order
    if order == "reversed":
        return d[::-1].copy(), order
    if order == "shuffled":
        p = list(range(n))
        rng.shuffle(p)
        return d[p], ("shuffled" if p != sorted(p) else "sorted")
    return d, order


def odd_upto(rng, n):
    return rng.choice([w for w in range(1, max(1, n) + 1, 2)])


def gen_case(seed, icase):
    rng = case_rng("C16", seed, icase)
    nf = rng.choice([1, 2, 3, 4, 5, 6, 7, 9, 12])
    nd0 = rng.choice([1, 2, 3, 4, 5, 6, 8, 9, 12, 16, 24])
    ds, gridkind = gen_grid(rng, nd0)
    dirs, order = store_order(rng, ds)
    nd = len(dirs)
    wkind = rng.choice(["odd"] * 16 + ["one", "max", "over", "even", "even"])
    if wkind == "odd":
        fw, dw = odd_upto(rng, nf), odd_upto(rng, nd)
    elif wkind == "one":
        fw, dw = 1, 1
    elif wkind == "max":
        fw, dw = max(w for w in range(1, nf + 1, 2)), max(w for w in range(1, nd + 1, 2))
    elif wkind == "over":   # beyond the grid size: outside the quantifier, correspondence + universal clauses only
        fw, dw = rng.choice([odd_upto(rng, nf), nf + 1 + (nf % 2)]), rng.choice([nd + 1 + (nd % 2), 2 * nd + 1, 3 * nd + 2 - (nd % 2)])
    else:
        fw, dw = rng.choice([(2, 3), (3, 2), (4, 4), (0, 1), (1, 0), (2, 1), (6, 5), (odd_upto(rng, nf), 2 * rng.randint(1, 4))])
    exact = rng.random() < 0.7
    dtype = "float64" if rng.random() < 0.7 else "float32"
    nextra = rng.choice([0, 0, 0, 1, 1, 1, 2, 2, 3])
    names = rng.sample(["time", "site", "lat"], nextra)
    shape = [rng.randint(1, 3) for _ in names]
    npos = int(np.prod(shape)) if shape else 1
    Es, kinds = [], []
    for _ in range(npos):
        E, kind = gen.gen_spectrum(rng, nf, nd, exact=exact)
        if rng.random() < 0.1:
            E = E - rng.choice([1.0, 0.5])        # negative values: the value clauses are about any numbers
            kind += "-neg"
        Es.append(E)
        kinds.append(kind)
    arr = np.array(Es).reshape(tuple(shape) + (nf, nd)).astype(dtype)
    dims = names + ["freq", "dir"]
    if rng.random() < 0.35:
        perm = list(range(len(dims)))
        rng.shuffle(perm)
        arr = np.transpose(arr, perm)
        dims = [dims[p] for p in perm]
    freq, _ = gen.gen_freq(rng, nf)
    dirdtype = rng.choice(["float64"] * 6 + ["float32", "int64"])
    if dirdtype == "int64" and not np.array_equal(np.round(dirs), dirs):
        dirdtype = "float64"
    if dirdtype == "float32" and not representable32(dirs):
        dirdtype = "float64"
    container = rng.choice(["DataArray"] * 3 + ["Dataset", "Dataset+side"])
    entry = rng.choice(["accessor", "function"])
    return dict(icase=icase, nf=nf, nd=nd, gridkind=gridkind, order=order, wkind=wkind, fw=fw, dw=dw, dtype=dtype,
                dims=dims, shape=[int(x) for x in arr.shape], freq=[float(x) for x in freq], dirs=[float(x) for x in dirs],
                dirdtype=dirdtype, E=arr.astype(float).tolist(), kinds=kinds[:4], exact=exact, container=container,
                entry=entry, shift=rng.randint(1, max(1, nd - 1)), extra_coords=rng.random() < 0.3)


# ------------------------------------------------------------------------------------------------
# implementation side
# ------------------------------------------------------------------------------------------------
def build_obj(case, E=None):
    import xarray as xr

    arr = np.asarray(case["E"] if E is None else E, dtype=case["dtype"])
    coords = {}
    for n, k in zip(case["dims"], arr.shape):
        if n == "freq":
            coords[n] = np.asarray(case["freq"], dtype=float)
        elif n == "dir":
            coords[n] = np.asarray(case["dirs"], dtype=float).astype(case["dirdtype"])
        else:
            coords[n] = np.arange(k, dtype=float) * 10.0
    da = xr.DataArray(arr, dims=case["dims"], coords=coords, name="efth")
    if case.get("extra_coords"):
        da = da.assign_coords(station=7.0)
        if "site" in da.dims:
            da = da.assign_coords(lon=("site", np.arange(da.sizes["site"]) + 100.0))
    if case["container"] == "DataArray":
        return da
    ds = da.to_dataset(name="efth")
    if case["container"] == "Dataset+side":
        lead = [d for d in case["dims"] if d not in ("freq", "dir")]
        ds["wspd"] = (tuple(lead), np.ones([da.sizes[d] for d in lead]) * 5.0)
    return ds


def call_impl(case, obj):
    from wavespectra.core.utils import smooth_spec

    if case["entry"] == "accessor":
        import zlib

        arr = spectrum_of(obj)
        if isinstance(arr.variable._data, np.ndarray) and zlib.crc32(np.ascontiguousarray(arr.values).tobytes()) % 4 == 0:
            # one accessor call in four: the object was smoothed once with the same windows while it held other values, then
            # overwritten in place; what it returns now is the smoothing of what it holds now
            real = np.array(arr.values, copy=True)
            try:
                arr.values[...] = np.flip(real, axis=arr.get_axis_num("freq")) * 0.5 + 1.0
                obj.spec.smooth(freq_window=case["fw"], dir_window=case["dw"])
            except Exception:
                pass
            arr.values[...] = real
        elif isinstance(arr.variable._data, np.ndarray) and zlib.crc32(np.ascontiguousarray(arr.values).tobytes()) % 4 == 1:
            # one accessor call in four: the object has a history (gen.primed) — the same Python object held other axes / other
            # energy when its accessor first smoothed, and was edited in place (coords[...] = / ds["efth"] = ) into what it holds now
            from .. import gen as _gen
            import xarray as xr

            h = zlib.crc32(np.ascontiguousarray(arr.values).tobytes())
            obj = _gen.primed(obj, lambda o: (o.spec.smooth(freq_window=case["fw"], dir_window=case["dw"]), o.spec.hs()),
                              variant=(h // 4) % 3 if isinstance(obj, xr.Dataset) else 0)
        return obj.spec.smooth(freq_window=case["fw"], dir_window=case["dw"])
    return smooth_spec(obj, freq_window=case["fw"], dir_window=case["dw"])


def spectrum_of(x):
    import xarray as xr

    return x["efth"] if isinstance(x, xr.Dataset) else x


def to_fd(da):
    """values as (..., freq, dir) float array (dir in the array's own stored order) and the lead dims"""
    lead = [d for d in da.dims if d not in ("freq", "dir")]
    return np.asarray(da.transpose(*lead, "freq", "dir").values, dtype=float), lead


# ------------------------------------------------------------------------------------------------
# the property's direct oracle (label space, numpy only)
# ------------------------------------------------------------------------------------------------
def grid_class(ds):
    """Property-side classification of a SORTED label vector: full circle / partial / outside the quantifier."""
    n = len(ds)
    if n < 2:
        return "partial"
    df = np.diff(ds)
    dd = df[0]
    if dd <= 0:
        return "outside"        # duplicated labels
    if not np.all(np.abs(df - dd) <= 1e-9 * dd):
        return "partial"        # irregular grid: windows are positional, no wrap
    gap = 360.0 - (ds[-1] - ds[0] + dd)
    if abs(gap) <= 1e-9 * dd:
        # a full circle is in the quantifier only with exactly representable (whole or dyadic) spacing
        exact = representable32(ds) and len(set(np.diff(ds).tolist())) == 1
        return "full" if exact else "outside"
    if gap >= 0.5 * dd:
        return "partial"
    return "outside"            # within half a bin of closing the circle: not covered by the statement


def window_stats(Es, fw, dw, full):
    """Neighbourhood min / max, window mean and the mask of bins whose whole window fits; `Es` is (..., nf, nd)
    sorted by label.  Circular in direction when `full`."""
    nf, nd = Es.shape[-2:]
    hf, hd = fw // 2, dw // 2
    lo = np.full(Es.shape, np.inf)
    hi = np.full(Es.shape, -np.inf)
    tot = np.zeros(Es.shape)
    cnt = np.zeros((nf, nd))
    I = np.arange(nf)[:, None]
    J = np.arange(nd)[None, :]
    for a in range(-hf, hf + 1):
        ii = I + a
        okr = (ii >= 0) & (ii < nf)
        for b in range(-hd, hd + 1):
            jj = J + b
            if full:
                okc = np.ones_like(jj, dtype=bool)
                jjm = jj % nd
            else:
                okc = (jj >= 0) & (jj < nd)
                jjm = np.clip(jj, 0, nd - 1)
            ok = okr & okc
            v = Es[..., np.clip(ii, 0, nf - 1), jjm]
            lo = np.where(ok, np.minimum(lo, v), lo)
            hi = np.where(ok, np.maximum(hi, v), hi)
            tot = tot + np.where(ok, v, 0.0)
            cnt = cnt + ok
    fits = cnt == fw * dw
    mean = tot / (fw * dw)
    return lo, hi, mean, fits


def oracle(case, ref, res, shifted=None):
    """Returns a list of (op, message).  `ref`/`res`: input and output spectra (DataArrays)."""
    fails = []
    fw, dw = case["fw"], case["dw"]
    # ---- dimensions, coordinates, order
    if tuple(res.dims) != tuple(ref.dims):
        fails.append((COORD_OP, f"dims {tuple(ref.dims)} -> {tuple(res.dims)}"))
        return fails
    if set(res.coords) != set(ref.coords):
        fails.append((COORD_OP, f"coordinates {sorted(ref.coords)} -> {sorted(res.coords)}"))
    for c in ref.coords:
        if c in res.coords:
            a, b = ref.coords[c], res.coords[c]
            if a.dims != b.dims or a.shape != b.shape or not np.array_equal(np.asarray(a.values), np.asarray(b.values)):
                fails.append((COORD_OP, f"coordinate {c}: {np.asarray(a.values).tolist()} -> {np.asarray(b.values).tolist()}"))
    if fails:
        return fails
    E, _ = to_fd(ref)
    O, _ = to_fd(res)
    tolr = 1e-12 if case["dtype"] == "float64" else 3e-5
    tol = tolr * max(1.0, float(np.abs(E).max()) if E.size else 1.0)
    # ---- clauses that hold for every grid, window and storage order
    if not np.all((O >= E.min() - tol) & (O <= E.max() + tol)):
        fails.append((VALUE_OP, f"value outside [min, max] of the input: out range [{np.nanmin(O)}, {np.nanmax(O)}] (NaN count {int(np.isnan(O).sum())}) "
                                f"vs input [{E.min()}, {E.max()}]"))
    # ---- label space
    din = np.asarray(ref["dir"].values, dtype=float)
    p = np.argsort(din, kind="stable")
    ds = din[p]
    Es, Os = E[..., p], O[..., p]     # output carries the same coordinate (checked above), so the same permutation
    cls = grid_class(ds)
    within = fw <= max(1, E.shape[-2]) and dw <= max(1, len(ds))
    if cls == "outside" or not within:
        return fails
    full = cls == "full"
    lo, hi, mean, fits = window_stats(Es, fw, dw, full)
    bad = ~((Os >= lo - tol) & (Os <= hi + tol))
    if bad.any():
        k = tuple(int(x) for x in np.argwhere(bad)[0])
        fails.append((VALUE_OP, f"bin {k} (freq, dir sorted by label): {Os[k]} outside the min/max [{lo[k]}, {hi[k]}] of its {fw}x{dw} "
                                f"{'circular ' if full else ''}neighbourhood"))
    badm = fits & (np.abs(Os - mean) > tol)
    if badm.any():
        k = tuple(int(x) for x in np.argwhere(badm)[0])
        fails.append((VALUE_OP, f"bin {k}: whole {fw}x{dw} window fits but value {Os[k]} != window mean {mean[k]}"))
    if fw == 1 and dw == 1 and not np.array_equal(O, E):
        fails.append((VALUE_OP, "windows (1, 1) are not the identity"))
    if E.min() >= 0 and O.min() < -tol:
        fails.append((VALUE_OP, f"non-negative spectrum smoothed to {O.min()}"))
    if E.size and E.min() == E.max() and not np.all(np.abs(O - E.min()) <= tol):
        fails.append((VALUE_OP, "constant spectrum not preserved"))
    # ---- circular shift (full circle): smoothing the rolled spectrum = rolling the smoothed one
    if full and shifted is not None:
        O2, _ = to_fd(shifted)
        s = case["shift"]
        if not np.allclose(O2[..., p], np.roll(Os, s, axis=-1), rtol=0, atol=tol):
            fails.append((VALUE_OP, f"smoothing does not commute with a circular shift of {s} direction bins"))
    return fails


def rolled_input(case, ref):
    """The input with its spectrum rolled by `shift` bins along the direction circle (labels unchanged)."""
    E, lead = to_fd(ref)
    din = np.asarray(ref["dir"].values, dtype=float)
    p = np.argsort(din, kind="stable")
    Es2 = np.roll(E[..., p], case["shift"], axis=-1)
    E2 = np.empty_like(E)
    E2[..., p] = Es2
    import xarray as xr

    tmp = xr.DataArray(E2, dims=lead + ["freq", "dir"]).transpose(*case["dims"])
    return np.asarray(tmp.values)


# ------------------------------------------------------------------------------------------------
def exact_unique_diffs(d32):
    fs = [fr(x) for x in d32]
    return len({b - a for a, b in zip(fs, fs[1:])})


def evaluate(case):
    """Run one case on the implementation.  Returns a plain dict: impl summary, oracle failures, model requests."""
    import_ws()
    import dask
    import xarray as xr

    # smooth_spec re-chunks after the label lookup, so results can be dask-backed; dask's thread pool does not survive
    # the fork of `pmap`, hence everything is computed synchronously here
    dask.config.set(scheduler="synchronous")
    out = dict(case=case, fails=[], reqs=[], obs=[], ambiguous=False)
    fw, dw = case["fw"], case["dw"]
    obj = build_obj(case)
    ref = spectrum_of(obj)
    even = fw % 2 == 0 or dw % 2 == 0
    dirs = np.asarray(case["dirs"], dtype=float)
    d32 = dirs.astype(np.float32)
    sorted_storage = bool(np.all(np.diff(dirs) > 0))
    out["sorted_storage"] = sorted_storage
    try:
        res_obj = call_impl(case, obj)
        if hasattr(res_obj, "compute"):
            res_obj = res_obj.compute()
        exc = None
    except Exception as e:  # noqa
        res_obj, exc = None, e
    out["impl_exc"] = None if exc is None else type(exc).__name__
    E, lead = to_fd(ref)
    nposs = [dict(zip(lead, idx)) for idx in np.ndindex(*E.shape[:-2])]
    # model requests (at most two positions)
    Ecast = np.asarray(to_fd(ref.astype(case["dtype"]))[0], dtype=float)
    for pos in (nposs[:1] + nposs[-1:])[: (1 if len(nposs) == 1 else 2)]:
        idx = tuple(pos[d] for d in lead)
        out["reqs"].append((" ".join(["smooth", MODEL_VARIANT, enc_v(dirs), enc_v(d32.astype(float)), enc_m(Ecast[idx], len(dirs)),
                                      str(fw), str(dw)]), [int(i) for i in idx]))
    # float32 rounding of np.diff could change the `len(set(diff)) == 1` decision w.r.t. exact differences: ambiguous
    for lab in (d32, np.sort(d32)):
        if len(lab) > 1 and (len(set(np.diff(lab).tolist())) == 1) != (exact_unique_diffs(lab) == 1):
            out["ambiguous"] = True
    if even:
        if not isinstance(exc, ValueError):
            out["fails"].append((EVEN_OP, f"windows ({fw}, {dw}) not rejected with ValueError: " + (f"{type(exc).__name__}: {exc}" if exc else "returned a result")))
        return out
    if exc is not None:
        out["fails"].append((CRASH_OP, f"{type(exc).__name__}: {str(exc)[:300]}"))
        return out
    res = spectrum_of(res_obj)
    if isinstance(res_obj, xr.Dataset) and isinstance(obj, xr.Dataset) and case["entry"] == "function":
        for v in obj.data_vars:
            if v != "efth" and (v not in res_obj.data_vars or tuple(res_obj[v].dims) != tuple(obj[v].dims)):
                out["fails"].append((SIDE_OP, f"variable {v}{tuple(obj[v].dims)} came back as "
                                              f"{tuple(res_obj[v].dims) if v in res_obj.data_vars else 'missing'}"))
    shifted = None
    cls = grid_class(np.sort(dirs))
    if cls == "full" and fw <= case["nf"] and dw <= case["nd"]:
        obj2 = build_obj(case, E=rolled_input(case, ref))
        try:
            shifted = spectrum_of(call_impl(case, obj2))
        except Exception as e:  # noqa
            out["fails"].append((CRASH_OP, f"rolled input: {type(e).__name__}: {str(e)[:300]}"))
    out["grid_class"] = cls
    out["fails"] += oracle(case, ref, res, shifted)
    # observations outside the property (never failures)
    if list(res.coords) != list(ref.coords):
        out["obs"].append("coord_mapping_order_changed")
    if str(res.dtype) != str(ref.dtype):
        out["obs"].append(f"dtype_{ref.dtype}_to_{res.dtype}")
    if res.name != ref.name:
        out["obs"].append("name_changed")
    if "dir" in res.coords and str(res["dir"].dtype) != str(ref["dir"].dtype):
        out["obs"].append("dir_dtype_changed")
    O, _ = to_fd(res) if tuple(sorted(res.dims)) == tuple(sorted(ref.dims)) else (None, None)
    out["impl"] = None if O is None else [O[tuple(i)].tolist() for _, i in out["reqs"]]
    out["impl_dirs"] = np.asarray(res["dir"].values, dtype=float).tolist() if "dir" in res.coords else None
    out["impl_dims"] = list(res.dims)
    return out


def make_case(args):
    seed, icase = args
    case = icase if isinstance(icase, dict) else gen_case(seed, icase)
    try:
        return evaluate(case)
    except Exception as e:  # harness problem: surfaces as exit 2
        import traceback

        return dict(case=case, harness_error=traceback.format_exc())


def trigger_for(op, res):
    case = res["case"]
    if op == VALUE_OP and not res.get("sorted_storage", True):
        return "smooth_unsorted_dirs"
    if op == SIDE_OP and case["container"] == "Dataset+side":
        return "dataset_side_variable_through_concat"
    if op == CRASH_OP:
        return "crash"
    return None


def judge(ck, res, resp_lines):
    case = res["case"]
    small = {k: v for k, v in case.items() if k != "E"}
    tolr = 1e-12 if case["dtype"] == "float64" else 3e-5
    even = case["fw"] % 2 == 0 or case["dw"] % 2 == 0
    sig = gen.signature(case["nf"], case["nd"], case["gridkind"], case["order"], case["wkind"], case["dtype"], case["container"],
                        len(case["dims"]), res.get("grid_class", "-"))
    nontrivial = (not even) and case["nf"] * case["nd"] > 1 and (case["fw"] > 1 or case["dw"] > 1) and \
        float(np.ptp(np.asarray(case["E"]))) > 0
    ck.case(sig, nontrivial, sample=dict(small, E="(%s array)" % "x".join(map(str, case["shape"]))))
    ck.count("grid:" + case["gridkind"]); ck.count("order:" + case["order"]); ck.count("windows:" + case["wkind"])
    ck.count("container:" + case["container"]); ck.count("entry:" + case["entry"])
    ck.count("partial_hyp(sorted storage):" + str(res.get("sorted_storage")))
    for o in res["obs"]:
        ck.count("obs:" + o)
    for op, msg in res["fails"]:
        ck.fail(op, msg, case, trigger_for(op, res))
    if res["ambiguous"]:
        ck.ambiguous += 1
        return
    # ---- correspondence with the Lean model
    for k, ((req, idx), resp) in enumerate(zip(res["reqs"], resp_lines)):
        st, mo = parse_resp(resp)
        if st != "ok":
            want = {"ValueError": "ValueError", "KeyError": "KeyError"}.get(res["impl_exc"])
            if want is None or want not in str(mo):
                ck.disagree("smooth", f"model: {mo}; implementation: {res['impl_exc'] or 'returned a result'}", small)
            ck.count("model:err " + str(mo))
            continue
        if res["impl_exc"] is not None:
            ck.disagree("smooth", f"model returned a result; implementation raised {res['impl_exc']}", small)
            continue
        if res.get("impl") is None:
            continue    # dims already reported by the oracle
        ck.count(f"model:circ={mo['circ']} sel={mo['sel']}")
        M = np.array([[float(x) for x in row] for row in mo["out"]]).reshape(case["nf"], case["nd"])
        I = np.asarray(res["impl"][k], dtype=float)
        scale = max(1.0, float(np.abs(np.asarray(case["E"])).max()))
        if I.shape != M.shape or not np.all(np.abs(I - M) <= tolr * scale):
            w = np.argwhere(~(np.abs(I - M) <= tolr * scale)) if I.shape == M.shape else []
            ck.disagree("smooth", f"values differ at position {idx}, first bin {w[0].tolist() if len(w) else '?'}: "
                                  f"impl={I[tuple(w[0])] if len(w) else I.shape} model={M[tuple(w[0])] if len(w) else M.shape}", case)
        if [float(x) for x in mo["dirs"]] != res["impl_dirs"]:
            ck.disagree("smooth", f"direction coordinate: impl {res['impl_dirs']} model {[float(x) for x in mo['dirs']]}", small)
        if res["impl_dims"] != case["dims"]:
            ck.disagree("smooth", f"dimension order: impl {res['impl_dims']}, model keeps {case['dims']}", small)


def corpus_cases():
    d = ROOT / "corpus" / "C16"
    return [json.loads(p.read_text()) for p in sorted(d.glob("*.json"))] if d.exists() else []


def run_check():
    ck = Check("C16")
    ck.extra["rule"] = ("cases = (grid kind, stored order, window class, dtype, container, dims) drawn per DESIGN §2.3; signature = (nf class, nd class, "
                        "grid kind, stored order, window kind, dtype, container, ndim, oracle grid class); non-trivial = odd windows, more than one "
                        "bin, some window > 1 and a non-constant spectrum")
    ck.do_audit()
    import_ws()
    replay = os.environ.get("VERIF_REPLAY")
    if replay:
        obj = json.loads(open(replay).read())
        cases = [f["case"] for f in obj.get("failures", []) + obj.get("disagreements", []) if isinstance(f.get("case"), dict) and "E" in f["case"]]
        seen, uniq = set(), []
        for c in cases:
            key = json.dumps(c, sort_keys=True)
            if key not in seen:
                seen.add(key)
                uniq.append(c)
        results = [evaluate(c) for c in uniq]
    else:
        n = 1200 if ck.tier == "quick" else 24000
        results = pmap(make_case, [(ck.seed, c) for c in corpus_cases()] + [(ck.seed, i) for i in range(n)])
    for r in results:
        if "harness_error" in r:
            raise RuntimeError("harness error in case %s:\n%s" % ({k: v for k, v in r["case"].items() if k != "E"}, r["harness_error"]))
    reqs = [req for r in results for (req, _) in r["reqs"]]
    resps = run_driver(reqs) if reqs else []
    k = 0
    for r in results:
        n = len(r["reqs"])
        judge(ck, r, resps[k:k + n])
        k += n
        if replay:
            log(json.dumps(dict(case={a: b for a, b in r["case"].items() if a != "E"}, oracle=r["fails"], impl_exc=r["impl_exc"],
                                model=[x[:200] for x in resps[k - n:k]]), default=str)[:3000])
    ck.assumptions = ["rounding is not modelled: values compared within 1e-12 (float64) / 3e-5 (float32) of the largest input magnitude",
                      "the float32 cast of the direction labels is computed by the harness and handed to the model as exact rationals",
                      "cases where float32 rounding of np.diff changes the uniform-spacing decision are counted as ambiguous, not compared",
                      "full-circle grids with non-representable spacing and windows beyond the grid size are outside the property's "
                      "quantifier: correspondence and the universal clauses (coordinates, global min/max, even windows) only",
                      "order of the coordinate mapping, dtype, name and attrs of the result are recorded as observations"]
    return ck.finish()


if __name__ == "__main__":
    from ..common import main_wrapper

    main_wrapper(run_check)

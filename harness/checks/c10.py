"""C10 — energy scaling, rotation symmetry, physical bounds, scale_by_hs (DESIGN §3 C10)."""
import math

import numpy as np

PI = math.pi

from .. import gen
from ..common import Check, ang_close, case_rng, close, enc_m, enc_optv, enc_v, import_ws, parse_resp, pmap, run_driver

R2D = 180.0 / math.pi
HEIGHTS = ["hs", "hrms", "hmax"]
LINEAR = ["uss", "uss_x", "uss_y", "mss"]
INVARIANT = ["tp", "tpd", "fp", "tm01", "tm02", "dm", "dp", "dpm", "dspr", "dpspr", "swe", "sw", "goda", "gamma"]
ANGLES = {"dm", "dp", "dpm"}


def all_stats(da, depth=None):
    sp = da.spec
    out = {}
    out["hs"] = float(sp.hs()); out["hrms"] = float(sp.hrms()); out["hmax"] = float(sp.hmax())
    out["uss"] = float(sp.uss(depth)); out["uss_x"] = float(sp.uss_x(depth)); out["uss_y"] = float(sp.uss_y(depth))
    out["mss"] = float(sp.mss(depth))
    out["tp"] = float(sp.tp()); out["tpd"] = float(sp.tp(smooth=False)); out["fp"] = float(sp.fp())
    out["tm01"] = float(sp.tm01()); out["tm02"] = float(sp.tm02())
    out["dm"] = float(sp.dm()); out["dp"] = float(sp.dp()); out["dpm"] = float(sp.dpm())
    out["dspr"] = float(sp.dspr()); out["dpspr"] = float(sp.dpspr())
    out["swe"] = float(sp.swe()); out["sw"] = float(sp.sw()); out["goda"] = float(sp.goda())
    out["gamma"] = float(sp.gamma()); out["alpha"] = float(sp.alpha()); out["gw"] = float(sp.gw())
    return out


def nondegenerate(E):
    return int((E.sum(axis=1) > 0).sum()) >= 2 and int((E.sum(axis=0) > 0).sum()) >= 2


def make_case(args):
    seed, icase = args
    rng = case_rng("C10", seed, icase)
    import_ws()
    nf = rng.choice([3, 4, 6, 10, 20, 32])
    nd = rng.choice([4, 8, 12, 24, 36])
    freq, fkind = gen.gen_freq(rng, nf, exact=True)
    dirs, order = gen.gen_dirs(rng, nd, order=rng.choice(["sorted", "rotated", "reversed", "seam"]))
    for _ in range(20):
        E, kind = gen.gen_spectrum(rng, nf, nd, kind=rng.choice(["blobs", "blobs", "noisy", "ties", "sparse", "plateau"]), exact=True)
        if nondegenerate(E):
            break
    else:
        return None
    dtype = rng.choice(["float64", "float64", "float32"])
    mode = rng.choice(["scale", "rotate", "scaleby"])
    if mode == "rotate" and rng.random() < 0.3:
        # equal-energy crossing seas: the frequency-summed spectrum has two exactly tied maxima
        E = np.zeros((nf, nd))
        j1, j2 = rng.sample(range(nd), 2)
        i1, i2 = rng.randrange(1, nf - 1), rng.randrange(1, nf - 1)
        E[i1, j1] += 4.0
        E[i2, j2] += 4.0
        E[max(i1 - 1, 0), j1] += 1.0
        E[max(i2 - 1, 0), j2] += 1.0
        E += 0.015625
        kind = "tied_dp"
    if mode != "scaleby" and all((np.asarray(dirs) == x).any() for x in (30.0, 270.0)) and nf >= 3 and rng.random() < 0.3:
        # a crossing sea whose mean direction is exactly due north up to round-off (2 units from 30°, 1 unit from 270°, in the
        # published convention): the (…) % 360 of a tiny negative number must not come out as 360.0
        E = np.zeros((nf, nd))
        i0 = rng.randrange(1, nf - 1)
        for i, w in ((i0, 1.0), (i0 - 1, 0.25)):
            E[i, int(np.where(np.asarray(dirs) == 30.0)[0][0])] = 2.0 * w
            E[i, int(np.where(np.asarray(dirs) == 270.0)[0][0])] = 1.0 * w
        kind = "dm_cardinal"
    if mode == "scale" and nf >= 4 and rng.random() < 0.4:
        if rng.random() < 0.5:
            # a very broad peak: the maximum exceeds its neighbours by a few parts in 1e8 (far above float64 rounding, so the
            # peak bin — and every period and shape parameter — is the same at every energy level)
            ip = rng.randrange(1, nf - 1)
            prof = np.array([1.0 / (1.0 + 0.5 * abs(i - ip)) for i in range(nf)])
            prof[ip - 1] = prof[ip + 1] = prof[ip] * (1 - rng.choice([3e-8, 5e-8, 7e-8]))
            w = np.array([1.0 + 0.5 * math.cos(2 * PI * j / nd) for j in range(nd)])
            E = prof[:, None] * w[None, :]
            kind, dtype = "broad_peak", "float64"
        else:
            # nearly monochromatic: all energy in one frequency bin but for a vanishing amount in another (the width
            # radicand 1 − m2²/(m0·m4) rounds to a few ulp either side of zero)
            E = np.zeros((nf, nd))
            i1, i2 = rng.sample(range(nf), 2)
            E[i1, :] = [1.0 + 0.25 * (j % 3) for j in range(nd)]
            E[i2, rng.randrange(nd)] = 1e-25
            kind, dtype = "near_mono", "float64"
    if mode == "scaleby" and rng.random() < 0.35:
        # valid spectrum without an interior peak: tp/dpm are NaN, so a tp/dpm range is never met
        E = np.array([[(nf - i) * (1 + (j % 3)) for j in range(nd)] for i in range(nf)], dtype=float)
        kind = "monodown"
    # physical magnitude: Hs between 0.5 and 8 m (power-of-two factor keeps the exact stream exact)
    dfv = np.gradient(freq) if nf > 1 else np.array([1.0])
    m0 = float((E.sum(axis=1) * dfv).sum() * gen.bin_width(dirs))
    target = rng.uniform(0.5, 8.0)
    E = E * 2.0 ** round(math.log2((target / 4) ** 2 / m0))
    da = gen.make_da(freq, dirs, E, dtype=dtype)
    depth = rng.choice([None, None, 15.0])
    rec = dict(icase=icase, mode=mode, freq=freq, dirs=dirs, E=np.asarray(da.values, dtype=float), dtype=dtype, kind=kind, order=order,
               fkind=fkind, depth=depth)
    try:
        base = all_stats(da, depth)
        rec["base"] = base
        if mode == "scale":
            k = 10 ** rng.uniform(-6, 6) if rng.random() < 0.7 else rng.choice([1e-6, 0.25, 4.0, 1e6])
            rec["k"] = k
            if rng.random() < 0.35:
                # the same object scaled in place after its statistics were asked for once (S and kS are then one object)
                rec["inplace"] = True
                da2 = da.copy(deep=True)
                all_stats(da2, depth)
                if rng.random() < 0.5:
                    da2 *= (k if dtype == "float64" else np.float32(k))
                else:
                    da2.values[...] = da2.values * (k if dtype == "float64" else np.float32(k))
                rec["other"] = all_stats(da2, depth)
            else:
                rec["other"] = all_stats(da * k if dtype == "float64" else (da * np.float32(k)).astype("float32"), depth)
            rec["k"] = float(np.float32(k)) if dtype == "float32" else k
        elif mode == "rotate":
            a = rng.choice([rng.uniform(-720, 720), float(rng.randint(-400, 400)), 360.0 / nd * rng.randint(1, nd), 0.5])
            rec["a"] = a
            newd = (da.dir.values + a) % 360
            rec["newdirs"] = newd
            rec["other"] = all_stats(da.assign_coords(dir=newd), depth)
        else:
            expr = rng.choice(["0.5*hs", "hs + 1", "2.0", "0.13*hs + 0.02", "hs**2", "3*HS"])
            kw = {}
            hs0, tp0, dpm0 = base["hs"], base["tp"], base["dpm"]
            if rng.random() < 0.6:
                kw["hs_min"] = hs0 * rng.choice([0.5, 0.9, 1.1])
                if rng.random() < 0.5:
                    kw["hs_max"] = hs0 * rng.choice([0.95, 1.5])
            if rng.random() < 0.4 or (math.isnan(tp0) and rng.random() < 0.7):
                t0 = 8.0 if math.isnan(tp0) else tp0
                kw["tp_min"] = t0 * rng.choice([0.5, 1.2])
                kw["tp_max"] = t0 * rng.choice([1.5, 3.0])
            if rng.random() < 0.4:
                d0 = 180.0 if math.isnan(dpm0) else dpm0
                kw["dpm_min"] = rng.choice([0.0, d0 - 10, d0 + 10])
                kw["dpm_max"] = rng.choice([360.0, d0 + 20])
            rec["expr"], rec["kw"] = expr, kw
            out = da.spec.scale_by_hs(expr, **kw)
            out = out.compute() if hasattr(out, "compute") else out
            rec["scaled_hs"] = float(out.spec.hs())
            rec["scaled_equal_input"] = bool(np.array_equal(np.asarray(out.transpose(*da.dims).values), np.asarray(da.values)))
            rec["scaled_dims"] = list(out.dims)
    except Exception as e:
        rec["crash"] = f"{type(e).__name__}: {e}"
    return rec


def run_check():
    ck = Check("C10")
    ck.extra["rule"] = ("pairs (S, k·S), (S, S relabelled by +a) and scale_by_hs calls on non-degenerate spectra; signature = (mode, nf class, "
                        "nd class, spectrum kind, dir order, dtype, parameter class); non-trivial = energy in ≥2 frequencies and ≥2 directions")
    ck.do_audit()
    import_ws()
    n = 180 if ck.tier == "quick" else 2000
    from ..common import replay_ids

    recs = [r for r in pmap(make_case, [(ck.seed, i) for i in replay_ids(ck, n)]) if r is not None]
    # light correspondence: the model of C01 on S (ties the theorems' model to the code inside this check too)
    reqs = []
    for r in recs:
        s, c = gen.trig_tables(r["dirs"])
        z = [0] * len(r["freq"])
        reqs.append(" ".join(["stats", "1", enc_v(r["freq"]), enc_optv(r["dirs"]), enc_m(r["E"], r["E"].shape[1]), enc_v(s), enc_v(c),
                              enc_v(z), enc_v(z)]))
    resps = run_driver(reqs)
    for r, resp in zip(recs, resps):
        case = dict(icase=r["icase"], mode=r["mode"], freq=r["freq"].tolist(), dirs=r["dirs"].tolist(), E=r["E"].tolist(), dtype=r["dtype"],
                    **{k: r[k] for k in ("k", "a", "expr", "kw") if k in r})
        pclass = ("k<1" if r.get("k", 1) < 1 else "k>1") if r["mode"] == "scale" else \
                 ("bins" if r["mode"] == "rotate" and abs((r["a"] * len(r["dirs"]) / 360) - round(r["a"] * len(r["dirs"]) / 360)) < 1e-9 else
                  "any") if r["mode"] == "rotate" else ("cond" if r.get("kw") else "nocond")
        ck.case(gen.signature(len(r["freq"]), len(r["dirs"]), r["mode"], r["kind"], r["order"], r["dtype"], pclass), True,
                sample={k: (v if not isinstance(v, np.ndarray) else v.tolist()) for k, v in r.items() if k in ("mode", "k", "a", "expr", "kw", "kind", "order", "dtype", "base")})
        ck.count("mode:" + r["mode"])
        if "crash" in r:
            ck.fail(r["mode"], r["crash"], case, "crash")
            continue
        rel = 1e-7 if r["dtype"] == "float64" else 2e-4
        b = r["base"]
        st, mo = parse_resp(resp)
        if st != "ok":
            ck.disagree("stats", str(mo), case)
        else:
            if not close(b["hs"], 4 * math.sqrt(mo["hsE"]), rel=1e-9 if r["dtype"] == "float64" else 1e-5):
                ck.disagree("hs", f"impl={b['hs']} model={4 * math.sqrt(mo['hsE'])}", case)
            if not close(b["tm01"], mo["tm01"], rel=1e-9 if r["dtype"] == "float64" else 1e-5):
                ck.disagree("tm01", f"impl={b['tm01']} model={float(mo['tm01'])}", case)
        # ---- bounds on the base spectrum
        fmin, fmax = float(r["freq"][0]), float(r["freq"][-1])
        eps = 1e-9 if r["dtype"] == "float64" else 1e-5
        for nm in ("dm", "dp", "dpm"):
            v = b[nm]
            if not math.isnan(v) and not (0.0 <= v <= 360.0 and (v < 360.0 or nm == "dpm")):
                ck.fail("bounds", f"{nm}={v} outside [0,360)", case)
        if not (1 / fmax * (1 - eps) <= b["tm02"] <= b["tm01"] * (1 + eps) and b["tm01"] <= 1 / fmin * (1 + eps)):
            ck.fail("bounds", f"1/fmax={1 / fmax} <= tm02={b['tm02']} <= tm01={b['tm01']} <= 1/fmin={1 / fmin} violated", case)
        if not math.isnan(b["tp"]) and not (1 / fmax * (1 - 1e-6) <= b["tp"] <= 1 / fmin * (1 + 1e-6)):
            ck.fail("bounds", f"tp={b['tp']} outside the frequency range", case)
        if not (math.isnan(b["dspr"]) and False) and not (-1e-9 <= b["dspr"] <= math.sqrt(2) * R2D * (1 + 1e-9)):
            if not math.isnan(b["dspr"]):
                ck.fail("bounds", f"dspr={b['dspr']} outside [0, 81.03]", case)
        if math.isnan(b["dspr"]):
            # NaN only legitimate when the rounding pushed 1 - |m1|/m0 below zero (unidirectional energy)
            colsum = r["E"].sum(axis=0)
            if (colsum > 0).sum() >= 2 and r["dtype"] == "float64":
                ck.fail("bounds", "dspr is NaN for a spectrum with energy in two directions", case)
        if not (b["swe"] <= 1.0 + 1e-12):
            ck.fail("bounds", f"swe={b['swe']} > 1", case)
        if b["hs"] >= 0.001 and math.isnan(b["sw"]) and r["dtype"] == "float64":
            ck.fail("bounds", f"sw is NaN (not real) with hs={b['hs']}", case)
        if math.isnan(b["gw"]) and r["dtype"] == "float64":
            m0 = (b["hs"] / 4) ** 2
            pred = m0 / b["tm02"] ** 2 - m0 ** 2 / b["tm01"] ** 2 < 0   # what the coded formula takes the root of
            ck.fail("gw", f"gw is NaN (the Gaussian spectral width is not real) for hs={b['hs']:.3f} m, tm01={b['tm01']:.3f}, tm02={b['tm02']:.3f}: "
                          "the code takes sqrt(m2 − m1²) where the definition is sqrt(m2/m0 − (m1/m0)²)", case,
                    "gw_unnormalised" if pred else None)
        if not any(close(b["dp"], float(np.float32(d)), rel=1e-7) for d in r["dirs"]):
            ck.fail("bounds", f"dp={b['dp']} not a direction coordinate", case)
        # ---- pair laws
        if r["mode"] == "scale":
            k, o = r["k"], r["other"]
            for nm in HEIGHTS:
                if not close(o[nm], b[nm] * math.sqrt(k), rel=rel):
                    ck.fail("scale", f"{nm}: {b[nm]} -> {o[nm]}, expected ×sqrt(k)={b[nm] * math.sqrt(k)}", case)
            for nm in LINEAR:
                if not close(o[nm], b[nm] * k, rel=rel, scale=abs(b["uss"] * k) if nm.startswith("uss") else None):
                    ck.fail("scale", f"{nm}: {b[nm]} -> {o[nm]}, expected ×k={b[nm] * k}", case)
            for nm in INVARIANT:
                cmp_inv(ck, "scale", nm, b[nm], o[nm], r, case, rel, other_hs=o["hs"])
            ck.extra.setdefault("observations", {})
            if not close(o["alpha"], b["alpha"] * k, rel=1e-3) and not math.isnan(b["alpha"]):
                ck.count("obs:alpha_not_linear")
            if not close(o["gw"], b["gw"], rel=1e-6):
                ck.count("obs:gw_not_scale_free")
        elif r["mode"] == "rotate":
            a, o = r["a"], r["other"]
            for nm in HEIGHTS + LINEAR[:1] + ["mss"]:
                if not close(o[nm], b[nm], rel=max(rel, 1e-6)):
                    ck.fail("rotate", f"{nm}: {b[nm]} -> {o[nm]} after relabelling by {a}", case)
            for nm in INVARIANT:
                if nm in ANGLES:
                    if math.isnan(b[nm]) or math.isnan(o[nm]):
                        if math.isnan(b[nm]) != math.isnan(o[nm]):
                            ck.fail("rotate", f"{nm}: {b[nm]} -> {o[nm]}", case)
                        continue
                    if nm in ("dm", "dpm") and weak_vector(r, nm):
                        ck.ambiguous += 1
                        continue
                    if not ang_close(o[nm], (b[nm] + a) % 360.0, tol=2e-3 if (nm in ("dpm", "dp") or r["dtype"] == "float32") else 1e-6):
                        ck.fail("rotate", f"{nm}: {b[nm]} -> {o[nm]}, expected {(b[nm] + a) % 360.0} (a={a})", case)
                else:
                    cmp_inv(ck, "rotate", nm, b[nm], o[nm], r, case, max(rel, 1e-6))
        else:
            expr, kw = r["expr"], r["kw"]
            hs = b["hs"]
            target = eval(expr.lower(), {"hs": hs})
            cond = True
            amb = False
            for lo, hi, v in ((kw.get("hs_min"), kw.get("hs_max"), hs), (kw.get("tp_min"), kw.get("tp_max"), b["tp"]),
                              (kw.get("dpm_min"), kw.get("dpm_max"), b["dpm"])):
                if lo is None and hi is None:
                    continue
                lo = -math.inf if lo is None else lo
                hi = math.inf if hi is None else hi
                if math.isnan(v):
                    cond = False
                    continue
                for edge in (lo, hi):
                    if math.isfinite(edge) and abs(v - edge) <= 1e-5 * max(1.0, abs(edge)):
                        amb = True
                cond = cond and (lo <= v <= hi)
            if amb:
                ck.ambiguous += 1
                continue
            ck.count("scaleby:" + ("applied" if cond else "untouched"))
            if cond:
                if not close(r["scaled_hs"], abs(target), rel=max(rel, 1e-6)):
                    ck.fail("scale_by_hs", f"hs after scaling={r['scaled_hs']} expected |{expr}|={abs(target)}", case)
            else:
                if not r["scaled_equal_input"]:
                    ck.fail("scale_by_hs", "spectrum outside the stated ranges was modified", case)
    ck.assumptions = ["pair laws are checked on the implementation itself (oracle); the theorems are about the C01/C02 models whose "
                      "correspondence is re-sampled here on hs/tm01", "alpha (×k) and gw (mixed degree, pinned by the suite) are "
                      "not claimed scale-free: counted as observations", "dpm is float32 and may round to 360.0"]
    return ck.finish()


def weak_vector(r, nm):
    s, c = gen.trig_tables(r["dirs"])
    E = r["E"]
    if nm == "dm":
        vs, vc, tot = float((E * s).sum()), float((E * c).sum()), float(E.sum())
    else:
        S = E.sum(axis=1)
        pk = [q for q in range(1, len(S) - 1) if S[q - 1] < S[q] > S[q + 1]]
        if not pk:
            return True
        p = max(pk, key=lambda q: (S[q], -q))
        vs, vc, tot = float((E[p] * s).sum()), float((E[p] * c).sum()), float(E[p].sum())
    return math.hypot(vs, vc) <= 1e-4 * tot


def peak_tie(r):
    """Peak detection is a float comparison: adjacent (near-)equal values of E(f) or two (near-)equal peaks make it ambiguous under
    a rescaling that rounds differently."""
    S = r["E"].sum(axis=1)
    tol = (1e-9 if r["dtype"] == "float64" else 1e-5) * float(S.max() or 1.0)
    d = np.abs(np.diff(S))
    nz = np.maximum(S[:-1], S[1:]) > 0  # two zero neighbours stay exactly zero under any scaling
    if (d[nz] <= tol).any():
        return True
    pk = sorted((S[q] for q in range(1, len(S) - 1) if S[q - 1] < S[q] > S[q + 1]), reverse=True)
    return len(pk) >= 2 and pk[0] - pk[1] <= tol


PEAK_BASED = {"tp", "tpd", "fp", "dpm", "dpspr", "gamma"}


def dp_tie(r):
    cs = r["E"].sum(axis=0)
    srt = np.sort(cs)[::-1]
    return len(srt) > 1 and srt[0] - srt[1] <= 1e-6 * srt[0]


def cmp_inv(ck, law, nm, bv, ov, r, case, rel, other_hs=None):
    if math.isnan(bv) and math.isnan(ov):
        return
    if law == "scale" and nm in PEAK_BASED and peak_tie(r):
        ck.ambiguous += 1
        return
    if nm in ANGLES:
        if nm == "dp" and dp_tie(r):
            ck.ambiguous += 1
            return
        if nm in ("dm", "dpm") and weak_vector(r, nm):
            ck.ambiguous += 1
            return
        if not ang_close(bv, ov, tol=2e-3 if r["dtype"] == "float32" or nm == "dpm" else 1e-7):
            ck.fail(law, f"{nm}: {bv} -> {ov} (expected unchanged)", case)
        return
    tol = rel
    if nm in ("tp", "tpd", "fp", "dpspr", "gamma"):
        tol = max(rel, 2e-5)
    if nm in ("sw", "swe", "dspr", "dpspr"):
        # radicands with cancellation: compare squares with an absolute tolerance
        if math.isnan(bv) or math.isnan(ov):
            if nm == "sw" and other_hs is not None and other_hs < 0.001 and not math.isnan(bv):
                ck.fail(law, f"sw: {bv} -> NaN because hs of the scaled spectrum = {other_hs} < 0.001", case, "sw_masked_below_hs_threshold")
                return
            if nm == "sw" and r["base"]["hs"] < 0.001 and math.isnan(bv) and not math.isnan(ov):
                ck.fail(law, f"sw: NaN -> {ov} because hs of the original spectrum = {r['base']['hs']} < 0.001", case, "sw_masked_below_hs_threshold")
                return
            small = min(x for x in (bv, ov) if not math.isnan(x)) if not (math.isnan(bv) and math.isnan(ov)) else 0
            if small ** 2 <= (1e-7 if r["dtype"] == "float64" else 1e-3):
                ck.ambiguous += 1
                return
            ck.fail(law, f"{nm}: {bv} -> {ov} (expected unchanged)", case)
            return
        atol = (1e-9 if r["dtype"] == "float64" else 2e-4) * (R2D ** 2 * 2 if nm in ("dspr", "dpspr") else 1.0)
        if abs(bv ** 2 - ov ** 2) > atol + tol * bv ** 2:
            ck.fail(law, f"{nm}: {bv} -> {ov} (expected unchanged)", case)
        return
    if nm == "gamma" and (abs(bv - 1) < 1e-3 or abs(ov - 1) < 1e-3):
        if abs(bv - ov) > 2e-3:
            ck.fail(law, f"gamma: {bv} -> {ov}", case)
        return
    if not close(ov, bv, rel=tol):
        ck.fail(law, f"{nm}: {bv} -> {ov} (expected unchanged)", case)


if __name__ == "__main__":
    from ..common import main_wrapper

    main_wrapper(run_check)

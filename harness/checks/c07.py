"""C07 — dask-backed data gives the same results under any chunking and scheduler (DESIGN §3 C07)."""
import numpy as np

from .. import gen, opcat
from ..common import Check, case_rng, import_ws, pmap


def random_chunks(rng, da, force_spectral):
    ch = {}
    for d in da.dims:
        n = da.sizes[d]
        mode = rng.choice(["full", "one", "uneven", "half"])
        if d in ("freq", "dir") and not force_spectral and rng.random() < 0.5:
            mode = "full"
        if mode == "full" or n == 1:
            ch[d] = -1
        elif mode == "one":
            ch[d] = 1
        elif mode == "half":
            ch[d] = max(1, n // 2)
        else:
            cuts = sorted(rng.sample(range(1, n), min(n - 1, rng.randint(1, 2))))
            sizes = [b - a for a, b in zip([0] + cuts, cuts + [n])]
            ch[d] = tuple(sizes)
    return ch


def compute(res, **kw):
    import dask

    if isinstance(res, tuple):
        return tuple(dask.compute(*res, **kw))
    return res.compute(**kw) if hasattr(res, "compute") else res


def make_world(rng, nf=None, nd=None, degenerate=False):
    import xarray as xr

    nextra = rng.choice([1, 1, 2])
    names = rng.sample(["time", "site", "lat"], nextra)
    shape = [rng.randint(1, 4) for _ in names]
    nf = nf or rng.choice([6, 8, 11])
    nd = nd or rng.choice([8, 12, 18])
    freq, _ = gen.gen_freq(rng, nf, kind=rng.choice(["log", "irregular"]))
    dirs, order = gen.gen_dirs(rng, nd, order=rng.choice(["sorted", "rotated"]))
    extra = []
    for nme, n in zip(names, shape):
        if nme == "time":
            vals = (np.array(["2020-01-01T00:00:00"], dtype="datetime64[s]") + np.arange(n) * np.timedelta64(3600, "s")).astype("datetime64[ns]")
        else:
            vals = np.arange(n, dtype=float)
        extra.append((nme, vals))
    npos = int(np.prod(shape))
    Es = [gen.gen_spectrum(rng, nf, nd, kind=rng.choice(["blobs", "blobs", "noisy", "sparse"]))[0] + 0.0078125 for _ in range(npos)]
    if degenerate:
        # degenerate members (where statistics fall back to a documented value / NaN): all-zero, all energy in one frequency
        # bin, a single non-zero bin
        for _ in range(max(1, npos // 2)):
            k = rng.randrange(npos)
            Z = np.zeros((nf, nd))
            mode = rng.choice(["zero", "onefreq", "onebin"])
            if mode == "onefreq":
                Z[rng.randrange(nf), :] = [rng.choice([1.0, 2.0, 0.5]) for _ in range(nd)]
            elif mode == "onebin":
                Z[rng.randrange(nf), rng.randrange(nd)] = 4.0
            Es[k] = Z
    E = np.array(Es).reshape(tuple(shape) + (nf, nd))
    da = gen.make_da(freq, dirs, E, extra=extra, dtype=rng.choice(["float64", "float64", "float32"]))
    if rng.random() < 0.4:
        # other storage orders, including dir stored before freq and spectral dims first
        perm = list(da.dims)
        rng.shuffle(perm)
        da = da.transpose(*perm).copy()
    lead = [d for d in da.dims if d not in ("freq", "dir")]

    def auxarr(lo, hi):
        return xr.DataArray(np.array([rng.uniform(lo, hi) for _ in range(npos)]).reshape(tuple(da.sizes[d] for d in lead)), dims=lead,
                            coords={d: da[d] for d in lead})

    return da, dict(wspd=auxarr(2, 20), wdir=auxarr(0, 360), dpt=auxarr(8, 300))


def norm(op, can, da):
    """Canonical result with the comparisons the property leaves open removed: order of equal-Hs partitions, angles of
    (near-)zero moment vectors, tied peak directions; tiny Stokes-drift components are compared against the drift speed."""
    out = []
    lead = [d for d in da.dims if d not in ("freq", "dir")]
    for c in can:
        if op in opcat.PART_HEADS:
            c = opcat.sort_parts(c, opcat.PART_HEADS[op])
        nm = c["name"].split(":")[-1]
        if nm in ("dm", "dp", "dpm") and "freq" not in c["dims"]:
            c = opcat.mask_positions(c, lead, opcat.weak_angle_positions(nm, da))
        out.append(c)
    return out


def abs_tol(op, da):
    if op in ("uss_x", "uss_y"):
        return 1e-9 * float(da.spec.uss().max())
    if op in ("momd1", "crsd"):  # signed sums that cancel: compared against the size of their terms
        return 1e-9 * float(da.spec.oned().max())
    return 0.0


def make_case(args):
    seed, icase = args
    rng = case_rng("C07", seed, icase)
    import_ws()
    import dask

    C = opcat.catalogue(include_hp01=True)
    out = []
    degenerate = rng.random() < 0.3
    da, aux = make_world(rng, degenerate=degenerate)
    force = rng.random() < 0.6
    ch = random_chunks(rng, da, force)
    sched = rng.choice(["synchronous", "threads", "threads", "threads"])
    nw = rng.choice([1, 2, 4, 16]) if sched == "threads" else None
    kw = dict(scheduler=sched)
    if nw:
        kw["num_workers"] = nw
    dch = da.chunk(ch)
    auxch = {k: v.chunk({d: ch[d] for d in v.dims}) if rng.random() < 0.5 else v for k, v in aux.items()}
    ops = rng.sample(sorted(C), 5) + [rng.choice(sorted(opcat.WATERSHED))]
    if degenerate:
        # operations with a fallback / mask branch
        ops = rng.sample(["swe", "sw", "gw", "goda", "tp", "dpm", "dpspr", "alpha", "gamma", "dspr", "tm01", "stats", "scale_by_hs"], 4) + ops[3:]
    for op in ops:
        rec = dict(op=op, icase=icase, chunks={k: (v if not isinstance(v, tuple) else list(v)) for k, v in ch.items()}, scheduler=sched,
                   workers=nw, dims=list(da.dims), shape=[int(da.sizes[d]) for d in da.dims],
                   spectral_split=bool(ch.get("freq", -1) != -1 or ch.get("dir", -1) != -1))
        try:
            ref = norm(op, opcat.canon(compute(C[op](da, aux))), da)
        except Exception as e:
            rec["skip"] = f"in-memory call raised {type(e).__name__}: {str(e)[:120]}"
            out.append(rec)
            continue
        try:
            got = norm(op, opcat.canon(compute(C[op](dch, auxch), **kw)), da)
            f32 = str(da.dtype) == "float32"
            rec["diff"] = opcat.compare(got, ref, rel=2e-5 if f32 else (3e-6 if op in opcat.FLOAT32_OUT else 1e-9),
                                        abs_=abs_tol(op, da) * (1e4 if f32 else 1.0))
        except Exception as e:
            rec["crash"] = f"{type(e).__name__}: {str(e)[:240]}"
        out.append(rec)
    # window / regridding operations with BOTH spectral dimensions split into several chunks (a running mean or an interpolation
    # evaluated block by block would see incomplete windows at the chunk edges), on arrays and on Datasets with side variables
    import xarray as xr

    dw, auxw = make_world(rng, nf=rng.choice([8, 11]), nd=rng.choice([12, 18]))
    chw = {d: (-1 if d not in ("freq", "dir") else (3 if d == "freq" else 5)) for d in dw.dims}
    for d in dw.dims:
        if d not in ("freq", "dir") and rng.random() < 0.7:
            chw[d] = 1
    dsw = dw.to_dataset(name="efth")
    for k, v in auxw.items():
        dsw[k] = v
    W = {"smooth33": lambda x: x.spec.smooth(3, 3), "smooth51": lambda x: x.spec.smooth(5, 1), "smooth15": lambda x: x.spec.smooth(1, 5),
         "interp": C["interp"], "interp_like": C["interp_like"], "rotate_any": C["rotate_any"], "split": C["split"], "ptm5": C["ptm5"],
         "bbox": C["bbox"], "ptm4": C["ptm4"],
         "ds.interp": None, "ds.smooth": None, "ds.interp_like": None}
    for op in ["ds.interp", "ds.interp_like", "ds.smooth", "bbox"] + rng.sample([k for k in sorted(W) if not k.startswith("ds.") and k != "bbox"], 2):
        rec = dict(op=f"window:{op}", icase=icase, chunks={k: v for k, v in chw.items()}, scheduler="synchronous", workers=None, dims=list(dw.dims),
                   shape=[int(dw.sizes[d]) for d in dw.dims], spectral_split=True)
        try:
            if op.startswith("ds."):
                from wavespectra.core.utils import regrid_spec

                # regrid_spec on the Dataset itself: the side variables are carried into the result (ds.spec.interp returns efth only)
                f = {"ds.interp": lambda x: regrid_spec(x, freq=opcat._mid(x.freq.values), dir=np.arange(0.0, 360.0, 30.0)),
                     "ds.smooth": lambda x: x.spec.smooth(3, 3), "ds.interp_like": lambda x: x.spec.interp_like(opcat._coarser(x.efth))}[op]
                ref = opcat.canon(compute(f(dsw)))
                if rng.random() < 0.5:
                    dsc = dsw.chunk(chw)
                else:
                    # the variables of one Dataset chunked differently from each other (native chunks of a store): the spectra one
                    # record per chunk, the side variables in a single chunk
                    lead1 = {d: 1 for d in dw.dims if d not in ("freq", "dir")}
                    dsc = dsw.assign(efth=dsw.efth.chunk(dict(chw, **lead1)), **{k: dsw[k].chunk(-1) for k in auxw})
                    rec["chunks"] = "efth: one record per chunk + spectral dims split; side variables: single chunk"
                got = opcat.canon(compute(f(dsc), scheduler="synchronous"))
            else:
                f = W[op]
                ref = opcat.canon(compute(f(dw, auxw) if op in C else f(dw)))
                dcw = dw.chunk(chw)
                got = opcat.canon(compute(f(dcw, auxw) if op in C else f(dcw), scheduler="synchronous"))
            rec["diff"] = opcat.compare(got, ref, rel=2e-5 if str(dw.dtype) == "float32" else 1e-9)
        except Exception as e:
            rec["crash"] = f"{type(e).__name__}: {str(e)[:240]}"
        out.append(rec)
    # storage variants of the in-memory block that dask's rechunking removes (it concatenates chunks into fresh C-ordered
    # arrays): direction-major storage and strided views, float32 and float64, spectral dimensions split
    if icase % 3 == 1:
        d0, aux0 = make_world(rng)
        lead0 = [d for d in d0.dims if d not in ("freq", "dir")]
        d0 = d0.transpose(*lead0, "freq", "dir").astype(rng.choice(["float32", "float64"]))
        variants = [("dir_major", d0.transpose(*lead0, "dir", "freq").copy(data=np.ascontiguousarray(d0.transpose(*lead0, "dir", "freq").values)))]
        if d0.sizes["dir"] >= 12:
            variants.append(("strided_dir", d0.isel(dir=slice(None, None, 2))))
        variants.append(("strided_freq", d0.isel(freq=slice(1, None, 1)).isel(freq=slice(None, None, 2)) if d0.sizes["freq"] >= 10 else d0.isel(freq=slice(1, None))))
        for vname, dv in variants:
            for chv in ({"dir": max(2, dv.sizes["dir"] // 3)}, {"freq": 3, "dir": 5}, {lead0[0]: 1}):
                op = rng.choice(["ptm1", "ptm2", "ptm3"])
                rec = dict(op=f"{vname}:{op}", icase=icase, chunks=dict(chv), scheduler="synchronous", workers=None, dims=list(dv.dims),
                           shape=[int(dv.sizes[d]) for d in dv.dims], spectral_split=("dir" in chv or "freq" in chv), dtype=str(dv.dtype))
                try:
                    ref = norm(op, opcat.canon(compute(C[op](dv, aux0))), dv)
                    got = norm(op, opcat.canon(compute(C[op](dv.chunk(chv), aux0), scheduler="synchronous")), dv)
                    rec["diff"] = opcat.compare(got, ref, rel=2e-5 if str(dv.dtype) == "float32" else 1e-9)
                except Exception as e:
                    rec["crash"] = f"{type(e).__name__}: {str(e)[:240]}"
                out.append(rec)
    # concurrent watershed calls under the threaded scheduler: many spectra, one per chunk, two datasets of different grid
    # shapes computed in the same dask.compute call (static C buffers, any Python-level shared scratch space)
    if icase % 3 == 0:
        import xarray as xr

        def big_world(nf, nd, nt, ns):
            freq, _ = gen.gen_freq(rng, nf, kind="log")
            dirs, _ = gen.gen_dirs(rng, nd, order="sorted")
            E = np.array([gen.gen_spectrum(rng, nf, nd, kind=rng.choice(["blobs", "noisy"]))[0] + 0.0078125 for _ in range(nt * ns)]).reshape((nt, ns, nf, nd))
            tvals = (np.array(["2020-01-01T00:00:00"], dtype="datetime64[s]") + np.arange(nt) * np.timedelta64(3600, "s")).astype("datetime64[ns]")
            d = gen.make_da(freq, dirs, E, extra=[("time", tvals), ("site", np.arange(ns, dtype=float))])
            mk = lambda lo, hi: xr.DataArray(np.array([[rng.uniform(lo, hi) for _ in range(ns)] for _ in range(nt)]), dims=("time", "site"),
                                             coords={"time": d.time, "site": d.site})
            return d, dict(wspd=mk(2, 20), wdir=mk(0, 360), dpt=mk(8, 300))

        dA, auxA = big_world(rng.choice([8, 10]), rng.choice([12, 16]), 6, 4)
        if rng.random() < 0.5:
            # the second dataset has the SAME number of bins on another grid shape (nd × nf): static tables of the native routine
            # that are sized by the bin count must still be rebuilt for the shape
            dB, auxB = big_world(dA.sizes["dir"], dA.sizes["freq"], 4, 3)
        else:
            dB, auxB = big_world(rng.choice([5, 7, 9]), rng.choice([6, 10, 14]), 4, 3)

        def fresh_native():
            # a call on a grid with another number of bins: whatever the routine keeps between calls is rebuilt by the next one
            try:
                from wavespectra.partition import partition as _P

                _P.specpart.partition(np.zeros((3, 5), dtype=np.float32), 100)
            except Exception:
                pass
        for op in ("ptm1", "ptm2", "ptm3"):
            rec = dict(op=f"concurrent:{op}", icase=icase, scheduler="threads", workers=16, shapes=[list(dA.shape), list(dB.shape)],
                       chunks="one spectrum per chunk", dims=list(dA.dims), shape=[int(x) for x in dA.shape], spectral_split=False)
            try:
                fresh_native()
                ref1 = norm(op, opcat.canon(compute(C[op](dA, auxA))), dA)
                fresh_native()
                ref2 = norm(op, opcat.canon(compute(C[op](dB, auxB))), dB)
                r1 = C[op](dA.chunk({"time": 1, "site": 1}), auxA)
                r2 = C[op](dB.chunk({"time": 1, "site": 1}), auxB)
                g1, g2 = dask.compute(r1, r2, scheduler="threads", num_workers=16)
                rec["diff"] = opcat.compare(norm(op, opcat.canon(g1), dA), ref1, rel=1e-9) or opcat.compare(norm(op, opcat.canon(g2), dB), ref2, rel=1e-9)
            except Exception as e:
                rec["crash"] = f"{type(e).__name__}: {str(e)[:240]}"
            out.append(rec)
    return out


def run_check():
    ck = Check("C07", level="other")
    ck.explanation = ("x.chunk(c).spec.<op>().compute(scheduler=s) is compared with the in-memory result for random chunkings of every "
                      "dimension (single chunk, one element per chunk, uneven, spectral dimensions split) under the synchronous scheduler and "
                      "the threaded scheduler with 1, 2, 4, 16 workers, including concurrent watershed calls on datasets of different grid "
                      "shapes; a call that raises because of the chunking is a violation. The Lean part (Props/C07.lean) proves the chunk "
                      "algebra the code relies on (sums over any chunking/reduction tree, blockwise maps, single-chunk core dimensions after "
                      "chunk(-1), interleaving of atomic calls whose output does not depend on the static state); dask itself and the GIL "
                      "atomicity of the C call are not modelled, so the level is 'other'.")
    ck.extra["rule"] = ("signature = (operation, scheduler, workers, spectral dims split?, number of dims); non-trivial = at least one dimension "
                        "has more than one chunk")
    ck.do_audit()
    import_ws()
    n = 36 if ck.tier == "quick" else 500
    from ..common import replay_ids

    res = pmap(make_case, [(ck.seed, i) for i in replay_ids(ck, n)], nproc=6)
    for recs in res:
        for r in recs:
            multi = any(v != -1 for v in r["chunks"].values()) if isinstance(r["chunks"], dict) else True
            ck.case((r["op"], r["scheduler"], r.get("workers"), r["spectral_split"], len(r["dims"])), multi,
                    sample={k: r[k] for k in ("op", "chunks", "scheduler", "workers", "shape")})
            ck.count("sched:" + r["scheduler"] + (f":{r.get('workers')}" if r.get("workers") else ""))
            if "skip" in r:
                ck.count("skipped_inmemory_raise")
                continue
            if "crash" in r:
                trig = "core_dim_chunked" if "consists of multiple chunks" in r["crash"] else "crash"
                ck.fail(r["op"], f"dask-backed call raised: {r['crash']}", r, trig)
            elif r.get("diff"):
                ck.fail(r["op"], f"dask result differs from in-memory: {r['diff']}", r, "dask_differs")
    # textual fact the atomicity argument rests on: the C wrapper never releases the GIL
    from ..common import REPO

    wrap = (REPO / "wavespectra/partition/specpart/specpart_wrap.c").read_text()
    if "Py_BEGIN_ALLOW_THREADS" in wrap or "PyEval_SaveThread" in wrap:
        ck.disagree("gil", "specpart_wrap.c releases the GIL: atomicity assumption of the interleaving theorem no longer holds", {})
    ck.assumptions = ["C entry point runs under the GIL (checked textually: no Py_BEGIN_ALLOW_THREADS in specpart_wrap.c)",
                      "dask graph construction and scheduling are not modelled"]
    return ck.finish()


if __name__ == "__main__":
    from ..common import main_wrapper

    main_wrapper(run_check)

"""C12 — model-native datasets are converted with the right units and direction sense (DESIGN §3 C12).

In-memory native datasets (WW3, SWAN netCDF, WWM, ERA5, NDBC netCDF) → `read_dataset(ds)` and `from_<model>(ds)`.

* correspondence: dispatcher routing, result names, converted coordinates/densities, winds, NDBC rows and the ERA5
  default grids against the compiled Lean model (`native_*` driver ops);
* DIRECT ORACLE (independent of the model, plain numpy): the result is laid out in the wavespectra convention; the
  variance of every spectrum integrated with the converted coordinates (the accessor's own Δf, Δθ) equals the
  harness's integral in native units; every direction label lies in [0,360) and every bin sits at its physical
  (coming-from) direction with the density rescaled by the published unit factor; winds come back as speed +
  coming-from direction; lon/lat lose their time axis; optional variables are renamed, the rest dropped.

The readers are always given deep copies (from_ww3 / from_ncswan scale the caller's buffer in place: property C17);
whether the input was modified is only counted (`observed:caller_buffer_scaled`).
"""
import math
import os

import numpy as np

from .. import gen
from ..common import Check, ang_close, case_rng, close, enc, enc_v, enc_m, enc_o, fr, import_ws, parse_resp, pmap, run_driver, log

PI = math.pi
D2R = PI / 180.0
R2D = 180.0 / PI
PI_S = enc(np.pi)
TO_KEEP = {"efth", "wspd", "wdir", "dpt", "lon", "lat"}
SIGNATURE = {"ww3": {"frequency", "direction", "station", "efth"}, "ncswan": {"frequency", "direction", "points", "density"},
             "wwm": {"nfreq", "ndir", "nbstation", "AC"}, "era5": {"frequency", "direction", "d2fd"},
             "ndbc": {"frequency", "spectral_wave_density"}}
NATIVE_ONLY = {"frequency", "direction", "station", "points", "density", "nfreq", "ndir", "nbstation", "AC", "d2fd",
               "spectral_wave_density", "ocean_time", "longitude", "latitude", "wnd", "wnddir", "xwnd", "ywnd", "Uwind", "Vwind",
               "SPSIG", "SPDIR", "DEP", "depth", "string16", "station_name"}
WWM_KEYS = ["nfreq", "ndir", "nbstation", "AC", "lon", "lat", "DEP", "ocean_time"]


# ------------------------------------------------------------------------------------------------------------------
# instrumentation: which reader does read_dataset call
# ------------------------------------------------------------------------------------------------------------------
_called = []
_patched = False


def patch_dispatch():
    global _patched
    if _patched:
        return
    import wavespectra.input.dataset as D

    for lab in ("ww3", "ncswan", "wwm", "era5", "ndbc"):
        orig = getattr(D, "from_" + lab)

        def g(dset, _lab=lab, _orig=orig, **kw):
            _called.append(_lab)
            if os.environ.get("_C12_STUB") == "1":
                return ("stub", _lab)
            return _orig(dset, **kw)

        setattr(D, "from_" + lab, g)
    _patched = True


def run_dispatch(ds, **kw):
    """read_dataset on `ds`; returns (label actually called | identity | none | crash:<exc>, result or None)."""
    import wavespectra.input.dataset as D

    patch_dispatch()
    del _called[:]
    try:
        out = D.read_dataset(ds, **kw)
    except ValueError as e:
        if not _called and "Cannot identify" in str(e):
            return "none", None, None
        return (_called[0] if _called else "none"), None, f"ValueError: {e}"
    except Exception as e:  # noqa
        return (_called[0] if _called else "none"), None, f"{type(e).__name__}: {e}"
    if not _called:
        return ("identity" if out is ds else "identity?"), out, None
    return _called[0], out, None


# ------------------------------------------------------------------------------------------------------------------
# native dataset builders (meta = canonical native arrays for the oracle)
# ------------------------------------------------------------------------------------------------------------------
def rand_spectra(rng, shape, nf, nd, dtype):
    npos = int(np.prod(shape)) if shape else 1
    Es = []
    for _ in range(npos):
        if rng.random() < 0.5 and nf * nd <= 200:
            E, _ = gen.gen_spectrum(rng, nf, nd, kind=rng.choice(["blobs", "noisy", "sparse", "ties", "const", "zero", "single"]), exact=False)
        else:
            r = np.random.default_rng(rng.getrandbits(32))
            E = r.random((nf, nd)) ** 3 * 10 ** rng.uniform(-3, 2)
        Es.append(E)
    arr = np.array(Es).reshape(tuple(shape) + (nf, nd))
    return np.asarray(arr.astype(dtype), dtype=float), dtype


def native_dirs_deg(rng, nd):
    """Native direction labels in degrees: uniform grid, any offset/order, optionally outside [0,360)."""
    full = rng.random() < 0.8 or nd == 1
    d, order = gen.gen_dirs(rng, nd, order=rng.choice(["sorted", "sorted", "rotated", "reversed", "seam"]) if nd > 1 else None, full=full)
    d = np.asarray(d, dtype=float)
    rangek = rng.choice(["0-360", "0-360", "0-360", "pm180", "shifted"])
    if rangek == "pm180":
        d = np.where(d >= 180.0, d - 360.0, d)
    elif rangek == "shifted":
        d = d + 360.0 * rng.choice([-1, 1])
    return d, order + ":" + ("full" if full else "sector") + ":" + rangek


def dim_order(rng, dims):
    dims = list(dims)
    if rng.random() < 0.3:
        rng.shuffle(dims)
    return dims


def build_ww3(rng, big):
    import xarray as xr

    nt, ns = rng.randint(1, 3), rng.randint(1, 3)
    nf = rng.choice([1, 2, 3, 5, 8, 12] + ([25] if big else []))
    nd = rng.choice([1, 2, 3, 4, 8, 12, 16] + ([24, 36] if big else []))
    dtype = rng.choice(["float64", "float64", "float32"])
    freq, fk = gen.gen_freq(rng, nf, exact=True)
    dirs, dk = native_dirs_deg(rng, nd)
    if dtype == "float32":
        freq = np.asarray(np.asarray(freq, dtype="float32"), dtype=float)
    E, _ = rand_spectra(rng, (nt, ns), nf, nd, dtype)
    can = ["time", "station", "frequency", "direction"]
    order = dim_order(rng, can)
    dv = {"efth": (order, np.transpose(E, [can.index(d) for d in order]).astype(dtype))}
    lon = np.array([rng.uniform(0, 360) for _ in range(ns)])
    lat = np.array([rng.uniform(-80, 80) for _ in range(ns)])
    lonlat_time = rng.random() < 0.6
    if lonlat_time:
        # positions drifting with time: the reader keeps the first time step
        drift = np.array([[0.01 * t * (1 + s) for s in range(ns)] for t in range(nt)]) * (rng.random() < 0.5)
        dv["longitude"] = (("time", "station"), np.tile(lon, (nt, 1)) + drift)
        dv["latitude"] = (("time", "station"), np.tile(lat, (nt, 1)) + drift)
    else:
        dv["longitude"] = (("station",), lon)
        dv["latitude"] = (("station",), lat)
    meta = dict(conv="ww3", lead=["time", "site"], freq=freq, dirs=dirs, E=E, dtype=dtype, lon=lon, lat=lat, nt=nt, ns=ns)
    wind = rng.random() < 0.6
    dpt = rng.random() < 0.6
    if wind:
        meta["wnd"] = np.array([[rng.uniform(0, 25) for _ in range(ns)] for _ in range(nt)])
        meta["wnddir"] = np.array([[rng.uniform(0, 360) for _ in range(ns)] for _ in range(nt)])
        dv["wnd"] = (("time", "station"), meta["wnd"])
        dv["wnddir"] = (("time", "station"), meta["wnddir"])
    if dpt:
        meta["dpt"] = np.array([[rng.uniform(1, 5000) for _ in range(ns)] for _ in range(nt)])
        dv["dpt"] = (("time", "station"), meta["dpt"])
    names = rng.random() < 0.3
    if names:
        dv["station_name"] = (("station", "string16"), np.full((ns, 16), b"a", dtype="S1"))
    extra_var = rng.random() < 0.3
    if extra_var:
        dv["cur"] = (("time", "station"), np.zeros((nt, ns)))  # not a wavespectra variable: must be dropped
    coords = dict(time=np.arange(nt) * np.timedelta64(1, "h") + np.datetime64("2020-01-01"), station=np.arange(1, ns + 1),
                  frequency=freq.astype(dtype) if dtype == "float32" else freq,
                  direction=dirs.astype(dtype) if (dtype == "float32" and np.all(dirs * 4 == np.round(dirs * 4))) else dirs)
    ds = xr.Dataset(dv, coords=coords)
    meta["dirs"] = np.asarray(ds.direction.values, dtype=float)
    meta["tags"] = (dk, fk, dtype, "ll_t" if lonlat_time else "ll", "wind" if wind else "nowind", "dpt" if dpt else "nodpt",
                    "perm" if order != can else "canon")
    meta["dropped"] = ["cur"] if extra_var else []
    return ds, meta


def build_ncswan(rng, big):
    import xarray as xr

    nt, ns = rng.randint(1, 3), rng.randint(1, 3)
    nf = rng.choice([1, 2, 3, 5, 8, 12] + ([25] if big else []))
    nd = rng.choice([1, 2, 3, 4, 8, 12, 16] + ([24, 36] if big else []))
    dtype = rng.choice(["float64", "float64", "float32"])
    freq, fk = gen.gen_freq(rng, nf, exact=True)
    ddeg, dk = native_dirs_deg(rng, nd)
    dirs = np.deg2rad(ddeg)
    E, _ = rand_spectra(rng, (nt, ns), nf, nd, dtype)
    can = ["time", "points", "frequency", "direction"]
    order = dim_order(rng, can)
    dv = {"density": (order, np.transpose(E, [can.index(d) for d in order]).astype(dtype))}
    lon = np.array([rng.uniform(0, 360) for _ in range(ns)])
    lat = np.array([rng.uniform(-80, 80) for _ in range(ns)])
    lonlat_time = rng.random() < 0.4
    if lonlat_time:
        dv["longitude"] = (("time", "points"), np.tile(lon, (nt, 1)))
        dv["latitude"] = (("time", "points"), np.tile(lat, (nt, 1)))
    else:
        dv["longitude"] = (("points",), lon)
        dv["latitude"] = (("points",), lat)
    meta = dict(conv="ncswan", lead=["time", "site"], freq=freq, dirs=dirs, E=E, dtype=dtype, lon=lon, lat=lat, nt=nt, ns=ns)
    wind = rng.random() < 0.6
    depth = rng.random() < 0.6
    if wind:
        meta["u"], meta["v"] = gen_uv(rng, (nt, ns))
        dv["xwnd"] = (("time", "points"), meta["u"])
        dv["ywnd"] = (("time", "points"), meta["v"])
    elif rng.random() < 0.3:
        dv["xwnd"] = (("time", "points"), np.ones((nt, ns)))  # only one component: no wind can be built
    if depth:
        meta["dpt"] = np.array([[rng.uniform(1, 5000) for _ in range(ns)] for _ in range(nt)])
        dv["depth"] = (("time", "points"), meta["dpt"])
    coords = dict(time=np.arange(nt) * np.timedelta64(1, "h") + np.datetime64("2020-01-01"), frequency=freq, direction=dirs)
    if rng.random() < 0.3:
        coords["points"] = np.arange(ns)
    ds = xr.Dataset(dv, coords=coords)
    meta["tags"] = (dk, fk, dtype, "ll_t" if lonlat_time else "ll", "wind" if wind else "nowind", "dpt" if depth else "nodpt",
                    "perm" if order != can else "canon")
    meta["dropped"] = ["xwnd", "ywnd"]
    return ds, meta


def gen_uv(rng, shape):
    n = int(np.prod(shape))
    u, v = [], []
    for _ in range(n):
        k = rng.random()
        if k < 0.1:
            a, s = rng.choice([0, 90, 180, 270]), rng.uniform(1, 20)  # along an axis
        elif k < 0.15:
            a, s = 0.0, 0.0  # calm
        elif k < 0.25:
            a, s = rng.uniform(0, 360), rng.choice([0.004, 0.008, 0.05])  # nearly calm: the direction is still defined
        else:
            a, s = rng.uniform(0, 360), rng.uniform(0.1, 30)
        u.append(s * math.cos(math.radians(a)))
        v.append(s * math.sin(math.radians(a)))
    u, v = np.array(u).reshape(shape), np.array(v).reshape(shape)
    u[np.abs(u) < 1e-12] = 0.0
    v[np.abs(v) < 1e-12] = 0.0
    return u, v


def build_wwm(rng, big):
    import xarray as xr

    nt, ns = rng.randint(1, 3), rng.randint(1, 3)
    nf = rng.choice([1, 2, 3, 5, 8, 12] + ([25] if big else []))
    nd = rng.choice([1, 2, 3, 4, 8, 12, 16] + ([24, 36] if big else []))
    dtype = rng.choice(["float64", "float64", "float32"])
    freq, fk = gen.gen_freq(rng, nf, exact=True)
    sig = 2 * PI * freq
    full = rng.random() < 0.85 or nd == 1
    ddeg, order_k = gen.gen_dirs(rng, nd, order=rng.choice(["sorted", "sorted", "rotated", "reversed", "seam"]) if nd > 1 else None, full=full)
    ddeg = np.asarray(ddeg, dtype=float)
    rangek = "0-2pi"
    if rng.random() < 0.12:
        rangek = rng.choice(["pm-pi", "shifted"])
        ddeg = np.where(ddeg >= 180.0, ddeg - 360.0, ddeg) if rangek == "pm-pi" else ddeg + 360.0
    spdir = np.deg2rad(ddeg)
    E, _ = rand_spectra(rng, (nt, ns), nf, nd, dtype)
    can = ["ocean_time", "nbstation", "nfreq", "ndir"]
    order = dim_order(rng, can)
    dv = {"AC": (order, np.transpose(E, [can.index(d) for d in order]).astype(dtype)), "SPSIG": (("nfreq",), sig), "SPDIR": (("ndir",), spdir)}
    lon = np.array([rng.uniform(0, 360) for _ in range(ns)])
    lat = np.array([rng.uniform(-80, 80) for _ in range(ns)])
    absent = []
    k = rng.random()
    if k < 0.06:
        absent = ["DEP"]
    elif k < 0.10:
        absent = ["lon", "lat"]
    if "lon" not in absent:
        dv["lon"] = (("nbstation",), lon)
        dv["lat"] = (("nbstation",), lat)
    meta = dict(conv="wwm", lead=["time", "site"], freq=sig, dirs=spdir, E=E, dtype=dtype, nt=nt, ns=ns, absent=absent)
    if "lon" not in absent:
        meta["lon"], meta["lat"] = lon, lat
    wind = rng.random() < 0.6
    if wind:
        meta["u"], meta["v"] = gen_uv(rng, (nt, ns))
        dv["Uwind"] = (("ocean_time", "nbstation"), meta["u"])
        dv["Vwind"] = (("ocean_time", "nbstation"), meta["v"])
    if "DEP" not in absent:
        meta["dpt"] = np.array([[rng.uniform(1, 5000) for _ in range(ns)] for _ in range(nt)])
        dv["DEP"] = (("ocean_time", "nbstation"), meta["dpt"])
    coords = dict(ocean_time=np.arange(nt) * np.timedelta64(1, "h") + np.datetime64("2020-01-01"))
    indexed = rng.random() < 0.3
    if indexed:
        # the spectral dimensions carry index coordinates 0..n-1 (what xarray adds when a file is re-saved with them)
        coords.update(nfreq=np.arange(nf), ndir=np.arange(nd))
    ds = xr.Dataset(dv, coords=coords)
    meta["tags"] = (order_k + ":" + ("full" if full else "sector") + ":" + rangek + (":indexed" if indexed else ""), fk, dtype, "wind" if wind else "nowind",
                    "absent:" + "+".join(absent) if absent else "allkeys", "perm" if order != can else "canon")
    meta["dropped"] = ["SPSIG", "SPDIR", "Uwind", "Vwind"]
    return ds, meta


ERA5_F = np.array([0.03453 * 1.1 ** k for k in range(30)])
ERA5_GOING_TO = np.array([7.5 + 15.0 * k for k in range(24)])


def build_era5(rng, big):
    """mode `dispatch`: the native layout of an ERA5 file (d2fd, integer frequency/direction coordinates);
    mode `default` / `custom`: the layout `read_era5` hands to `from_era5` (renamed by read_netcdf)."""
    import xarray as xr

    mode = rng.choice(["dispatch", "default", "custom", "custom"])
    nt, nla, nlo = rng.randint(1, 2), rng.randint(1, 2), rng.randint(1, 3)
    if mode == "custom":
        nf = rng.choice([1, 2, 3, 5, 8])
        nd = rng.choice([1, 2, 4, 8, 12])
        freq, fk = gen.gen_freq(rng, nf, exact=True)
        dirs, dk = gen.gen_dirs(rng, nd, order=rng.choice(["sorted", "rotated", "reversed", "seam"]) if nd > 1 else None)
        dirs = np.asarray(dirs, dtype=float)
    else:
        nf, nd, fk, dk = 30, 24, "era5", "era5"
        freq, dirs = ERA5_F, (ERA5_GOING_TO + 180.0) % 360.0
    r = np.random.default_rng(rng.getrandbits(32))
    d = r.uniform(-9, 1.5, (nt, nla, nlo, nf, nd))
    miss = rng.choice(["none", "some", "some", "spectrum", "all"])
    if miss == "some":
        d[r.random(d.shape) < 0.15] = np.nan
    elif miss == "spectrum":
        d[0, 0, 0] = np.nan  # ERA5 land point
    elif miss == "all":
        d[:] = np.nan
    can = ["time", "latitude", "longitude", "frequency", "direction"]
    order = ["time", "frequency", "direction", "latitude", "longitude"] if rng.random() < 0.7 else dim_order(rng, can)
    data = np.transpose(d, [can.index(x) for x in order])
    lat = np.linspace(72, -72, nla) if nla > 1 else np.array([10.0])
    lon = np.linspace(0, 324, nlo) if nlo > 1 else np.array([100.0])
    # what the native coordinates hold: bin numbers 1..N (files from the CDS), the same as floats, or — in re-exported files — the
    # physical values themselves (frequencies in Hz, going-to directions in degrees); the reader assigns its grids by position
    ckind = rng.choice(["pos", "pos", "floatpos", "values"]) if mode != "custom" else rng.choice(["pos", "floatpos"])
    fco, dco = np.arange(1, nf + 1), np.arange(1, nd + 1)
    if ckind == "floatpos":
        fco, dco = fco.astype(float), dco.astype(float)
    elif ckind == "values":
        fco, dco = np.asarray(ERA5_F, dtype=float), np.asarray(ERA5_GOING_TO, dtype=float)
    coords = dict(time=np.arange(nt) * np.timedelta64(1, "h") + np.datetime64("2020-01-01"), latitude=lat, longitude=lon,
                  frequency=fco, direction=dco)
    ds = xr.Dataset({"d2fd": (order, data)}, coords=coords)
    if mode != "dispatch":
        ds = ds.rename(d2fd="efth", frequency="freq", direction="dir", latitude="lat", longitude="lon")
    with np.errstate(all="ignore"):
        E = np.where(np.isnan(d), 0.0, 10.0 ** d)
    meta = dict(conv="era5", mode=mode, lead=["time", "lat", "lon"], freq=np.asarray(freq, dtype=float), dirs=dirs, d=d, E=E, dtype="float64",
                tags=(mode, fk, dk, "miss:" + miss, "perm" if order[:3] != ["time", "frequency", "direction"] else "file-order", "coords:" + ckind))
    return ds, meta


def build_ndbc(rng, big):
    import xarray as xr

    nt = rng.randint(1, 3)
    nf = rng.choice([1, 2, 3, 5, 8] + ([47] if big else []))
    freq, fk = gen.gen_freq(rng, nf, exact=True)
    latlon_dims = rng.random() < 0.4
    dims = ("time", "frequency") + (("latitude", "longitude") if latlon_dims else ())
    shp = (nt, nf) + ((1, 1) if latlon_dims else ())
    r = np.random.default_rng(rng.getrandbits(32))
    ef = r.random(shp) ** 2 * 10 ** rng.uniform(-2, 1.5)
    if rng.random() < 0.2:
        ef[r.random(shp) < 0.3] = 0.0
    moments = rng.random() < 0.7
    alt = (not moments) and rng.random() < 0.3  # alternative (CDIP-like) names, only understood by from_ndbc
    dv = {"spectral_wave_density": (dims, ef)}
    meta = dict(conv="ndbc", freq=np.asarray(freq, dtype=float), ef=ef, nt=nt, latlon_dims=latlon_dims, moments=moments, alt=alt, dtype="float64")
    if moments:
        meta["a1"], meta["a2"] = r.uniform(0, 360, shp), r.uniform(0, 360, shp)
        meta["r1"], meta["r2"] = r.uniform(0, 1, shp), r.uniform(0, 1, shp)
        if rng.random() < 0.3:
            meta["a1"], meta["a2"] = np.round(meta["a1"] / 10) * 10, np.round(meta["a2"] / 10) * 10
        dv.update(mean_wave_dir=(dims, meta["a1"]), principal_wave_dir=(dims, meta["a2"]), wave_spectrum_r1=(dims, meta["r1"]),
                  wave_spectrum_r2=(dims, meta["r2"]))
        if rng.random() < 0.3:
            dv = dict((k, dv[k]) for k in dv if k != "wave_spectrum_r2")  # incomplete moments: falls back to 1-D
            meta["moments"] = False
            meta["incomplete"] = True
    coords = dict(time=np.arange(nt) * np.timedelta64(1, "h") + np.datetime64("2020-01-01"), frequency=freq)
    if latlon_dims:
        coords.update(latitude=[30.0], longitude=[-70.0])
    ds = xr.Dataset(dv, coords=coords)
    if alt:
        ds = ds.rename(frequency="waveFrequency", time="waveTime", spectral_wave_density="waveEnergyDensity")
    kw = {}
    k = rng.random()
    if k < 0.15:
        kw["directional"] = False
    if rng.random() < 0.7:
        kw["dd"] = rng.choice([5.0, 7.5, 10.0, 15.0, 20.0, 22.5, 30.0, 45.0, 90.0, 120.0, 7.0, 25.0, 11.0])
    meta["kw"] = kw
    directional = meta["moments"] and kw.get("directional", True)
    dd = kw.get("dd", 10.0)
    meta["directional"] = directional
    meta["dd"] = dd
    meta["divides"] = abs(360.0 / dd - round(360.0 / dd)) < 1e-12
    meta["lead"] = ["time"] + (["lat", "lon"] if latlon_dims else [])
    meta["tags"] = ("2d" if directional else "1d", "moments" if moments else "nomoments", "dd=%g" % dd if directional else "-",
                    "latlon" if latlon_dims else "nolatlon", "alt" if alt else "std", fk, "incomplete" if meta.get("incomplete") else "-")
    return ds, meta


BUILDERS = dict(ww3=build_ww3, ncswan=build_ncswan, wwm=build_wwm, era5=build_era5, ndbc=build_ndbc)


# ------------------------------------------------------------------------------------------------------------------
# oracle helpers (plain numpy, native units)
# ------------------------------------------------------------------------------------------------------------------
def gradient(x):
    x = np.asarray(x, dtype=float)
    return np.gradient(x) if len(x) > 1 else np.array([1.0])


def width_circ(d, period):
    """Bin width of the property statement: spacing between the first two stored labels, the short way round."""
    if len(d) < 2:
        return 1.0
    w = abs(float(d[1]) - float(d[0]))
    return min(w, period - w)


ONE_DEG = D2R  # the accessor gives a single direction a unit (1°) bin: in native units that bin is π/180 rad wide


def native_integral(conv, meta):
    """(variance per position [canonical lead shape], per-bin expected converted density, physical coming-from direction
    of every native bin in degrees) — the property text restated in native units."""
    f, th, E = meta["freq"], meta["dirs"], meta["E"]
    if conv == "ww3":
        dth = width_circ(th, 360.0) * D2R if len(th) > 1 else ONE_DEG
        var = np.einsum("...fd,f->...", E, gradient(f)) * dth
        return var, E * D2R, (th + 180.0)
    if conv == "ncswan":
        dth = width_circ(th, 2 * PI) if len(th) > 1 else ONE_DEG
        var = np.einsum("...fd,f->...", E, gradient(f)) * dth
        return var, E * D2R, np.rad2deg(th)
    if conv == "wwm":
        dth = width_circ(th, 2 * PI) if len(th) > 1 else ONE_DEG
        dsig = gradient(f) if len(f) > 1 else np.array([2 * PI])  # a single 1 Hz bin is 2π rad/s wide
        var = np.einsum("...fd,f->...", E, f * dsig) * dth  # Σ N·σ·Δσ·Δθ
        return var, E * f[:, None] * 2 * PI * D2R, np.rad2deg(th)
    if conv == "era5":
        dth = width_circ(th, 360.0) * D2R if len(th) > 1 else ONE_DEG
        var = np.einsum("...fd,f->...", E, gradient(f)) * dth
        return var, E * D2R, th
    raise ValueError(conv)


def conv_unit_note(nd):
    return "Δθ=1 for a single direction (accessor rule) on both sides" if nd == 1 else ""


class Rec:
    """What one case reports back to the parent process (plain data only)."""

    def __init__(self, icase, conv):
        self.icase, self.conv = icase, conv
        self.reqs = []      # (request line, ctx)
        self.fails = []     # (op, what, trigger)
        self.disagree = []  # (op, what) decided in the worker (model-independent consistency)
        self.counts = {}
        self.ambiguous = 0
        self.sig = None
        self.nontrivial = True
        self.desc = {}

    def count(self, k, n=1):
        self.counts[k] = self.counts.get(k, 0) + n

    def fail(self, op, what, trigger=None):
        self.fails.append((op, what, trigger))


def names_of(ds):
    return sorted(set(str(k) for k in ds.variables.keys()) | set(str(d) for d in ds.dims))


def names_req(reader, directional, ds, spec):
    alln = names_of(ds)
    dims = [str(d) for d in ds.dims]
    return " ".join(["native_names", reader, "1" if directional else "0", str(len(alln))] + alln + [str(len(dims))] + dims + [spec])


def tol_for(dtype):
    return 1e-9 if dtype == "float64" else 2e-5


def check_layout(rec, op, out, meta, lead, oned=False):
    """O1: wavespectra convention. Returns True when the result can be examined further."""
    import xarray as xr

    trig = "era5_via_dispatcher" if (meta["conv"] == "era5" and meta.get("mode") == "dispatch" and op == "read_dataset") else None
    if not isinstance(out, xr.Dataset):
        rec.fail(op, f"result is {type(out).__name__}, not a Dataset", trig)
        return False
    problems = []
    if "efth" not in out.data_vars:
        problems.append(f"no data variable 'efth' (data_vars={sorted(map(str, out.data_vars))})")
    else:
        want = set(lead) | {"freq"} | (set() if oned else {"dir"})
        if set(map(str, out.efth.dims)) != want:
            problems.append(f"efth dims {tuple(out.efth.dims)} != {sorted(want)}")
    for c in ["freq"] + ([] if oned else ["dir"]):
        if c not in out.coords:
            problems.append(f"no coordinate '{c}'")
    left = sorted((set(map(str, out.variables)) | set(map(str, out.dims))) & NATIVE_ONLY)
    if left:
        problems.append(f"native names left in the result: {left}")
    extra = sorted(set(map(str, out.data_vars)) - TO_KEEP)
    if extra:
        problems.append(f"data variables outside the convention: {extra}")
    if problems:
        rec.fail(op, "; ".join(problems), trig)
        return False
    return True


def canon(out, name, lead, oned=False):
    dims = [d for d in lead if d in out[name].dims] + ["freq"] + ([] if oned else ["dir"])
    return np.asarray(out[name].transpose(*dims).values, dtype=float)


def examine_spectral(rec, op, out, meta):
    """O2–O4 on a result in the convention: variance, direction labels, bin-for-bin densities."""
    conv, lead, dtype = meta["conv"], meta["lead"], meta["dtype"]
    tol = tol_for(dtype)
    var_nat, E_exp, phys = native_integral(conv, meta)
    nf, nd = len(meta["freq"]), len(meta["dirs"])
    Eo = canon(out, "efth", lead)
    fo = np.asarray(out.freq.values, dtype=float)
    do = np.asarray(out.dir.values, dtype=float)
    if Eo.shape != E_exp.shape or len(fo) != nf or len(do) != nd:
        rec.fail(op, f"shape changed: efth {Eo.shape} vs native {E_exp.shape}, freq {len(fo)}, dir {len(do)}")
        return
    # frequency axis in hertz
    f_exp = meta["freq"] / (2 * PI) if conv == "wwm" else meta["freq"]
    if not np.allclose(fo, f_exp, rtol=tol, atol=0):
        rec.fail(op, f"freq {fo.tolist()} != native frequencies in Hz {np.asarray(f_exp).tolist()}")
    # direction labels: in [0,360) and each the physical coming-from direction of a native bin
    trig_dir = None
    if conv == "wwm" and (np.any(meta["dirs"] < 0) or np.any(meta["dirs"] >= 2 * PI)):
        trig_dir = "wwm_spdir_outside_0_2pi"
    pm = np.asarray(phys, dtype=float) % 360.0
    near_seam = np.minimum(pm, 360.0 - pm)  # distance of the physical direction to the 0/360 seam
    for j in range(nd):
        if not (0.0 <= do[j] < 360.0):
            if near_seam[j] < 1e-7 and abs(do[j] - 360.0) < 1e-7:
                rec.ambiguous += 1  # a label that is 0 up to rounding may come out as 360.0 from a floating-point `%`
                continue
            rec.fail(op, f"direction label {do[j]} (bin {j}) outside [0,360); native label {meta['dirs'][j]}", trig_dir)
            break
    perm = []
    dtol = 1e-6 if dtype == "float64" else 2e-3
    for j in range(nd):
        ks = [k for k in range(nd) if ang_close(float(do[j]), float(phys[k]), tol=dtol)]
        if len(ks) != 1:
            rec.fail(op, f"direction label {do[j]} (bin {j}) is not the coming-from direction of exactly one native bin "
                         f"(physical directions {np.round(phys % 360.0, 6).tolist()})")
            return
        perm.append(ks[0])
    if perm != list(range(nd)):
        rec.count("bins_reordered")
    # bin for bin: density at each label = published unit factor × native density of the bin with that physical direction
    scale = float(np.abs(E_exp).max()) if E_exp.size else 0.0
    diff = np.abs(Eo - E_exp[..., perm])
    if scale > 0 and float(diff.max()) > tol * scale:
        idx = np.unravel_index(int(diff.argmax()), diff.shape)
        ratio = float(Eo[idx] / E_exp[..., perm][idx]) if E_exp[..., perm][idx] else float("nan")
        rec.fail(op, f"density at bin {tuple(int(i) for i in idx)} is {Eo[idx]} but the unit conversion of the native bin gives "
                     f"{E_exp[..., perm][idx]} (ratio {ratio})")
    # variance with the converted coordinates, the accessor's own widths
    try:
        sp = out.efth.spec
        dfa = np.asarray(sp.df.values, dtype=float)
        dda = float(sp.dd)
    except Exception as e:  # noqa
        rec.fail(op, f"accessor widths unavailable on the result: {type(e).__name__}: {e}")
        return
    var_conv = np.einsum("...fd,f->...", Eo, dfa) * dda
    vs = np.einsum("...fd,f->...", np.abs(E_exp), np.abs(gradient(f_exp))) * dda + 1e-300
    bad = np.abs(var_conv - var_nat) > tol * np.maximum(vs, np.abs(var_nat)) * 4
    if np.any(bad):
        idx = tuple(int(i) for i in np.argwhere(bad)[0])
        rec.fail(op, f"variance of spectrum {idx}: {var_conv[idx]} with the converted coordinates (Δθ={dda}) vs {var_nat[idx]} in native units "
                     f"(ratio {var_conv[idx] / var_nat[idx] if var_nat[idx] else float('nan')})")


def examine_aux(rec, op, out, meta):
    """O5–O6: winds, positions, depth."""
    conv = meta["conv"]
    nt, ns = meta["nt"], meta["ns"]
    for nm in ("lon", "lat"):
        if nm in meta:
            if nm not in out:
                rec.fail(op, f"'{nm}' missing from the result")
                continue
            if "time" in out[nm].dims:
                rec.fail(op, f"'{nm}' still depends on time")
                continue
            v = np.asarray(out[nm].values, dtype=float).ravel()
            if v.shape != (ns,) or not np.allclose(v, meta[nm], rtol=1e-12, atol=0):
                rec.fail(op, f"'{nm}' = {v.tolist()} but the native positions (first time step) are {meta[nm].tolist()}")
    if "dpt" in meta:
        if "dpt" not in out:
            rec.fail(op, "depth variable missing from the result (expected 'dpt')")
        elif not np.allclose(np.asarray(out.dpt.transpose("time", "site").values, dtype=float), meta["dpt"], rtol=1e-12):
            rec.fail(op, "depth values changed")
    if conv == "ww3":
        if "wnd" in meta:
            if "wspd" not in out or "wdir" not in out:
                rec.fail(op, "wind speed/direction missing from the result")
            else:
                if not np.allclose(out.wspd.transpose("time", "site").values, meta["wnd"], rtol=1e-12) or \
                        not np.allclose(out.wdir.transpose("time", "site").values, meta["wnddir"], rtol=1e-12):
                    rec.fail(op, "WW3 wind speed / direction (already speed + coming-from) were altered")
        elif "wspd" in out or "wdir" in out:
            rec.fail(op, "wind variables invented")
        return
    if "u" in meta:
        if "wspd" not in out or "wdir" not in out:
            rec.fail(op, "wind speed/direction missing from the result although both components are given")
            return
        spd = np.asarray(out.wspd.transpose("time", "site").values, dtype=float)
        wd = np.asarray(out.wdir.transpose("time", "site").values, dtype=float)
        u, v = meta["u"], meta["v"]
        mag = np.hypot(u, v)
        if not np.allclose(spd, mag, rtol=1e-9, atol=1e-12):
            rec.fail(op, f"wind speed {spd.ravel().tolist()} != sqrt(u²+v²) {mag.ravel().tolist()}")
        for (i, j), m in np.ndenumerate(mag):
            if m < 1e-9:
                rec.ambiguous += 1
                continue
            if not (0.0 <= wd[i, j] <= 360.0) or (wd[i, j] == 360.0 and abs(u[i, j]) > 1e-9 * m):
                rec.fail(op, f"wind direction {wd[i, j]} outside [0,360)")
                break
            # unit vector of the coming-from direction points against (u, v)
            ex, ey = -math.sin(math.radians(wd[i, j])), -math.cos(math.radians(wd[i, j]))
            if abs(ex * m - u[i, j]) > 1e-7 * m or abs(ey * m - v[i, j]) > 1e-7 * m:
                rec.fail(op, f"wind (u,v)=({u[i, j]},{v[i, j]}) came back as speed {spd[i, j]} from {wd[i, j]}°: "
                             f"blowing from there gives ({ex * m},{ey * m})")
                break
    elif "wspd" in out or "wdir" in out:
        rec.fail(op, "wind variables invented without both components")


# ------------------------------------------------------------------------------------------------------------------
# one case
# ------------------------------------------------------------------------------------------------------------------
def same_result(a, b):
    try:
        if set(a.variables) != set(b.variables) or dict(a.sizes) != dict(b.sizes):
            return False
        for k in a.variables:
            x, y = a[k], b[k].transpose(*a[k].dims)
            if x.dtype.kind in "fc":
                if not np.array_equal(np.asarray(x.values), np.asarray(y.values), equal_nan=True):
                    return False
            elif not np.array_equal(np.asarray(x.values), np.asarray(y.values)):
                return False
        return True
    except Exception:  # noqa
        return False


def make_case(args):
    seed, icase, big = args
    rng = case_rng("C12", seed, icase)
    import_ws()
    k = rng.random()
    if k < 0.08:
        return dispatch_only_case(rng, icase)
    conv = rng.choice(["ww3", "ww3", "ncswan", "ncswan", "wwm", "wwm", "era5", "ndbc", "ndbc"])
    rec = Rec(icase, conv)
    ds, meta = BUILDERS[conv](rng, big)
    rec.desc = dict(conv=conv, tags=list(meta["tags"]), sizes={str(k): int(v) for k, v in ds.sizes.items()}, variables=names_of(ds))
    rec.sig = (conv,) + tuple(meta["tags"]) + gen.signature(int(ds.sizes.get("frequency", ds.sizes.get("nfreq", ds.sizes.get("freq", 1)))),
                                                              int(ds.sizes.get("direction", ds.sizes.get("ndir", ds.sizes.get("dir", 1)))))
    if conv == "ndbc":
        return ndbc_case(rng, rec, ds, meta)
    if conv == "era5":
        return era5_case(rng, rec, ds, meta)
    import wavespectra.input.ww3 as m_ww3
    import wavespectra.input.ncswan as m_ncswan
    import wavespectra.input.wwm as m_wwm

    fn = dict(ww3=m_ww3.from_ww3, ncswan=m_ncswan.from_ncswan, wwm=m_wwm.from_wwm)[conv]
    spec_in = dict(ww3="efth", ncswan="density", wwm="AC")[conv]
    before = ds.copy(deep=True)
    # --- through the dispatcher (on a private copy)
    arg = ds.copy(deep=True)
    label, out_rd, crash = run_dispatch(arg)
    rec.reqs.append(("native_dispatch %d %s" % (len(names_of(ds)), " ".join(names_of(ds))), dict(kind="dispatch", impl=label)))
    if label != conv:
        rec.fail("read_dataset", f"dataset laid out in the {conv} convention was routed to '{label}'")
    if not same_result(arg, before):
        rec.count("observed:caller_buffer_scaled")
    # --- the reader itself
    out_fx, crash_fx = None, None
    try:
        out_fx = fn(ds.copy(deep=True))
    except Exception as e:  # noqa
        crash_fx = f"{type(e).__name__}: {e}"
    rec.reqs.append((names_req(conv, False, ds, spec_in),
                     dict(kind="names", crash=crash_fx, dims=None if out_fx is None else sorted(map(str, out_fx.dims)),
                          spec=None if out_fx is None else ("efth" if "efth" in out_fx.data_vars else "?"))))
    trig_crash = None
    if conv == "wwm" and any(kk not in names_of(ds) for kk in WWM_KEYS):
        trig_crash = "wwm_mapping_key_absent"
    for op, out, cr in (("read_dataset", out_rd, crash), ("from_" + conv, out_fx, crash_fx)):
        if cr is not None:
            rec.fail(op, f"raised {cr[:200]} on a {conv} dataset with variables {names_of(ds)}", trig_crash or "crash")
            continue
        if out is None:
            continue
        if not check_layout(rec, op, out, meta, meta["lead"]):
            continue
        examine_spectral(rec, op, out, meta)
        examine_aux(rec, op, out, meta)
        if "site" in out.dims and conv == "ncswan" and "site" not in out.coords:
            rec.fail(op, "site is not a coordinate of the SWAN result")
    if out_rd is not None and out_fx is not None and not same_result(out_rd, out_fx):
        rec.disagree.append(("read_dataset", f"read_dataset(ds) differs from from_{conv}(ds)"))
    # --- model requests on up to three spectra, from the reader's own output
    out = out_fx
    if out is not None and "efth" in out.data_vars and {"freq", "dir"} <= set(map(str, out.efth.dims)):
        Eo = canon(out, "efth", meta["lead"])
        fo = np.asarray(out.freq.values, dtype=float)
        do = np.asarray(out.dir.values, dtype=float)
        pos = [(t, s) for t in range(meta["nt"]) for s in range(meta["ns"])]
        rng.shuffle(pos)
        for (t, s) in pos[:3]:
            En = meta["E"][t, s]
            if conv == "wwm":
                line = " ".join(["native_wwm", PI_S, enc_v(meta["freq"]), enc_v(meta["dirs"]), enc_m(En, En.shape[1])])
            else:
                line = " ".join(["native_" + conv, PI_S, enc_v(meta["freq"]), enc_v(meta["dirs"]), enc_m(En, En.shape[1])])
            try:
                vi = float((np.einsum("fd,f->", Eo[t, s], np.asarray(out.efth.spec.df.values, dtype=float))) * float(out.efth.spec.dd))
            except Exception:  # noqa
                vi = None
            rec.reqs.append((line, dict(kind="spec", conv=conv, e=Eo[t, s], freq=fo, dir=do, var=vi, dtype=meta["dtype"], pos=(t, s))))
        if "u" in meta and "wspd" in out:
            spd = np.asarray(out.wspd.transpose("time", "site").values, dtype=float)
            wd = np.asarray(out.wdir.transpose("time", "site").values, dtype=float)
            for (t, s) in pos[:3]:
                u, v = float(meta["u"][t, s]), float(meta["v"][t, s])
                a = math.degrees(math.atan2(v, u))
                rec.reqs.append((" ".join(["native_uv", enc(u), enc(v), enc(a), "1"]),
                                 dict(kind="uv", spd=float(spd[t, s]), wdir=float(wd[t, s]), u=u, v=v)))
    rec.nontrivial = bool(np.any(meta["E"] > 0)) and meta["E"].shape[-1] >= 2 and meta["E"].shape[-2] >= 2
    return rec


def era5_case(rng, rec, ds, meta):
    from wavespectra.input.era5 import from_era5

    mode = meta["mode"]
    nf, nd = len(meta["freq"]), len(meta["dirs"])
    if mode == "dispatch":
        arg = ds.copy(deep=True)
        label, out, crash = run_dispatch(arg)
        rec.reqs.append(("native_dispatch %d %s" % (len(names_of(ds)), " ".join(names_of(ds))), dict(kind="dispatch", impl=label)))
        if label != "era5":
            rec.fail("read_dataset", f"dataset laid out in the era5 convention was routed to '{label}'")
        rec.reqs.append((names_req("era5", False, ds, "d2fd"),
                         dict(kind="names", crash=crash, dims=None if out is None else sorted(map(str, out.dims)),
                              spec=None if out is None else ("efth" if "efth" in out.data_vars else "d2fd" if "d2fd" in out.data_vars else "?"))))
        if crash is not None:
            rec.fail("read_dataset", f"raised {crash[:200]}", "era5_via_dispatcher")
            return rec
        if check_layout(rec, "read_dataset", out, meta, meta["lead"]):
            examine_spectral(rec, "read_dataset", out, meta)
        # values under whatever name the spectrum kept: model correspondence of the unit conversion
        nm = "efth" if "efth" in out.data_vars else "d2fd"
        fdim, ddim = ("freq", "dir") if nm == "efth" else ("frequency", "direction")
        lead = [d for d in out[nm].dims if d not in (fdim, ddim)]
        arr = np.asarray(out[nm].transpose(*lead, fdim, ddim).values, dtype=float)
        dn = np.asarray(ds.d2fd.transpose(*[{"lat": "latitude", "lon": "longitude"}.get(x, x) for x in lead], "frequency", "direction").values, dtype=float)
        idx = tuple(0 for _ in lead)
        rec.reqs.append((era5_line(meta["freq"], meta["dirs"], dn[idx]), dict(kind="spec", conv="era5", e=arr[idx], freq=None, dir=None, var=None,
                                                                               dtype="float64", pos=idx)))
        rec.nontrivial = bool(np.any(meta["E"] > 0))
        return rec
    kw = {}
    if mode == "custom":
        kw = dict(freqs=[float(x) for x in meta["freq"]], dirs=[float(x) for x in meta["dirs"]])
    try:
        out = from_era5(ds.copy(deep=True), **kw)
    except Exception as e:  # noqa
        rec.fail("from_era5", f"raised {type(e).__name__}: {e}"[:300], "crash")
        return rec
    if check_layout(rec, "from_era5", out, meta, meta["lead"]):
        examine_spectral(rec, "from_era5", out, meta)
        # missing values carry no energy
        Eo = canon(out, "efth", meta["lead"])
        if np.isnan(Eo).any():
            rec.fail("from_era5", "NaN left in the converted spectra (missing values must carry no energy)")
        elif np.any(Eo[np.isnan(meta["d"])] != 0):
            rec.fail("from_era5", "missing value converted to non-zero energy")
        pos = [idx for idx in np.ndindex(*Eo.shape[:-2])]
        rng.shuffle(pos)
        for idx in pos[:2]:
            try:
                vi = float((np.einsum("fd,f->", Eo[idx], np.asarray(out.efth.spec.df.values, dtype=float))) * float(out.efth.spec.dd))
            except Exception:  # noqa
                vi = None
            rec.reqs.append((era5_line(np.asarray(out.freq.values, dtype=float), np.asarray(out.dir.values, dtype=float), meta["d"][idx]),
                             dict(kind="spec", conv="era5", e=Eo[idx], freq=None, dir=None, var=vi, dtype="float64", pos=idx)))
        if mode == "default":
            rec.reqs.append(("native_era5_grids", dict(kind="grids", freq=np.asarray(out.freq.values, dtype=float), dir=np.asarray(out.dir.values, dtype=float))))
    rec.nontrivial = bool(np.any(meta["E"] > 0)) and nf >= 2 and nd >= 2
    return rec


def era5_line(f, d, dvals):
    with np.errstate(all="ignore"):
        p = 10.0 ** np.asarray(dvals, dtype=float)
    body = " ".join(enc_o(float(x)) for x in p.ravel())
    return " ".join(["native_era5", PI_S, enc_v(f), enc_v(d), "om %d %d %s" % (p.shape[0], p.shape[1], body)])


def ndbc_case(rng, rec, ds, meta):
    from wavespectra.input.ndbc import from_ndbc

    kw = meta["kw"]
    outs = []
    if not meta["alt"]:
        arg = ds.copy(deep=True)
        label, out_rd, crash = run_dispatch(arg, **kw)
        rec.reqs.append(("native_dispatch %d %s" % (len(names_of(ds)), " ".join(names_of(ds))), dict(kind="dispatch", impl=label)))
        if label != "ndbc":
            rec.fail("read_dataset", f"dataset laid out in the ndbc convention was routed to '{label}'")
        outs.append(("read_dataset", out_rd, crash))
    try:
        outs.append(("from_ndbc", from_ndbc(ds.copy(deep=True), **kw), None))
    except Exception as e:  # noqa
        outs.append(("from_ndbc", None, f"{type(e).__name__}: {e}"))
    directional, dd = meta["directional"], meta["dd"]
    out_fx = outs[-1][1]
    rec.reqs.append((names_req("ndbc", directional, ds, "spectral_wave_density"),
                     dict(kind="names", crash=outs[-1][2], dims=None if out_fx is None else sorted(map(str, out_fx.dims)),
                          spec=None if out_fx is None else ("efth" if "efth" in out_fx.data_vars else "?"))))
    ef = meta["ef"]
    f = meta["freq"]
    lead = meta["lead"]
    for op, out, cr in outs:
        if cr is not None:
            rec.fail(op, f"raised {cr[:200]}", "crash")
            continue
        if not check_layout(rec, op, out, meta, lead, oned=not directional):
            continue
        fo = np.asarray(out.freq.values, dtype=float)
        if not np.allclose(fo, f, rtol=1e-12):
            rec.fail(op, "frequencies changed")
            continue
        # canonical native order of ef: (time, frequency[, latitude, longitude]) -> (time[, lat, lon], freq)
        efc = np.moveaxis(ef, 1, -1)
        if not directional:
            Eo = canon(out, "efth", lead, oned=True)
            if Eo.shape != efc.shape or not np.array_equal(Eo, efc):
                rec.fail(op, "1-D spectra: the non-directional density was altered")
            continue
        Eo = canon(out, "efth", lead)
        do = np.asarray(out.dir.values, dtype=float)
        if np.any(do < 0) or np.any(do >= 360):
            rec.fail(op, f"direction labels outside [0,360): {do.tolist()}")
        if not meta["divides"]:
            rec.count("ndbc:dd_does_not_divide_360")  # caller's choice outside the property: only model correspondence
            continue
        n = int(round(360.0 / dd))
        if len(do) != n or not np.allclose(do, np.arange(n) * dd, rtol=0, atol=1e-9):
            rec.fail(op, f"direction labels {do.tolist()} are not the uniform circle of width {dd}")
            continue
        a1, a2, r1, r2 = (np.moveaxis(meta[k], 1, -1)[..., None] for k in ("a1", "a2", "r1", "r2"))
        th = do.reshape((1,) * efc.ndim + (n,))
        D = (0.5 + r1 * np.cos(np.radians(th - a1)) + r2 * np.cos(2 * np.radians(th - a2))) / PI  # per radian (Longuet-Higgins)
        exp = efc[..., None] * D * D2R
        sc = float(np.abs(exp).max()) + 1e-300
        if Eo.shape != exp.shape or float(np.abs(Eo - exp).max()) > 1e-9 * sc:
            rec.fail(op, "directional density differs from ef·(1/2 + r1 cos(θ-α1) + r2 cos 2(θ-α2))/π per radian, converted to per degree")
            continue
        integ = Eo.sum(axis=-1) * dd
        if n >= 3 and float(np.abs(integ - efc).max()) > 1e-9 * (float(np.abs(efc).max()) * 2.5 + 1e-300):
            rec.fail(op, f"directional spectrum does not integrate back to the non-directional density (max error {float(np.abs(integ - efc).max())})")
        elif n < 3:
            rec.count("ndbc:fewer_than_3_directions")  # second harmonic aliases: Σcos2 ≠ 0, outside the theorem's hypotheses
        try:
            dfa, dda = np.asarray(out.efth.spec.df.values, dtype=float), float(out.efth.spec.dd)
            var_conv = np.einsum("...fd,f->...", Eo, dfa) * dda
            var_nat = np.einsum("...f,f->...", efc, gradient(f))
            if n >= 3 and np.any(np.abs(var_conv - var_nat) > 1e-9 * (np.einsum("...f,f->...", np.abs(efc), gradient(f)) * 2.5 + 1e-300)):
                rec.fail(op, f"variance with the converted coordinates {var_conv.ravel()[:3].tolist()} vs native {var_nat.ravel()[:3].tolist()}")
        except Exception as e:  # noqa
            rec.fail(op, f"accessor widths unavailable: {type(e).__name__}: {e}")
    if len(outs) == 2 and outs[0][1] is not None and outs[1][1] is not None and not same_result(outs[0][1], outs[1][1]):
        rec.disagree.append(("read_dataset", "read_dataset(ds, **kw) differs from from_ndbc(ds, **kw)"))
    # model requests
    if out_fx is not None and directional and "efth" in out_fx.data_vars:
        Eo = canon(out_fx, "efth", lead)
        do = np.asarray(out_fx.dir.values, dtype=float)
        rec.reqs.append(("native_ndbc_dirs " + enc(dd), dict(kind="ndbc_dirs", dir=do)))
        efc = np.moveaxis(ef, 1, -1)
        pts = [idx for idx in np.ndindex(*efc.shape)]
        rng.shuffle(pts)
        for idx in pts[:3]:
            a1, a2, r1, r2 = (float(np.moveaxis(meta[k], 1, -1)[idx]) for k in ("a1", "a2", "r1", "r2"))
            c1 = [math.cos(math.radians(t - a1)) for t in do]
            c2 = [math.cos(2 * math.radians(t - a2)) for t in do]
            rec.reqs.append((" ".join(["native_ndbc", PI_S, enc(float(efc[idx])), enc(r1), enc(r2), enc_v(c1), enc_v(c2)]),
                             dict(kind="ndbc_row", row=Eo[idx])))
    rec.nontrivial = bool(np.any(ef > 0)) and len(f) >= 2
    return rec


def dispatch_only_case(rng, icase):
    """Routing explored on arbitrary name sets with stub readers (no conversion is run)."""
    import xarray as xr

    rec = Rec(icase, "dispatch")
    pool = sorted(set().union(*SIGNATURE.values()) | {"freq", "dir", "site", "efth"})
    optional = ["time", "longitude", "latitude", "wnd", "wnddir", "dpt", "depth", "xwnd", "ywnd", "lon", "lat", "DEP", "ocean_time",
                "Uwind", "Vwind", "SPSIG", "SPDIR", "mean_wave_dir", "principal_wave_dir", "wave_spectrum_r1", "wave_spectrum_r2"]
    k = rng.random()
    base_conv = None
    if k < 0.5:
        base_conv = rng.choice(list(SIGNATURE) + ["identity"])
        names = set(SIGNATURE[base_conv]) if base_conv != "identity" else {"freq", "dir", "site", "efth"}
        names |= set(rng.sample(optional, rng.randint(0, 6)))
        kind = "convention+optional"
    elif k < 0.8:
        names = set(rng.sample(pool, rng.randint(1, len(pool)))) | set(rng.sample(optional, rng.randint(0, 3)))
        kind = "mixed"
    else:
        c = rng.choice(list(SIGNATURE))
        names = set(SIGNATURE[c])
        names.discard(rng.choice(sorted(names)))
        names |= set(rng.sample(optional, rng.randint(0, 3)))
        kind = "incomplete"
    names = sorted(names)
    # half of the names as dimensions, half as variables: the code must treat them alike
    dv, co = {}, {}
    for n in names:
        if rng.random() < 0.5:
            co[n] = (n, np.arange(2))
        else:
            dv[n] = ((), 0.0)
    ds = xr.Dataset(dv, coords=co)
    os.environ["_C12_STUB"] = "1"
    try:
        label, out, crash = run_dispatch(ds)
    finally:
        os.environ["_C12_STUB"] = "0"
    rec.reqs.append(("native_dispatch %d %s" % (len(names), " ".join(names)), dict(kind="dispatch", impl=label if crash is None else "crash:" + crash)))
    if base_conv is not None and label != base_conv:
        rec.fail("read_dataset", f"names {names}: a {base_conv} layout with optional variables was routed to '{label}'")
    rec.desc = dict(conv="dispatch", kind=kind, names=names)
    rec.sig = ("dispatch", kind, base_conv or "-", label)
    rec.nontrivial = True
    return rec


# ------------------------------------------------------------------------------------------------------------------
# main
# ------------------------------------------------------------------------------------------------------------------
def compare(ck, rec, ctx, resp, case):
    kind = ctx["kind"]
    toks = resp.split()
    if kind == "dispatch":
        st, mo = parse_resp(resp)
        model = mo.get("reader") if st == "ok" else f"err {mo}"
        ck.count("dispatch:" + str(model))
        impl = ctx["impl"]
        if impl != model:
            ck.disagree("dispatch", f"impl routed to {impl}, model to {model}", case)
        return
    if kind == "names":
        if toks[0] == "err":
            if ctx["crash"] is None or "ValueError" not in ctx["crash"]:
                ck.disagree("names", f"model raises {toks[1:]} but the reader returned dims {ctx['dims']} / {ctx['crash']}", case,
                            trigger=None)
            return
        spec = [t.split("=", 1)[1] for t in toks if t.startswith("spec=")][0]
        dims = sorted(t.split("=", 1)[1] for t in toks if t.startswith("d="))
        if ctx["crash"] is not None:
            ck.disagree("names", f"reader raised {ctx['crash'][:120]} but the model returns dims {dims}", case)
        elif dims != ctx["dims"] or spec != ctx["spec"]:
            ck.disagree("names", f"result dims {ctx['dims']} spectrum '{ctx['spec']}' vs model {dims} '{spec}'", case)
        return
    st, mo = parse_resp(resp)
    if st != "ok":
        ck.disagree(kind, f"model error {mo}", case)
        return
    if kind == "spec":
        tol = tol_for(ctx["dtype"])
        e_m = np.array([[float(x) for x in r] for r in mo["e"]])
        sc = float(np.abs(e_m).max()) if e_m.size else 0.0
        if e_m.shape != ctx["e"].shape or (sc > 0 and float(np.abs(e_m - ctx["e"]).max()) > tol * sc):
            ck.disagree("density", f"{ctx['conv']} spectrum {ctx['pos']}: max |impl-model| = "
                                   f"{float(np.abs(e_m - ctx['e']).max()) if e_m.shape == ctx['e'].shape else 'shape'} (scale {sc})", case)
        if ctx["freq"] is not None and "freq" in mo:
            if not all(close(a, b, rel=tol) for a, b in zip(ctx["freq"], mo["freq"])):
                ck.disagree("freq", f"impl {list(ctx['freq'])} model {[float(x) for x in mo['freq']]}", case)
        if ctx["dir"] is not None and "dir" in mo:
            dt = 1e-7 if ctx["dtype"] == "float64" else 2e-3
            if len(mo["dir"]) != len(ctx["dir"]) or not all(ang_close(float(a), float(b), tol=dt) for a, b in zip(ctx["dir"], mo["dir"])):
                ck.disagree("dir", f"impl {list(ctx['dir'])} model {[float(x) for x in mo['dir']]}", case)
        if ctx["var"] is not None and ctx["dir"] is not None:
            # the model integrates with its own converted coordinates; wrap-sensitive only through the first two labels
            amb = len(ctx["dir"]) > 1 and min(abs(float(mo["dir"][k]) - z) for k in (0, 1) for z in (0.0, 360.0)) < 1e-7 and \
                any(abs(float(ctx["dir"][k]) - float(mo["dir"][k])) > 1.0 for k in (0, 1))
            if amb:
                ck.ambiguous += 1
            elif not close(ctx["var"], mo["var"], rel=tol * 10, abs_=1e-300):
                ck.disagree("variance", f"impl {ctx['var']} model {float(mo['var'])}", case)
        return
    if kind == "uv":
        if not close(ctx["spd"] ** 2, mo["mag2"], rel=1e-9, abs_=1e-18):
            ck.disagree("uv", f"speed² impl {ctx['spd'] ** 2} model {float(mo['mag2'])}", case)
        if math.hypot(ctx["u"], ctx["v"]) > 1e-9 and not ang_close(ctx["wdir"], float(mo["dir"]), tol=1e-6):
            ck.disagree("uv", f"direction impl {ctx['wdir']} model {float(mo['dir'])}", case)
        return
    if kind == "grids":
        if len(mo["freq"]) != len(ctx["freq"]) or not all(close(a, b, rel=1e-12) for a, b in zip(ctx["freq"], mo["freq"])):
            ck.disagree("era5 default freqs", "impl != model", case)
        if len(mo["dir"]) != len(ctx["dir"]) or not all(close(a, b, rel=1e-12, abs_=1e-12) for a, b in zip(ctx["dir"], mo["dir"])):
            ck.disagree("era5 default dirs", f"impl {list(ctx['dir'])} model {[float(x) for x in mo['dir']]}", case)
        return
    if kind == "ndbc_dirs":
        if len(mo["dir"]) != len(ctx["dir"]) or not all(close(a, b, rel=1e-12, abs_=1e-9) for a, b in zip(ctx["dir"], mo["dir"])):
            ck.disagree("ndbc dirs", f"impl {list(ctx['dir'])} model {[float(x) for x in mo['dir']]}", case)
        return
    if kind == "ndbc_row":
        row = np.array([float(x) for x in mo["row"]])
        sc = float(np.abs(row).max()) + 1e-300
        if row.shape != ctx["row"].shape or float(np.abs(row - ctx["row"]).max()) > 1e-9 * sc:
            ck.disagree("ndbc row", "impl != model", case)
        return


def witnesses(ck):
    """The concrete witnesses of the refuted full statements in Props/C12.lean, reproduced on the real implementation
    (names_full_fails_old, wwm_optional_fails_old, direction_wwm_fails_old: findings F11/F23/F24, fixed in /repo by a998130 / 8cfe575 — expected `not_reproduced`; a regression is an unlisted oracle failure)."""
    import xarray as xr
    from wavespectra.input.dataset import read_dataset
    from wavespectra.input.wwm import from_wwm

    def wwm(spdir, dep=True):
        nd = len(spdir)
        dv = {"AC": (("ocean_time", "nbstation", "nfreq", "ndir"), np.ones((1, 1, 2, nd))), "SPSIG": (("nfreq",), np.array([0.5, 1.0])),
              "SPDIR": (("ndir",), np.asarray(spdir, dtype=float)), "lon": (("nbstation",), [0.0]), "lat": (("nbstation",), [0.0])}
        if dep:
            dv["DEP"] = (("ocean_time", "nbstation"), np.ones((1, 1)))
        return xr.Dataset(dv, coords=dict(ocean_time=[np.datetime64("2020-01-01")]))

    # names_full_fails: native ERA5 layout through the dispatcher
    ds = xr.Dataset({"d2fd": (("time", "frequency", "direction", "latitude", "longitude"), np.zeros((1, 30, 24, 1, 1)))},
                    coords=dict(time=[0], frequency=np.arange(1, 31), direction=np.arange(1, 25), latitude=[0.0], longitude=[0.0]))
    case = dict(witness="names_full_fails", icase=-1)
    try:
        out = read_dataset(ds)
        if "efth" not in out.data_vars or "freq" not in out.efth.dims:
            ck.fail("read_dataset", f"native ERA5 dataset comes back as data_vars {sorted(map(str, out.data_vars))}, dims {sorted(map(str, out.dims))}",
                    case, "era5_via_dispatcher")
            ck.count("witness:names_full_fails:reproduced")
        else:
            ck.count("witness:names_full_fails:not_reproduced")
    except Exception as e:  # noqa
        ck.fail("read_dataset", f"native ERA5 dataset: {type(e).__name__}: {e}"[:200], case, "era5_via_dispatcher")
    # wwm_optional_fails: DEP absent
    case = dict(witness="wwm_optional_fails", icase=-2)
    try:
        from_wwm(wwm([0.0, 3.0], dep=False))
        ck.count("witness:wwm_optional_fails:not_reproduced")
    except ValueError as e:
        ck.fail("from_wwm", f"WWM dataset without DEP: ValueError: {e}"[:200], case, "wwm_mapping_key_absent")
        ck.count("witness:wwm_optional_fails:reproduced")
    # direction_wwm_fails: SPDIR = -1 rad
    case = dict(witness="direction_wwm_fails", icase=-3)
    out = from_wwm(wwm([-1.0, 0.5]))
    d = np.asarray(out.dir.values, dtype=float)
    if np.any(d < 0) or np.any(d >= 360):
        ck.fail("from_wwm", f"SPDIR=[-1, 0.5] rad gives direction labels {d.tolist()}", case, "wwm_spdir_outside_0_2pi")
        ck.count("witness:direction_wwm_fails:reproduced")
    else:
        ck.count("witness:direction_wwm_fails:not_reproduced")


def run_check():
    import logging

    logging.disable(logging.WARNING)  # from_ndbc warns on every 1-D fallback
    ck = Check("C12")
    ck.extra["rule"] = ("in-memory native datasets (ww3 / ncswan / wwm / era5 / ndbc) with random sizes, direction grids (offset, order, "
                        "sector, label range), frequency grids, dim orders, dtypes, optional variables, + routing-only name sets; signature = "
                        "(convention, option tags, nf class, nd class); non-trivial = some energy and at least 2 frequencies and 2 directions "
                        "(routing cases: every distinct (kind, convention, outcome))")
    ck.do_audit()
    import_ws()
    replay = os.environ.get("VERIF_REPLAY")
    n = 500 if ck.tier == "quick" else 20000
    big = ck.tier != "quick"
    items = [(ck.seed, i, big) for i in range(n)]
    if replay:
        import json

        rp = json.loads(open(replay).read())
        ids = sorted({int(f["case"]["icase"]) for f in rp.get("failures", []) + rp.get("disagreements", []) if "icase" in f.get("case", {})})
        items = [(int(rp.get("seed", ck.seed)), i, rp.get("tier", "quick") != "quick") for i in ids]
        log(f"[C12] replaying cases {ids} of seed {rp.get('seed')}")
    if not replay:
        witnesses(ck)
    recs = pmap(make_case, items)
    reqs, owners = [], []
    for rec in recs:
        for line, ctx in rec.reqs:
            reqs.append(line)
            owners.append((rec, ctx))
    resps = run_driver(reqs) if reqs else []
    for (rec, ctx), resp in zip(owners, resps):
        case = dict(rec.desc, icase=rec.icase, seed=ck.seed)
        compare(ck, rec, ctx, resp, case)
    for rec in recs:
        case = dict(rec.desc, icase=rec.icase, seed=ck.seed)
        ck.case(rec.sig, rec.nontrivial, sample=rec.desc)
        ck.count("conv:" + rec.conv)
        for k, v in rec.counts.items():
            ck.count(k, v)
        ck.ambiguous += rec.ambiguous
        for op, what, trig in rec.fails:
            ck.fail(op, what, case, trig)
            if replay:
                log(f"replay case {rec.icase}: ORACLE FAILS [{trig}] {op}: {what}")
        for op, what in rec.disagree:
            ck.disagree(op, what, case)
        if replay and not rec.fails:
            log(f"replay case {rec.icase}: oracle holds")
    ck.assumptions = [
        "exact-arithmetic model with pi = the double np.pi; implementation compared within 1e-9 (float64) / 2e-5 (float32) relative",
        "cos / atan2 / 10**x tables supplied by the harness from the published definitions",
        "native bin width of the oracle = short-way spacing of the first two stored native directions; the accessor's unit bins for a "
        "single direction (1 degree) or a single frequency (1 Hz) are pi/180 rad and 2 pi rad/s in native units",
        "NDBC dd that does not divide 360 or gives fewer than 3 directions is compared with the model only",
        "readers are given deep copies; in-place scaling of the caller's buffer (C17) is only counted",
        "ERA5: from_era5 is exercised on the layout read_era5 hands over (renamed by read_netcdf), read_dataset on the native file layout"]
    return ck.finish()


if __name__ == "__main__":
    from ..common import main_wrapper

    main_wrapper(run_check)

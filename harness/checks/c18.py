"""C18 — results reflect the object's current contents, not earlier calls (DESIGN §3 C18)."""
import json
import os
import subprocess
import sys

import numpy as np

from .. import gen
from ..common import REPO, ROOT, Check, case_rng, import_ws, parse_resp, pmap, run_driver

STATS = ["hs", "tm01", "tm02", "dm", "dspr", "tp", "dp", "dpm", "dpspr", "swe", "momd", "oned", "smooth", "interp", "ptm3",
         "split", "crsd", "gamma", "to_energy", "rotate", "hrms", "sw", "gw", "goda", "alpha", "fp", "uss", "mss", "stats_band",
         "scale_by_hs", "smooth5", "ptm5", "bbox", "momf", "hp01", "hp01"]


def build(freq, dirs, E, kind, name="efth", attrs=None):
    """Freshly constructed object holding the given contents."""
    import xarray as xr

    dims = ("time", "freq", "dir") if E.ndim == 3 else ("freq", "dir")
    coords = {"freq": np.array(freq, dtype=float), "dir": np.array(dirs, dtype=float)}
    if E.ndim == 3:
        coords["time"] = np.array(["2021-01-01T00", "2021-01-01T03", "2021-01-01T06"][: E.shape[0]], dtype="datetime64[ns]")
    da = xr.DataArray(np.array(E, dtype=float), dims=dims, coords=coords, name=name)
    if attrs:
        da.attrs = dict(attrs)
    return da.to_dataset() if kind == "ds" else da


def observe(obj, name, via):
    """Run one observed operation through the Dataset accessor (via='sd') or the DataArray accessor ('sa')."""
    import xarray as xr

    if name == "crsd":
        # look at what an array NAMED 'crsd' gets back from oned(): values and attrs
        da = obj["efth"] if isinstance(obj, xr.Dataset) else obj
        x = da.copy(deep=True).rename("crsd")
        x.attrs = {"a": 1}
        out = x.spec.oned()
        return canon(out)
    sp = obj.spec if via == "sd" else (obj["efth"].spec if isinstance(obj, xr.Dataset) else obj.spec)
    if name == "momd":
        a, b = sp.momd(1)
        return canon(a) + canon(b)
    if name == "smooth":
        return canon(sp.smooth(3, 3))
    if name == "interp":
        da = obj["efth"] if isinstance(obj, xr.Dataset) else obj
        f = da.freq.values
        return canon(sp.interp(freq=(f[:-1] + f[1:]) / 2, dir=np.arange(0, 360, 30.0)))
    if name == "ptm3":
        return canon(sp.partition.ptm3(parts=3))
    if name == "split":
        da = obj["efth"] if isinstance(obj, xr.Dataset) else obj
        f = da.freq.values
        return canon(sp.split(fmin=float(f[1]), fmax=float(f[-2])))
    if name == "rotate":
        return canon(sp.rotate(45.0))
    if name == "stats_band":
        da = obj["efth"] if isinstance(obj, xr.Dataset) else obj
        f = da.freq.values
        return canon(sp.stats(["hs", "tm01", "dm"], fmin=float(f[1]), fmax=float(f[-2])))
    if name == "scale_by_hs":
        return canon(sp.scale_by_hs("0.5*hs + 0.1"))
    if name == "smooth5":
        return canon(sp.smooth(5, 3))
    if name == "ptm5":
        da = obj["efth"] if isinstance(obj, xr.Dataset) else obj
        return canon(sp.partition.ptm5(float(da.freq.values[2]) * 1.01))
    if name == "bbox":
        da = obj["efth"] if isinstance(obj, xr.Dataset) else obj
        f = da.freq.values
        return canon(sp.partition.bbox([dict(fmin=float(f[0]), fmax=float(f[2]), dmin=0.0, dmax=170.0)]))
    if name == "momf":
        return canon(sp.momf(2))
    if name == "hp01":
        # more swells requested than a smooth spectrum has: the padding partitions are all-zero arrays
        return canon(sp.partition.hp01(swells=3))
    if name == "gamma":
        return canon(sp.gamma())
    if name == "to_energy":
        return canon(sp.to_energy())
    return canon(getattr(sp, name)())


def foreign_call(obj, what, kind):
    """Write a dataset built AROUND the object's own buffers (no copy on the harness side) or run a fit on another object; the
    outcome is discarded and errors are ignored — only what the call leaves behind matters."""
    import shutil
    import tempfile
    import xarray as xr

    try:
        if what.startswith("fit_"):
            f = np.array([0.05, 0.07, 0.09, 0.11, 0.14, 0.18, 0.23, 0.3])
            S = np.exp(-0.5 * ((f - 0.11) / 0.03) ** 2) + 0.01
            other = xr.DataArray(S[:, None] * np.ones((1, 4)), dims=("freq", "dir"), coords={"freq": f, "dir": np.arange(4) * 90.0}, name="efth")
            getattr(other.spec, what)().load()   # the fits are lazy: run them
            return
        da = obj["efth"] if isinstance(obj, xr.Dataset) else obj
        buf = da.variable._data                      # the object's own buffer
        if not isinstance(buf, np.ndarray) or not buf.flags.c_contiguous:
            return
        nt_ = da.sizes.get("time", 1)
        view = buf.reshape((nt_, 1, da.sizes["freq"], da.sizes["dir"]))   # writable view, no copy
        assert np.shares_memory(view, buf)
        tv = da.time.values if "time" in da.dims else np.array(["2021-01-01T00"], dtype="datetime64[ns]")
        ds = xr.Dataset({"efth": (("time", "site", "freq", "dir"), view), "lon": (("site",), np.array([170.5])),
                         "lat": (("site",), np.array([-35.25]))},
                        coords={"time": tv, "site": [1], "freq": da.freq.values, "dir": da.dir.values})
        tmp = tempfile.mkdtemp(prefix="c18w_")
        try:
            getattr(ds.spec, what)(os.path.join(tmp, "out." + ("nc" if what in ("to_ww3", "to_netcdf") else "txt")))
        finally:
            shutil.rmtree(tmp, ignore_errors=True)
    except Exception:
        pass


def observe_reader(conv, key):
    """read_dataset on a freshly generated dataset in the `conv` layout (deterministic in `key`)."""
    import random

    from . import c12
    from wavespectra import read_dataset

    rng = random.Random("C18r/" + "/".join(str(k) for k in key))
    ds, _ = c12.BUILDERS[conv](rng, False)
    try:
        out = read_dataset(ds.copy(deep=True))
    except Exception as e:
        return f"EXC {type(e).__name__}: {str(e)[:160]}"
    c = canon(out)
    return c + [dict(name="<dims>", dims=sorted(map(str, out.dims)), vals=[], coords={}, attrs={})]


class FreshServers:
    """Pool of pristine processes: each has imported wavespectra and nothing else; every request is answered by a forked
    child, so no request sees state left by another one (module-level caches, the C routine's static buffers, the
    attribute table, reader constants)."""

    def __init__(self, n):
        env = dict(os.environ, VERIF_C18_SERVER="1")
        self.procs = [subprocess.Popen([sys.executable, "-W", "ignore", "-m", "harness.checks.c18"], cwd=ROOT, env=env, text=True,
                                       stdin=subprocess.PIPE, stdout=subprocess.PIPE, stderr=subprocess.DEVNULL) for _ in range(n)]

    def map(self, payloads):
        import threading

        n = len(self.procs)
        outs = [None] * n

        def work(k):
            lines = [json.dumps(p) for p in payloads[k::n]]
            o, _ = self.procs[k].communicate("\n".join(lines) + "\n")
            outs[k] = o.splitlines()

        ts = [threading.Thread(target=work, args=(k,)) for k in range(n)]
        [t.start() for t in ts]
        [t.join() for t in ts]
        res = [None] * len(payloads)
        for k in range(n):
            for j, line in enumerate(outs[k] or []):
                idx = k + j * n
                if idx < len(res):
                    try:
                        res[idx] = json.loads(line)
                    except Exception:
                        res[idx] = None
        return res


def serve():
    import_ws()
    import xarray  # noqa: F401
    from . import c12  # noqa: F401

    for line in sys.stdin:
        line = line.strip()
        if not line:
            continue
        sys.stdout.flush()
        pid = os.fork()
        if pid == 0:
            try:
                p = json.loads(line)
                if "reader" in p:
                    out = observe_reader(p["reader"], p["key"])
                else:
                    obj = build(np.array(p["freq"]), np.array(p["dirs"]), np.array(p["E"]), p["kind"])
                    try:
                        out = observe(obj, p["name"], p["via"])
                    except Exception as e:
                        out = f"EXC {type(e).__name__}: {e}"
                sys.stdout.write(json.dumps(out) + "\n")
            except BaseException as e:  # noqa
                sys.stdout.write(json.dumps(f"SERVER-ERROR {type(e).__name__}: {e}") + "\n")
            sys.stdout.flush()
            os._exit(0)
        os.waitpid(pid, 0)


def canon(x):
    import xarray as xr

    if hasattr(x, "compute"):
        x = x.compute()
    if isinstance(x, xr.Dataset):
        return [c for v in sorted(x.data_vars) for c in canon(x[v])]
    dims = list(x.dims)
    order = [d for d in ("part", "time", "freq", "dir") if d in dims] + [d for d in dims if d not in ("part", "time", "freq", "dir")]
    xt = x.transpose(*order)
    vals = np.asarray(xt.values, dtype=float)
    coords = {d: np.asarray(xt[d].values).astype(str).tolist() if xt[d].dtype.kind == "M" else np.asarray(xt[d].values, dtype=float).tolist()
              for d in order if d in xt.coords}
    return [dict(name=str(x.name), dims=order, vals=vals.tolist(), coords=coords, attrs={k: str(v) for k, v in x.attrs.items()})]


IGNORE_ATTRS = [False]


def same(a, b):
    if len(a) != len(b):
        return False
    for x, y in zip(a, b):
        if x["dims"] != y["dims"] or (x["attrs"] != y["attrs"] and not IGNORE_ATTRS[0]) or x["name"] != y["name"]:
            return False
        if x["coords"].keys() != y["coords"].keys():
            return False
        for k in x["coords"]:
            if not np.array_equal(np.asarray(x["coords"][k]), np.asarray(y["coords"][k])):
                return False
        xa, ya = np.asarray(x["vals"], dtype=float), np.asarray(y["vals"], dtype=float)
        if xa.shape != ya.shape or not np.array_equal(xa, ya, equal_nan=True):
            return False
    return True


def make_history(args):
    seed, icase = args
    rng = case_rng("C18", seed, icase)
    import_ws()
    import xarray as xr
    from wavespectra import read_swan
    from wavespectra.partition.partition import np_ptm3

    kind = rng.choice(["ds", "ds", "da"])
    # 7 and 11 directions: a bin width (360/7, 360/11) that float32 cannot represent — a coordinate narrowed in place shows
    nf, nd = rng.choice([5, 6, 8]), rng.choice([8, 12, 7, 11])
    nt = rng.choice([0, 0, 2])
    freq, _ = gen.gen_freq(rng, nf, kind="irregular")
    dirs0, _ = gen.gen_dirs(rng, nd, order="sorted")
    def newE():
        if rng.random() < 0.05:
            return np.zeros((nt, nf, nd)) if nt else np.zeros((nf, nd))  # calm: statistics are NaN, numpy warns
        if rng.random() < 0.12:
            # a flat (constant, non-zero) spectrum: the watershed's early-return path
            c = rng.choice([0.5, 2.0, 3.0])
            return np.full((nt, nf, nd), c) if nt else np.full((nf, nd), c)
        if nt:
            return np.array([gen.gen_spectrum(rng, nf, nd, kind=rng.choice(["blobs", "noisy"]))[0] + 0.015625 for _ in range(nt)])
        return gen.gen_spectrum(rng, nf, nd, kind=rng.choice(["blobs", "noisy"]))[0] + 0.015625
    evers = [newE()]
    rvers = []
    dvers = [dirs0]
    fvers = [freq]
    obj = build(freq, dirs0, evers[0], kind)
    nsteps = rng.randint(2, 12)
    ops = []
    results = []
    names_used = []
    # one history in eight starts with the pattern "partition a non-flat spectrum, overwrite it in place with a flat non-zero
    # one, partition again" (the watershed's early-return path right after a call that filled its static buffers)
    forced = []
    attrs_edit = False
    u0 = rng.random()
    if u0 < 0.125:
        forced = [("obs", rng.choice(["ptm3", "ptm3", "smooth", "ptm5"])), ("flat", None), ("obs", "ptm3")]
        nsteps = max(nsteps, 4)
    elif u0 < 0.2:
        # a curve fit on some other object, then statistics of a calm (all-zero) spectrum, which make numpy warn
        forced = [("fo", rng.choice(["fit_jonswap", "fit_gaussian"])), ("calm", None), ("obs", rng.choice(["stats_band", "dpspr", "stats_band", "gamma"]))]
        nsteps = max(nsteps, 4)
    elif 0.3 <= u0 < 0.36:
        # the variable is replaced in place by its own energy form (values AND the attributes that call stamped on it), then
        # observed: results depend on the values and coordinates held now, not on attributes left by an earlier call
        forced = [("toen", None), ("obs", rng.choice(["to_energy", "to_energy", "hs"]))]
        nsteps = max(nsteps, 3)
    elif u0 < 0.3:
        # the object is written to a file between two observations
        forced = [("obs", "hs"), ("fo", rng.choice(["to_ww3", "to_swan", "to_netcdf", "to_json"])), ("obs", rng.choice(["hs", "oned", "tm02"]))]
        nsteps = max(nsteps, 4)
    for istep in range(nsteps):
        last = istep == nsteps - 1
        r = rng.random()
        step = forced.pop(0) if forced else None
        if step and step[0] == "toen":
            attrs_edit = True
            ops.append("ee")
            cur = obj["efth"] if kind == "ds" else obj
            en = cur.spec.to_energy()
            E = np.array(en.values, dtype=float)
            evers.append(E)
            if kind == "ds":
                obj["efth"] = en          # Dataset assignment keeps the attributes of `en`
            else:
                obj.values[...] = E
                obj.attrs.update(en.attrs)
            results.append(None)
            continue
        if step and step[0] == "fo":
            ops.append(f"fo:{step[1]}")
            foreign_call(obj, step[1], kind)
            results.append(None)
            continue
        if step and step[0] in ("flat", "calm"):
            ops.append("ee")
            c = 0.0 if step[0] == "calm" else rng.choice([0.5, 2.0, 3.0])
            E = np.full((nt, nf, nd), c) if nt else np.full((nf, nd), c)
            evers.append(E)
            if kind == "ds":
                obj["efth"] = (obj["efth"].dims, E)
            else:
                obj.values[...] = E
            results.append(None)
            continue
        if step or last or r < 0.4:
            name = step[1] if step else rng.choice(STATS)
            via = rng.choice(["sd", "sa"]) if kind == "ds" else "sa"
            ops.append(f"{via}:{name}")
            try:
                results.append(observe(obj, name, via))
            except Exception as e:
                results.append(f"EXC {type(e).__name__}: {e}")
            names_used.append(name)
        elif r < 0.55:
            ops.append("ee")
            E = newE() if rng.random() < 0.5 else evers[-1] * rng.choice([4.0, 0.25])
            evers.append(E)
            if kind == "ds":
                obj["efth"] = (obj["efth"].dims, E) if rng.random() < 0.5 else obj["efth"] * 0 + E
            else:
                if rng.random() < 0.5:
                    obj[...] = E
                else:
                    obj.values[...] = E
            results.append(None)
        elif r < 0.7:
            ops.append("ad")
            mode = rng.choice(["shift", "halve", "reverse_labels", "interior", "mirror"])
            d = dvers[-1]
            if mode == "interior":
                # same number of bins, same first and last label, different labels in between
                gaps = np.abs(np.diff(np.sort(d)))
                nd_ = d.copy()
                nd_[1:-1] = (d[1:-1] + 0.25 * float(gaps[gaps > 0].min())) % 360.0
            elif mode == "mirror":
                nd_ = (360.0 - d) % 360.0
            elif mode == "shift":
                nd_ = (d + 360.0 / nd * rng.randint(1, nd - 1) + 0.0) % 360.0
            elif mode == "halve":
                nd_ = d * 0.5
            else:
                nd_ = (d + 7.5) % 360.0
            dvers.append(nd_)
            st = rng.choice(["item", "coords", "tuple"])
            if st == "item":
                obj["dir"] = nd_
            elif st == "coords":
                obj.coords["dir"] = nd_
            else:
                obj["dir"] = ("dir", nd_)
            results.append(None)
        elif r < 0.76:
            ops.append("af")
            nf_ = fvers[-1] * rng.choice([1.25, 0.5]) if rng.random() < 0.7 else fvers[-1] + 0.015625
            fvers.append(nf_)
            if rng.random() < 0.5:
                obj["freq"] = nf_
            else:
                obj.coords["freq"] = nf_
            results.append(None)
        elif r < 0.8:
            mk, mth = rng.randint(2, 9), rng.randint(2, 9)
            u = rng.random()
            if u < 0.35:
                mk, mth = nd, nf  # same number of bins as the object under test, different shape
            elif u < 0.7:
                mk, mth = nf, nd  # exactly the shape of the object under test (the static buffers are reused as they are)
            ops.append(f"pt:{mk}:{mth}")
            z = np.array([[rng.random() for _ in range(mth)] for _ in range(mk)])
            np_ptm3(z, z, np.linspace(0.05, 0.4, mk), np.linspace(0, 360, mth, endpoint=False), parts=2)
            results.append(None)
        elif r < 0.87:
            ops.append("al:crsd")
            da = obj["efth"] if kind == "ds" else obj
            da.spec.crsd()
            results.append(None)
        elif r < 0.92:
            ops.append("us")
            try:
                obj.spec.stats(["nope"])
                results.append("NOEXC")
            except ValueError:
                results.append(None)
            except Exception as e:
                results.append(f"EXC {type(e).__name__}")
        elif r < 0.925:
            # a call whose result is thrown away: writing the object to a file, or a curve fit on some other object
            what = rng.choice(["to_ww3", "to_swan", "to_netcdf", "to_json", "fit_jonswap", "fit_gaussian"])
            ops.append(f"fo:{what}")
            foreign_call(obj, what, kind)
            results.append(None)
        elif r < 0.94:
            ops.append("rd")
            read_swan(str(REPO / "tests/sample_files/swanfile.spec"))
            results.append(None)
        else:
            # an observed reader call on an in-memory dataset laid out in a native convention, with a random subset of the
            # optional variables: its result is a function of that dataset alone
            conv = rng.choice(["ww3", "ww3", "ncswan", "wwm"])
            key = [seed, icase, len(rvers)]
            rvers.append(dict(conv=conv, key=key))
            ops.append(f"ro:{len(rvers) - 1}")
            results.append(observe_reader(conv, key))
    return dict(icase=icase, kind=kind, ops=ops, freq=freq, evers=evers, dvers=dvers, fvers=fvers, results=results, rvers=rvers,
                attrs_edit=attrs_edit)


def run_check():
    ck = Check("C18")
    ck.extra["rule"] = ("random histories (2–12 steps) of accessor calls, in-place edits of efth / dir, watershed calls on other shapes, attribute "
                        "look-ups, failing stats calls and reader calls on one live object; each observation is compared with the same call on a "
                        "freshly built object holding the versions the Lean history model predicts; signature = (object kind, op-kind sequence "
                        "shape, observed stat); non-trivial = history contains at least one in-place edit or foreign call before an observation")
    ck.do_audit()
    import_ws()
    n = 150 if ck.tier == "quick" else 2500
    from ..common import replay_ids

    hs = pmap(make_history, [(ck.seed, i) for i in replay_ids(ck, n)])
    resps = run_driver([f"history {len(h['ops'])} " + " ".join(h["ops"]) for h in hs])
    nobs = 0
    sub_jobs = []
    fresh_jobs = []
    for h, resp in zip(hs, resps):
        IGNORE_ATTRS[0] = bool(h.get("attrs_edit"))   # metadata stamped by an earlier call travels with the values: compare values
        toks = resp.split()
        case = dict(icase=h["icase"], kind=h["kind"], ops=h["ops"], freq=h["freq"].tolist(), n_efth_versions=len(h["evers"]), n_dir_versions=len(h["dvers"]),
                    attrs_edit=bool(h.get("attrs_edit")))
        if toks[0] != "ok" or len(toks) - 1 != len(h["ops"]):
            ck.disagree("history", f"model response {resp[:200]}", case)
            continue
        edits_before = False
        for i, (op, pred, res) in enumerate(zip(h["ops"], toks[1:], h["results"])):
            kindop = op.split(":")[0]
            if kindop == "ro":
                nobs += 1
                v = int(op.split(":")[1])
                ck.case((h["kind"], "ro", h["rvers"][v]["conv"], edits_before, tuple(o.split(":")[0] for o in h["ops"][:i])[-3:]), i > 0,
                        sample=dict(ops=h["ops"][: i + 1], predicted=pred))
                if pred != f"r{v}":
                    ck.disagree("history", f"model response {pred} for reader observation {v}", dict(case, step=i))
                fresh_jobs.append((dict(reader=h["rvers"][v]["conv"], key=h["rvers"][v]["key"]), res, "read_dataset", dict(case, step=i, reader=h["rvers"][v])))
                continue
            if kindop in ("ee", "ad", "af", "pt", "al", "rd", "us", "fo"):
                if kindop != "us" or res is None:
                    edits_before = edits_before or kindop in ("ee", "ad", "af", "pt", "al", "fo")
                if isinstance(res, str):
                    ck.fail("stats(unknown)", f"unknown statistic name: {res} (expected ValueError)", dict(case, step=i), "unknown_stat_not_valueerror")
                continue
            nobs += 1
            name = op.split(":")[1]
            ev, dv, known, fv = (int(x) for x in pred.split(":"))
            ck.case((h["kind"], kindop, name, edits_before, tuple(o.split(":")[0] for o in h["ops"][:i])[-3:]), edits_before,
                    sample=dict(ops=h["ops"][: i + 1], predicted_versions=pred))
            if isinstance(res, str) and name == "hp01":
                # experimental method: raising on some valid spectra is outside the properties; what matters here is that it
                # does the same in a pristine process
                fresh_jobs.append((dict(freq=h["fvers"][fv].tolist(), dirs=h["dvers"][dv].tolist(), E=h["evers"][ev].tolist(), kind=h["kind"],
                                        name=name, via=kindop), res, name, dict(case, step=i)))
                continue
            if isinstance(res, str):
                ck.fail(name, f"observed operation raised: {res}", dict(case, step=i), "crash")
                continue
            fresh = build(h["fvers"][fv], h["dvers"][dv], h["evers"][ev], h["kind"])
            try:
                exp = observe(fresh, name, kindop)
            except Exception as e:
                ck.fail(name, f"fresh object raised {type(e).__name__}: {e}", dict(case, step=i), "crash")
                continue
            if not same(res, exp):
                # which clause? compare with the fresh CURRENT contents (the property's oracle)
                cur = observe(build(h["fvers"][count(h["ops"][:i], "af")], h["dvers"][count(h["ops"][:i], "ad")],
                                    h["evers"][count(h["ops"][:i], "ee")], h["kind"]), name, kindop)
                if same(res, cur):
                    ck.disagree(name, f"model predicted versions {pred} but the implementation used the current contents", dict(case, step=i))
                else:
                    ck.fail(name, f"step {i} ({op}) differs from the same call on a freshly constructed object with the same contents",
                            dict(case, step=i), "stale_result")
            fresh_jobs.append((dict(freq=h["fvers"][fv].tolist(), dirs=h["dvers"][dv].tolist(), E=h["evers"][ev].tolist(), kind=h["kind"],
                                    name=name, via=kindop), res, name, dict(case, step=i)))
            if ck.tier == "thorough" and len(sub_jobs) < 40 and edits_before:
                sub_jobs.append((h, i, name, kindop, ev, dv, fv, res))
    # every observation again in a pristine process (forked from a process that has only imported the library): state
    # kept at module level or in the C extension cannot be seen by comparing two objects inside one process
    srv = FreshServers(8)
    outs = srv.map([j[0] for j in fresh_jobs])
    for (payload, res, name, case), exp in zip(fresh_jobs, outs):
        IGNORE_ATTRS[0] = bool(case.get("attrs_edit"))
        if exp is None or (isinstance(exp, str) and exp.startswith("SERVER-ERROR")):
            ck.count("fresh_server_error")
            continue
        ck.count("pristine_process_observations")
        if isinstance(res, str) or isinstance(exp, str):
            if res != exp:
                ck.fail(name, f"raised/returned differently from a pristine process: {str(res)[:120]} vs {str(exp)[:120]}", case, "stale_result")
            continue
        if not same(res, exp):
            ck.fail(name, "result differs from the same call on the same contents in a pristine process (state carried between calls)",
                    case, "stale_result")
    # thorough: repeat some observations in a fresh process
    for (h, i, name, kindop, ev, dv, fv, res) in sub_jobs:
        payload = dict(freq=h["fvers"][fv].tolist(), dirs=h["dvers"][dv].tolist(), E=h["evers"][ev].tolist(), kind=h["kind"], name=name, via=kindop)
        env = dict(os.environ, VERIF_C18_SUB=json.dumps(payload))
        r = subprocess.run([sys.executable, "-W", "ignore", "-m", "harness.checks.c18"], cwd=ROOT, env=env, capture_output=True, text=True)
        try:
            exp = json.loads(r.stdout.strip().splitlines()[-1])
        except Exception:
            ck.count("subprocess_error")
            continue
        ck.count("fresh_process_observations")
        if not same(res, exp):
            ck.fail(name, "result differs from the same call in a fresh process", dict(ops=h["ops"], step=i), "stale_result")
    oned_agreement(ck)
    station_histories(ck)
    ck.extra["observations"] = nobs
    ck.extra["traces_validated_against_impl"] = len(hs)
    ck.assumptions = ["object contents abstracted to version numbers in the model; the harness materialises each version",
                      "results compared bit-for-bit (same code path on identical data), attrs and coordinates included"]
    return ck.finish()


def station_histories(ck):
    """Station datasets: a selection made AFTER another selection (query in the other longitude convention, matches east of 180,
    consecutive stations, coordinates held in memory) returns what the same selection returns on a freshly built dataset, and so do
    statistics of the dataset afterwards."""
    import xarray as xr

    rng = case_rng("C18-stations", ck.seed, 0)
    n = 30 if ck.tier == "quick" else 300
    for icase in range(n):
        ns = rng.choice([3, 4, 5])
        nf, nd = 4, 6
        lon0 = sorted(rng.sample([5.0, 40.0, 120.0, 170.0, 185.0, 190.0, 230.0, 300.0, 350.0, 359.5], ns))
        if rng.random() < 0.5:
            lon0 = [x - 360.0 if x > 180.0 else x for x in lon0]  # dataset in [-180, 180]
        lat0 = [rng.choice([-10.0, -2.5, 0.0, 7.5, 20.0]) for _ in range(ns)]
        E = np.array([gen.gen_spectrum(rng, nf, nd, kind="blobs")[0] + 0.125 for _ in range(ns)])
        freq, _ = gen.gen_freq(rng, nf, kind="log")
        dirs, _ = gen.gen_dirs(rng, nd, order="sorted")

        def mk():
            return xr.Dataset({"efth": (("site", "freq", "dir"), E.copy()), "lon": (("site",), np.array(lon0)), "lat": (("site",), np.array(lat0))},
                              coords={"site": np.arange(ns), "freq": np.array(freq, dtype=float), "dir": np.array(dirs, dtype=float)})

        def q(conv):
            k = rng.randrange(ns)
            x = lon0[k] % 360.0 if conv == 360 else ((lon0[k] + 180.0) % 360.0) - 180.0
            return [x + rng.choice([0.0, 0.2, -0.2])], [lat0[k] + rng.choice([0.0, 0.1])]

        m1, m2 = rng.choice(["nearest", "idw", "bbox", None]), rng.choice(["nearest", "idw", "bbox", None])
        (l1, a1), (l2, a2) = q(rng.choice([180, 360])), q(rng.choice([180, 360]))
        if m1 == "bbox":
            l1, a1 = [l1[0] - 30.0, l1[0] + 30.0], [a1[0] - 5.0, a1[0] + 5.0]
        if m2 == "bbox":
            l2, a2 = [l2[0] - 30.0, l2[0] + 30.0], [a2[0] - 5.0, a2[0] + 5.0]
        case = dict(icase=icase, lon=lon0, lat=lat0, first=dict(method=m1, lons=l1, lats=a1), second=dict(method=m2, lons=l2, lats=a2))

        def sel(ds, m, lo, la):
            try:
                r = ds.spec.sel(lons=lo, lats=la, method=m, tolerance=5.0)
                return ("ok", np.atleast_1d(r.lon.values).tolist(), np.atleast_1d(r.lat.values).tolist(), np.asarray(r.efth.values).tolist())
            except Exception as e:  # noqa
                return ("err", type(e).__name__)

        fresh, used = mk(), mk()
        exp = sel(fresh, m2, l2, a2)
        sel(used, m1, l1, a1)
        got = sel(used, m2, l2, a2)
        ck.case(("stations", m1, m2, exp[0]), exp[0] == "ok", case)
        ck.count("station_histories")
        if json.dumps(got) != json.dumps(exp):
            ck.fail("sel", f"sel({m2}) after sel({m1}) on the same dataset returns {str(got)[:160]}; on a freshly built dataset {str(exp)[:160]}",
                    case, "stale_result")
        else:
            h1, h2 = np.asarray(mk().spec.hs().values), np.asarray(used.spec.hs().values)
            if not np.array_equal(h1, h2) or not np.array_equal(np.asarray(used.lon.values), np.array(lon0)):
                ck.fail("sel", "the dataset's stations / statistics after two selections differ from a freshly built dataset", case, "stale_result")


def oned_agreement(ck):
    """After `ds['efth'] = ds.efth.spec.oned()` (the variable replaced in place by its frequency spectrum; xarray keeps the now
    unused `dir` coordinate on the Dataset) the Dataset accessor agrees with the accessor of its efth variable."""
    rng = ck.rng
    for it in range(6 if ck.tier == "quick" else 60):
        nf, nd = rng.choice([5, 8]), rng.choice([8, 12])
        freq, _ = gen.gen_freq(rng, nf, kind="irregular")
        dirs, _ = gen.gen_dirs(rng, nd, order="sorted")
        E = np.array([gen.gen_spectrum(rng, nf, nd, kind="blobs")[0] + 0.015625 for _ in range(2)])
        ds = build(freq, dirs, E, "ds")
        if rng.random() < 0.5:
            ds.spec.hs()                      # the accessor exists before the edit
        ds["efth"] = ds.efth.spec.oned()
        case = dict(freq=freq.tolist(), dirs=dirs.tolist(), nf=nf, nd=nd)
        ck.case(("oned_edit", nf, nd), True, sample=dict(op="ds['efth'] = oned", nf=nf, nd=nd))
        probes = {"dir": lambda sp: None if sp.dir is None else [float(x) for x in np.asarray(sp.dir.values)],
                  "freq": lambda sp: [float(x) for x in np.asarray(sp.freq.values)],
                  "hs": lambda sp: np.asarray(sp.hs().values, dtype=float).tolist(), "tp": lambda sp: np.asarray(sp.tp().values, dtype=float).tolist(),
                  "tm01": lambda sp: np.asarray(sp.tm01().values, dtype=float).tolist(),
                  "oned": lambda sp: np.asarray(sp.oned().values, dtype=float).tolist()}
        for nm, f in probes.items():
            def run(sp):
                try:
                    return f(sp)
                except Exception as e:
                    return f"EXC {type(e).__name__}"
            a, b = run(ds.spec), run(ds["efth"].spec)
            if a != b and not (isinstance(a, list) and isinstance(b, list) and np.array_equal(np.asarray(a, dtype=float), np.asarray(b, dtype=float), equal_nan=True)):
                ck.fail(nm, f"after ds['efth'] = oned(): ds.spec.{nm} = {str(a)[:80]} but ds.efth.spec.{nm} = {str(b)[:80]}", case, "dataset_vs_efth")


def count(ops, k):
    return sum(1 for o in ops if o.split(":")[0] == k)


if __name__ == "__main__":
    if os.environ.get("VERIF_C18_SERVER"):
        serve()
        sys.exit(0)
    if os.environ.get("VERIF_C18_SUB"):
        p = json.loads(os.environ["VERIF_C18_SUB"])
        import_ws()
        obj = build(np.array(p["freq"]), np.array(p["dirs"]), np.array(p["E"]), p["kind"])
        print(json.dumps(observe(obj, p["name"], p["via"])))
        sys.exit(0)
    from ..common import main_wrapper

    main_wrapper(run_check)

"""C02 — peak parameters are taken at the true spectral peak (DESIGN §3 C02)."""
import math
from fractions import Fraction

import numpy as np

from .. import gen
from ..common import Check, ang_close, close, enc, enc_m, enc_optv, enc_v, fr, import_ws, parse_resp, run_driver

R2D = 180.0 / math.pi
G = 9.80665
C0 = (2 * math.pi) ** 4 / G ** 2
POLY = [0.0378375, -0.13543292, 0.64087366, 0.32524949, 0.12974958]


def brute_peak(S):
    """Largest interior strict local maximum, first among equals; None if there is none."""
    best = None
    for q in range(1, len(S) - 1):
        if S[q - 1] < S[q] and S[q + 1] < S[q]:
            if best is None or S[q] > S[best]:
                best = q
    return best


def parabola_vertex(f, S, p):
    """Vertex of the parabola through bins p-1,p,p+1 by solving the 3×3 system with Fractions."""
    xs = [fr(f[p - 1]), fr(f[p]), fr(f[p + 1])]
    ys = [fr(S[p - 1]), fr(S[p]), fr(S[p + 1])]
    # Lagrange: a = Σ y_i / Π_{j≠i}(x_i - x_j); b = -Σ y_i (Σ_{j≠i} x_j) / Π
    a = Fraction(0)
    b = Fraction(0)
    for i in range(3):
        den = Fraction(1)
        for j in range(3):
            if j != i:
                den *= xs[i] - xs[j]
        a += ys[i] / den
        b -= ys[i] * sum(xs[j] for j in range(3) if j != i) / den
    return -b / (2 * a)


def dir_from(S, C):
    return (270.0 - R2D * math.atan2(S, C)) % 360.0


def gen_peaky(rng, nf, nd, exact):
    kind = rng.choice(["blobs", "blobs", "bimodal", "flat", "equal", "monoup", "monodown", "zero", "edge1", "edgeN",
                       "sparse", "noisy", "boundarymax"])
    if kind in ("blobs", "noisy", "sparse", "monoup", "monodown", "zero"):
        return gen.gen_spectrum(rng, nf, nd, kind=kind, exact=exact)
    prof = np.zeros(nf)
    if kind == "bimodal" and nf >= 5:
        i0 = rng.randrange(1, nf - 3)
        i1 = rng.randrange(i0 + 2, nf - 1)
        prof[i0] = rng.randint(2, 9)
        prof[i1] = rng.randint(2, 9)
        prof += 1
        prof[0] = 0.5
        prof[-1] = 0.5
    elif kind == "flat" and nf >= 4:
        i0 = rng.randrange(1, nf - 2)
        prof[:] = 1
        prof[i0] = prof[i0 + 1] = 4  # flat top: not a strict peak
        if rng.random() < 0.5 and nf >= 7 and i0 + 3 < nf - 1:
            prof[i0 + 3] = 2  # a smaller strict peak elsewhere
    elif kind == "equal" and nf >= 5:
        prof[:] = 1
        i0 = rng.randrange(1, nf - 3)
        prof[i0] = 5
        prof[rng.randrange(i0 + 2, nf - 1)] = 5
    elif kind == "edge1" and nf >= 3:
        prof[:] = 1
        prof[1] = 3
    elif kind == "edgeN" and nf >= 3:
        prof[:] = 1
        prof[nf - 2] = 3
    elif kind == "boundarymax" and nf >= 5:
        prof[:] = 1
        prof[0] = 10
        prof[rng.randrange(2, nf - 1)] = 5
    else:
        return gen.gen_spectrum(rng, nf, nd, kind="blobs", exact=exact)
    w = np.array([1 + (j * 7 % 5) for j in range(nd)], dtype=float)
    if rng.random() < 0.5:
        w = np.roll(w, rng.randrange(nd))
    E = np.outer(prof, w)
    if not exact:
        E = E * (1 + 0.01 * np.array([[rng.random() for _ in range(nd)] for _ in range(nf)]))
    return E, kind


def make_case(args):
    """One generated case: run the implementation, return [(request line, ctx)] (ctx holds plain numbers only)."""
    seed, icase = args
    from ..common import case_rng

    rng = case_rng("C02", seed, icase)
    out = []
    exact = rng.random() < 0.6
    nf = rng.choice([3, 4, 5, 6, 8, 12, 20, 30])
    oned = rng.random() < 0.1
    nd = 1 if oned else rng.choice([2, 3, 4, 8, 12, 24, 36] if exact else [2, 5, 7, 11, 24, 36])
    freq, fkind = gen.gen_freq(rng, nf, exact=exact)
    if exact:
        freq = np.round(freq * 4096) / 4096  # exactly representable in float32 too
        if not np.all(np.diff(freq) > 0):
            return out
    dirs = None
    order = "1d"
    if not oned:
        dirs, order = gen.gen_dirs(rng, nd, order=rng.choice(["sorted", "sorted", "rotated", "reversed", "seam", "sorted360"]), exact=exact)
    dtype = "float64" if exact or rng.random() < 0.6 else "float32"
    nextra = rng.choice([0, 0, 1, 2])
    names = rng.sample(["time", "site", "lat"], nextra)
    shape = [rng.randint(1, 3) for _ in names]
    extra = [(n, np.arange(k, dtype=float)) for n, k in zip(names, shape)]
    npos = int(np.prod(shape)) if shape else 1
    Es, kinds = [], []
    for _ in range(npos):
        E, kind = gen_peaky(rng, nf, nd, exact)
        Es.append(E)
        kinds.append(kind)
    arr = np.array(Es).reshape(tuple(shape) + (nf, nd))
    if rng.random() < 0.1:
        # flume-scale amplitudes (Hs well below a millimetre), exact power-of-two scaling: the peak is where it was
        arr = arr * 2.0 ** -rng.randint(26, 34)
        kinds = [k + ":tiny" for k in kinds]
    if oned:
        arr = arr[..., 0]
    da = gen.make_da(freq, dirs, arr, dtype=dtype, extra=extra)
    if rng.random() < 0.3 and da.ndim > 1:
        perm = list(da.dims)
        rng.shuffle(perm)
        da = da.transpose(*perm)
    obj = da.to_dataset(name="efth") if rng.random() < 0.25 else da
    sp = obj.spec
    impl = {}
    if rng.random() < 0.25:
        # the same object first held another spectrum (peak elsewhere) and was asked for its peak statistics; the values
        # were then overwritten in place: the statistics below must be those of the spectrum held now
        real = np.array(da.values, copy=True)
        try:
            da.values[...] = np.flip(real, axis=da.get_axis_num("freq")) * 0.5
            for nm in ("tp", "fp", "alpha", "gamma", "tm01") + (() if oned else ("dpm", "dpspr", "dp")):
                getattr(sp, nm)()
        except Exception:
            pass
        da.values[...] = real
    try:
        # the smooth flag as callers pass it: the literals, but also numpy booleans / integers (results of comparisons,
        # values read from configuration)
        T = rng.choice([True, True, np.bool_(True), 1, np.int64(1)])
        Fa = rng.choice([False, False, np.bool_(False), 0])
        impl["tpS"] = sp.tp(smooth=T)
        impl["tpD"] = sp.tp(smooth=Fa)
        impl["fpS"] = sp.fp(smooth=T)
        impl["fpD"] = sp.fp(smooth=Fa)
        impl["alphaS"] = sp.alpha(smooth=T)
        impl["alphaD"] = sp.alpha(smooth=Fa)
        impl["gammaS"] = sp.gamma(smooth=T, scaled=True)
        impl["gammaRawD"] = sp.gamma(smooth=Fa, scaled=False)
        if not oned:
            impl["dp"] = sp.dp()
            impl["dpm"] = sp.dpm()
            impl["dpspr"] = sp.dpspr()
        impl = {k: v.compute() if hasattr(v, "compute") else v for k, v in impl.items()}
    except Exception as e:
        return [("CRASH", dict(what=f"{type(e).__name__}: {e}", case=dict(nf=nf, nd=nd, kinds=kinds, freq=freq.tolist(), icase=icase)))]
    lead = [d for d in da.dims if d not in ("freq", "dir")]
    positions = [dict(zip(lead, idx)) for idx in np.ndindex(*[da.sizes[d] for d in lead])]
    rng.shuffle(positions)
    for pos in positions[:3]:
        sub = da.isel(pos)
        E2 = np.asarray(sub.transpose("freq", "dir").values if not oned else sub.values[:, None], dtype=float)
        ddv = gen.bin_width(dirs)
        S = (ddv * E2.sum(axis=1)) if not oned else E2[:, 0]
        # harness-side peak (brute force definition) to build the exp tables of alpha
        bp = brute_peak([fr(x) for x in (E2.sum(axis=1) if not oned else E2[:, 0])])
        exS = exD = [0.0] * nf
        if bp is not None:
            fpS_o = float(parabola_vertex(freq, S, bp))
            fpD_o = float(freq[bp])

            def sexp(a):
                return math.exp(a) if a < 50 else 0.0  # bins far below the peak are never in the tail window

            exS = [sexp(1.25 * float(np.float32(fpS_o) / np.float32(x)) ** 4) for x in freq]
            exD = [sexp(1.25 * float(np.float32(fpD_o) / np.float32(x)) ** 4) for x in freq]
        if oned:
            s = c = []
        else:
            s, c = gen.trig_tables(dirs)
        req = " ".join(["peakstats", enc_v(freq), enc_optv(dirs), enc_m(E2, E2.shape[1]), enc_v(s), enc_v(c),
                        enc(C0), enc_v(exS), enc_v(exD)])
        kind = kinds[0] if npos == 1 else "multi"
        implp = {k: float(v.isel({d: i for d, i in pos.items() if d in v.dims})) for k, v in impl.items()}
        out.append((req, dict(pos=pos, impl=implp, freq=freq, dirs=dirs, E=E2, S=S, bp=bp, exact=exact, dtype=dtype, oned=oned,
                              ddv=ddv, sig_base=(gen.signature(nf, nd, kind, dtype, "exact" if exact else "float", order)),
                              nontrivial=bool(E2.any()), icase=icase,
                              desc=dict(nf=nf, nd=nd, fkind=fkind, order=order, kinds=kinds[:3], dtype=dtype, dims=list(da.dims)))))
    return out


def run_check():
    ck = Check("C02")
    ck.extra["rule"] = ("cases from peak-oriented generators (multi-modal, flat-topped, equal peaks, monotone, zero, peak at bin 1 / n-2, "
                        "boundary maximum); signature = (nf class, nd class, kind, dtype, stream, peak class); non-trivial = spectrum "
                        "not all-zero and nf ≥ 3")
    ck.do_audit()
    import_ws()
    from ..common import pmap

    ncases = 200 if ck.tier == "quick" else 4000
    reqs, ctxs = [], []
    from ..common import replay_ids

    for res in pmap(make_case, [(ck.seed, i) for i in replay_ids(ck, ncases)]):
        for req, ctx in res:
            if req == "CRASH":
                ck.fail("peakstats", ctx["what"], ctx["case"], "crash")
            else:
                reqs.append(req)
                ctxs.append(ctx)
    resps = run_driver(reqs)
    for ctx, resp in zip(ctxs, resps):
        st, mo = parse_resp(resp)
        freq, dirs, E, S, bp = ctx["freq"], ctx["dirs"], ctx["E"], ctx["S"], ctx["bp"]
        case = dict(ctx["desc"], icase=ctx["icase"], pos={k: int(v) for k, v in ctx["pos"].items()}, freq=[float(x) for x in freq],
                    dirs=None if dirs is None else [float(x) for x in dirs], E=E.tolist())
        if st != "ok":
            ck.disagree("peakstats", f"model error {mo}", case)
            continue
        p = int(mo["p"])
        pk_class = "none" if p == 0 else ("first" if p == 1 else "last" if p == len(freq) - 2 else "mid")
        ck.case(ctx["sig_base"] + (pk_class,), ctx["nontrivial"], sample=dict(case=ctx["desc"], model_peak=p))
        ck.count("peak:" + pk_class)
        impl = ctx["impl"]
        pos = ctx["pos"]

        def at(name):
            return impl[name]

        # ambiguity of the peak detection in floating point (float stream only)
        Sx = [float(x) for x in mo["oned"]]
        amb = False
        if not ctx["exact"] or ctx["dtype"] == "float32":
            sc = max(Sx) if Sx else 0.0
            tolp = (1e-9 if ctx["dtype"] == "float64" else 1e-5) * sc
            for i in range(len(Sx) - 1):
                if Sx[i] != Sx[i + 1] and abs(Sx[i] - Sx[i + 1]) <= tolp:
                    amb = True
            peaks = [Sx[q] for q in range(1, len(Sx) - 1) if Sx[q - 1] < Sx[q] > Sx[q + 1]]
            peaks.sort(reverse=True)
            if len(peaks) >= 2 and abs(peaks[0] - peaks[1]) <= tolp and peaks[0] != peaks[1]:
                amb = True
        if amb:
            ck.ambiguous += 1
            continue
        # model vs brute-force definition (exact rationals): the model's peak is the oracle's peak
        if (bp or 0) != p:
            ck.disagree("peak", f"model peak {p} vs brute-force definition {bp}", case)
        rel_t = 2e-6 if ctx["exact"] else 3e-5
        fpS, fpD = mo["fpS"], mo["fpD"]
        tpS_i, tpD_i = at("tpS"), at("tpD")
        # ---- correspondence
        if not close(tpS_i, None if fpS is None else 1 / fpS, rel=rel_t):
            ck.disagree("tp(smooth)", f"impl={tpS_i} model={None if fpS is None else float(1 / fpS)}", case)
        if not close(tpD_i, None if fpD is None else 1 / fpD, rel=2e-6):
            ck.disagree("tp(discrete)", f"impl={tpD_i} model={None if fpD is None else float(1 / fpD)}", case)
        if not close(at("fpS"), fpS, rel=rel_t):
            ck.disagree("fp", f"impl={at('fpS')} model={None if fpS is None else float(fpS)}", case)
        if not close(at("fpD"), fpD, rel=2e-6):
            ck.disagree("fp(discrete)", f"impl={at('fpD')} model={None if fpD is None else float(fpD)}", case)
        # ---- property oracle on the implementation
        if bp is None:
            for nm, v in (("tp(smooth)", tpS_i), ("tp(discrete)", tpD_i), ("fp", at("fpS")), ("fp(discrete)", at("fpD"))):
                if not math.isnan(v):
                    ck.fail(nm, f"no interior peak but {nm}={v} (expected NaN)", case)
        else:
            if not close(tpD_i, 1 / float(freq[bp]), rel=2e-6):
                ck.fail("tp(discrete)", f"tp={tpD_i} but 1/f_peak={1 / float(freq[bp])} (peak bin {bp})", case)
            v = float(parabola_vertex(freq, S, bp))
            if not close(tpS_i, 1 / v, rel=rel_t):
                ck.fail("tp(smooth)", f"tp={tpS_i} but parabola vertex gives {1 / v} (peak bin {bp})", case)
            if not (1 / float(freq[bp + 1]) * (1 - 1e-6) <= tpS_i <= 1 / float(freq[bp - 1]) * (1 + 1e-6)):
                ck.fail("tp(smooth)", f"tp={tpS_i} outside (1/f[p+1], 1/f[p-1])", case)
        # alpha
        for tag, fpv, exkey in (("S", fpS, "alphaS"), ("D", fpD, "alphaD")):
            a_i = at("alpha" + tag)
            if fpv is None:
                if not math.isnan(a_i):
                    ck.disagree("alpha", f"impl={a_i} model=nan", case)
                continue
            # window ambiguity
            lo, hi = 1.35 * float(fpv), 2.0 * float(fpv)
            if any(abs(float(x) - lo) <= 2e-5 * lo or abs(float(x) - hi) <= 2e-5 * hi for x in freq):
                ck.ambiguous += 1
                continue
            posm = mo["alphaPos" + tag]
            ck.count(f"alpha_window:{min(len([x for x in freq if lo < x < hi]), 2)}")
            if not close(a_i, mo["alpha" + tag], rel=5e-5):
                ck.disagree("alpha", f"smooth={tag} impl={a_i} model={float(mo['alpha' + tag])} pos={posm}", case)
            # oracle: Phillips alpha re-evaluated at the brute-force peak
            fpo = float(parabola_vertex(freq, S, bp)) if tag == "S" else float(freq[bp])
            win = [i for i, x in enumerate(freq) if 1.35 * fpo < x < 2 * fpo]
            if len(win) >= 2:
                t2 = sum(float(S[i]) * float(freq[i]) ** 5 * math.exp(1.25 * (fpo / float(freq[i])) ** 4) for i in win)
                exp_a = C0 / (win[-1] - win[0] + 1) * t2
                if not close(a_i, exp_a, rel=1e-4):
                    ck.fail("alpha", f"alpha={a_i} but tail fit at the peak gives {exp_a}", case)
        # gamma
        g_i = at("gammaS")
        gr = mo["gammaRawS"]
        if gr is None:
            exp_g = None
        else:
            gp = float(mo["gammaPolyS"])
            exp_g = gp if gp >= 1 else 1.0
        if exp_g is None:
            if not (math.isnan(g_i) or g_i == 1.0):
                ck.disagree("gamma", f"impl={g_i} model=nan", case)
        elif abs(float(mo["gammaPolyS"]) - 1) < 1e-4:
            ck.ambiguous += 1
        elif not close(g_i, exp_g, rel=2e-4):
            ck.disagree("gamma", f"impl={g_i} model={exp_g}", case)
        grd_i = at("gammaRawD")
        grd = mo["gammaRawD"]
        if grd is not None and abs(float(grd) - 1) > 1e-4:
            eg = float(grd) if grd >= 1 else 1.0
            if not close(grd_i, eg, rel=2e-5):
                ck.disagree("gamma(raw,discrete)", f"impl={grd_i} model={eg}", case)
            # property oracle: gamma evaluated at the detected peak
            if bp is not None:
                hs2 = 16 * hs_e(freq, S)
                epm = 0.3125 * hs2 * float(freq[bp]) ** 4 * float(freq[bp]) ** -5 * 0.2865048
                og = float(S[bp]) / epm if epm else None
                if og is not None and abs(og - 1) > 1e-4:
                    og = og if og >= 1 else 1.0
                    if not close(grd_i, og, rel=2e-5):
                        trig = "gamma_global_max_not_peak" if max(Sx) > Sx[bp] * (1 + 1e-12) else None
                        ck.fail("gamma", f"gamma(raw)={grd_i} but density at the detected peak gives {og}", case, trig)
        if ctx["oned"]:
            continue
        # dp
        dp_i = at("dp")
        cs = [float(x) for x in mo["colsums"]]
        j = int(mo["dpIdx"])
        mx = max(cs)
        near = [k for k, x in enumerate(cs) if abs(x - mx) <= (1e-9 if ctx["dtype"] == "float64" else 1e-5) * max(mx, 1e-300)]
        if not any(close(dp_i, float(np.float32(dirs[k])), rel=1e-7) for k in near):
            ck.disagree("dp", f"impl={dp_i} model dir[{j}]={float(dirs[j])}", case)
        if not any(close(dp_i, float(np.float32(d)), rel=1e-7) for d in dirs):
            ck.fail("dp", f"dp={dp_i} is not one of the direction coordinates", case)
        else:
            kk = [k for k, d in enumerate(dirs) if close(dp_i, float(np.float32(d)), rel=1e-7)][0]
            colsum_f = E.sum(axis=0)
            if colsum_f[kk] < colsum_f.max() * (1 - (1e-9 if ctx["dtype"] == "float64" else 1e-5)):
                ck.fail("dp", f"dp={dp_i}: frequency-summed spectrum there is {colsum_f[kk]} < max {colsum_f.max()}", case)
        # dpm
        dpm_i = at("dpm")
        if mo["dpmS"] is None:
            if not math.isnan(dpm_i):
                ck.disagree("dpm", f"impl={dpm_i} model=nan", case)
            if bp is None and not math.isnan(dpm_i):
                ck.fail("dpm", f"no interior peak but dpm={dpm_i}", case)
        else:
            vs, vc = float(mo["dpmS"]), float(mo["dpmC"])
            sc = ctx["ddv"] * float(np.abs(E[p]).sum())
            if math.hypot(vs, vc) <= 1e-5 * sc:
                ck.ambiguous += 1
            else:
                if not ang_close(dpm_i, dir_from(vs, vc), tol=2e-3):
                    ck.disagree("dpm", f"impl={dpm_i} model={dir_from(vs, vc)}", case)
                if bp is not None:
                    s_, c_ = gen.trig_tables(dirs)
                    os_, oc_ = float((E[bp] * s_).sum()), float((E[bp] * c_).sum())
                    if math.hypot(os_, oc_) > 1e-5 * float(np.abs(E[bp]).sum()) and not ang_close(dpm_i, dir_from(os_, oc_), tol=2e-3):
                        ck.fail("dpm", f"dpm={dpm_i} but mean direction of the peak row {bp} is {dir_from(os_, oc_)}", case)
        # dpspr
        ds_i = at("dpspr")
        if bp is not None and not math.isnan(ds_i):
            s_, c_ = gen.trig_tables(dirs)
            m0r = float(E[bp].sum())
            if m0r > 0:
                xo = 1 - math.hypot(float((E[bp] * s_).sum()), float((E[bp] * c_).sum())) / m0r
                xi_ = ds_i ** 2 / (2 * R2D ** 2)
                if abs(xi_ - xo) > (5e-6 if ctx["dtype"] == "float64" else 1e-4):
                    ck.fail("dpspr", f"dpspr={ds_i} but the spread of the peak row {bp} is {math.sqrt(max(xo, 0) * 2) * R2D}", case)
        if bp is None and not math.isnan(ds_i):
            ck.fail("dpspr", f"no interior peak but dpspr={ds_i}", case)
        if mo["dpsA"] is None:
            if not math.isnan(ds_i):
                ck.disagree("dpspr", f"impl={ds_i} model=nan", case)
        else:
            a, b, e = float(mo["dpsA"]), float(mo["dpsB"]), float(mo["dpsE"])
            if e != 0:
                x = 1 - math.hypot(a, b) / e
                xi = None if math.isnan(ds_i) else ds_i ** 2 / (2 * R2D ** 2)
                tolx = 2e-6 if ctx["dtype"] == "float64" else 5e-5
                if xi is None:
                    if x > tolx:
                        ck.disagree("dpspr", f"impl=nan model x={x}", case)
                elif abs(xi - x) > tolx:
                    ck.disagree("dpspr", f"impl x={xi} model x={x}", case)
    ck.assumptions = ["peak detection compared exactly on the exact stream (dyadic inputs) and skipped as ambiguous within 1e-9/1e-5 on the float stream",
                      "exp() table of alpha supplied by the harness from the published formula", "float32 outputs: tolerance 2e-6…5e-5"]
    return ck.finish()


def hs_e(freq, S):
    f = np.asarray(freq, dtype=float)
    df = np.gradient(f) if len(f) > 1 else np.array([1.0])
    e = float((np.asarray(S, dtype=float) * df).sum())
    if f[-1] > 0.333:
        e += 0.25 * float(S[-1]) * float(f[-1])
    return e


if __name__ == "__main__":
    from ..common import main_wrapper

    main_wrapper(run_check)

"""C15 — constructed parametric spectra have the parameters they were built from (DESIGN §3 C15).

Three families of generated cases, each run on the real constructors (in-process, from $VERIF_REPO):

* shape      pierson_moskowitz / jonswap / tma / gaussian (+ the numpy twins of npstats)
* spread     cartwright (under_90 on/off) / asymmetric
* construct  construct_partition(shape, spreading), measured with the accessor (hs, oned, dm, dspr)

For every case the transcendental factors (exp, gamma**x, tanh/sinh, cos**2s) are evaluated HERE from the published
formulas — independently of the code — and handed to the Lean model (`Model/Construct.lean`) as tables; the model
does what the code does with them (products, rescaling to hs, wrap of |dir-dm|, gsum normalisation, limiters of the
asymmetric parameters, outer product, accessor integrals).  `ck.disagree` = model != implementation,
`ck.fail` = the property's own oracle (the property text restated on the implementation's outputs) fails.
"""
import math
import sys
from fractions import Fraction

import numpy as np

from .. import gen
from ..common import Check, ang_close, case_rng, close, enc, enc_m, enc_o, enc_v, import_ws, parse_resp, pmap, run_driver

sys.set_int_max_str_digits(0)  # the model's exact rationals have thousands of digits
R2D = 180.0 / math.pi
G = 9.80665
PI = math.pi
DIMS = ["time", "site", "lat"]


# ------------------------------------------------------------------------------------------------
# published formulas (plain python floats; nothing imported from the implementation)
# ------------------------------------------------------------------------------------------------
def tab_pm1(freq, alpha):
    return [alpha * G ** 2 / (2 * PI) ** 4 / f ** 5 for f in freq]


def sexp(x):
    return math.exp(x) if x > -745.0 else 0.0


def tab_pm2(freq, fp):
    return [sexp(-1.25 * (f / fp) ** -4) for f in freq]


def tab_peak(freq, fp, gamma, sa, sb):
    out = []
    for f in freq:
        sig = sa if f <= fp else sb
        out.append(gamma ** sexp(-((f - fp) ** 2) / (2 * sig ** 2 * fp ** 2)))
    return out


def tab_phi(kd):
    """TMA depth factor tanh²(kd)/(1 + 2kd/sinh(2kd)) from the table of k·d."""
    out = []
    for x in kd:
        r = 0.0 if 2 * x > 700 else (2 * x) / math.sinh(2 * x)
        out.append(math.tanh(x) ** 2 / (1 + r))
    return out


def tab_gauss(freq, hs, fp, gw):
    mo = (hs / 4) ** 2
    return [mo / (gw * math.sqrt(2 * PI)) * sexp(-0.5 * ((f - fp) / gw) ** 2) for f in freq]


def short_way(d, m):
    """angular distance of two directions, the short way round the circle"""
    x = abs(d - m) % 360.0
    return min(x, 360.0 - x)


def tab_cos2s(dirs, dm, dspr, under_90=False):
    s = 2.0 / math.radians(dspr) ** 2 - 1
    out = []
    for d in dirs:
        a = short_way(d, dm)
        v = math.cos(0.5 * math.radians(a)) ** (2 * s)
        if under_90 and a > 90.0:
            v = 0.0
        out.append(v)
    return out


def asym_params(freq, dm, dpm, dspr, dpspr, fm, fp):
    """Bunney et al. (2014) per-frequency direction and spread, with the limiters of the reference implementation;
    dm − dpm is a difference of directions: taken the short way round the circle."""
    dd = (dm - dpm + 180.0) % 360.0 - 180.0
    ds = max(dspr - dpspr, 0.0)
    df = max(fm - fp, 0.001)
    theta, sigma = [], []
    for f in freq:
        t = dpm + dd / df * (f - fp)
        theta.append(min(1.5 * dpm, max(0.5 * dpm, t)))
        s = dpspr + ds / df * (f - fp)
        s = max(0.5 * dspr, min(1.5 * max(dspr, dpspr), s))
        sigma.append(s if s >= 0.14 else 0.14)
    return theta, sigma


def asym_intended_offsets(freq, dm, dpm, fm, fp):
    """per-frequency direction minus dpm as the published method intends it: gradient (dm − dpm)/(fm − fp) with the direction
    difference taken the short way round the circle (no limiter)"""
    dd = (dm - dpm + 180.0) % 360.0 - 180.0
    df = max(fm - fp, 0.001)
    return [dd / df * (f - fp) for f in freq]


def np_df(freq):
    f = np.asarray(freq, dtype=float)
    return np.gradient(f) if len(f) > 1 else np.array([1.0])


def hs_direct(freq, S):
    """4·sqrt(Σ S Δf [+ ¼ S_n f_n]) — the published Hm0 of a 1-D spectrum, plain numpy."""
    f = np.asarray(freq, dtype=float)
    e = float((np.asarray(S, dtype=float) * np_df(f)).sum())
    if f[-1] > 0.333:
        e += 0.25 * float(S[-1]) * float(f[-1])
    return 4 * math.sqrt(e) if e >= 0 else float("nan")


def dir_from(S, C):
    return (270.0 - R2D * math.atan2(S, C)) % 360.0


# ------------------------------------------------------------------------------------------------
# generators
# ------------------------------------------------------------------------------------------------
def gen_fgrid(rng):
    nf = rng.choice([6, 8, 12, 16, 24])
    kind = rng.choice(["log", "uniform", "irregular"])
    if kind == "log":
        f0 = rng.choice([0.03, 0.035, 0.04, 0.05])
        r = rng.choice([1.07, 1.1, 1.15, 1.2])
        f = [f0 * r ** i for i in range(nf)]
    elif kind == "uniform":
        f0 = rng.choice([0.03, 0.04, 0.05])
        d = rng.choice([0.005, 0.01, 0.0125, 0.02])
        f = [f0 + i * d for i in range(nf)]
    else:
        f = [rng.choice([0.03, 0.04, 0.05])]
        for _ in range(nf - 1):
            f.append(f[-1] + rng.choice([0.004, 0.007, 0.01, 0.015, 0.02]))
    f = np.array(f, dtype=float)
    if rng.random() < 0.3:  # put the last frequency on a chosen side of the 0.333 Hz tail threshold
        f = f * (rng.choice([0.25, 0.3, 0.34, 0.4, 0.6]) / f[-1])
    return f, kind + (":hi" if f[-1] > 0.333 else ":lo")


def gen_fp(rng, freq):
    """peak frequency inside the grid: on a node or strictly between two nodes"""
    n = len(freq)
    i = rng.randrange(1, n - 1)
    if rng.random() < 0.6:
        return float(freq[i]), "node"
    w = rng.choice([0.25, 0.5, 0.8])
    return float(freq[i] + w * (freq[i + 1] - freq[i])), "between"


def gen_dgrid(rng, fine=False):
    nd = rng.choice([36, 40, 48, 72] if fine else [8, 12, 16, 24, 36, 36, 45, 48, 72, 7, 25])
    dd = 360.0 / nd
    start = rng.choice([0.0, 0.0, dd / 2, 5.0 % dd, rng.randint(0, 3) * dd / 4])
    base = np.sort((start + dd * np.arange(nd)) % 360.0)
    order = rng.choice(["sorted", "sorted", "rotated", "reversed", "seam"])
    if order == "rotated":
        base = np.roll(base, -rng.randint(1, max(1, nd - 2)))
    elif order == "reversed":
        base = base[::-1].copy()
    elif order == "seam":
        base = np.roll(base, 1)
    return base, order


def gen_dm(rng, dirs):
    """mean direction anywhere on the circle, biased to the 0/360 seam; tagged symmetric when the grid is mapped onto
    itself by the reflection about dm (dm on a node or half-way between two nodes)"""
    nd = len(dirs)
    dd = 360.0 / nd
    srt = np.sort(dirs)
    k = rng.random()
    if k < 0.25:
        return float(srt[rng.randrange(nd)]), "node"
    if k < 0.4:
        j = rng.randrange(nd)
        return float((srt[j] + dd / 2) % 360.0), "mid"
    if k < 0.7:
        return float(rng.choice([0.0, 0.001, 0.5, 1.0, 2.5, 357.5, 359.0, 359.5, 359.999, rng.uniform(0, 3), 360 - rng.uniform(0.001, 3)])), "seam"
    return rng.uniform(0, 360), "any"


def reflection_perm(dirs, dm, tol=1e-9):
    """for each bin the index of the bin at 2·dm − dir (mod 360), or None if the grid is not symmetric about dm"""
    out = []
    for d in dirs:
        r = (2 * dm - d) % 360.0
        js = [j for j, e in enumerate(dirs) if short_way(e, r) <= tol]
        if len(js) != 1:
            return None
        out.append(js[0])
    return out if sorted(out) == list(range(len(dirs))) else None


def lead_dims(rng):
    n = rng.choice([0, 0, 1, 2])
    names = rng.sample(DIMS, n)
    return [(nm, rng.randint(1, 3)) for nm in names]


def as_param(rng, lead, values_fn, force_array=False):
    """a parameter either scalar or a DataArray over the leading dims; returns (object for the call, getter(pos))"""
    import xarray as xr

    if not lead or (not force_array and rng.random() < 0.4):
        v = float(values_fn())
        return v, (lambda pos, v=v: v)
    shape = [k for _, k in lead]
    arr = np.array([values_fn() for _ in range(int(np.prod(shape)))], dtype=float).reshape(shape)
    da = xr.DataArray(arr, dims=[n for n, _ in lead], coords={n: np.arange(k, dtype=float) for n, k in lead})
    return da, (lambda pos, da=da: float(da.isel(pos)))


def positions(rng, lead, nmax=2):
    idx = [dict(zip([n for n, _ in lead], ix)) for ix in np.ndindex(*[k for _, k in lead])] if lead else [{}]
    rng.shuffle(idx)
    return idx[:nmax]


def at(da, pos):
    return da.isel({k: v for k, v in pos.items() if k in da.dims})


def is_arr(x):
    return not isinstance(x, float)


def asym_mixed(dm, dpm, dspr, dpspr, fm, fp):
    """trigger predicate `asymmetric_mixed_scalar_array_params`: the per-frequency direction (from dm, dpm, fm, fp) carries
    extra dimensions and the per-frequency spread (from dspr, dpspr, fm, fp) does not, or the other way round"""
    theta_arr = any(is_arr(x) for x in (dm, dpm, fm, fp))
    sigma_arr = any(is_arr(x) for x in (dspr, dpspr, fm, fp))
    return theta_arr != sigma_arr


# ------------------------------------------------------------------------------------------------
# shape cases
# ------------------------------------------------------------------------------------------------
def shape_params(rng, lead, freq, kind):
    """random parameters for one frequency shape; returns (kwargs for the call, getter dict)"""
    fpv, fpk = gen_fp(rng, freq)
    kw, get = {}, {}

    def put(name, fn, force=False):
        kw[name], get[name] = as_param(rng, lead, fn, force)

    n = len(freq)
    put("fp", lambda: gen_fp(rng, freq)[0])
    if kind in ("pm", "jonswap", "tma"):
        put("alpha", lambda: rng.choice([0.0081, 0.0081, 0.005, 0.02, rng.uniform(0.001, 0.05)]))
    if kind in ("jonswap", "tma"):
        put("gamma", lambda: rng.choice([1.0, 1.0, 3.3, 3.3, 1.5, 2.0, 5.0, 7.0, rng.uniform(1, 7)]))
        put("sigma_a", lambda: rng.choice([0.07, 0.07, 0.05, 0.1, rng.uniform(0.04, 0.12)]))
        put("sigma_b", lambda: rng.choice([0.09, 0.09, 0.07, 0.12, rng.uniform(0.05, 0.15)]))
    if kind == "tma":
        put("dep", lambda: rng.choice([5.0, 10.0, 20.0, 50.0, 200.0, 1e4, 1e4, rng.uniform(3, 100)]))
    if kind == "gaussian":
        i = rng.randrange(1, n - 1)
        local = float(freq[i + 1] - freq[i])
        put("gw", lambda: local * rng.choice([0.4, 0.7, 1.0, 2.0, 3.0]))
    return kw, get, fpk


def call_shape(kind, freq, kw, hs):
    from wavespectra.construct import frequency as cf

    if kind == "pm":
        return cf.pierson_moskowitz(freq, kw["fp"], kw["alpha"], hs)
    if kind == "jonswap":
        return cf.jonswap(freq, kw["fp"], kw["alpha"], kw["gamma"], kw["sigma_a"], kw["sigma_b"], hs)
    if kind == "tma":
        return cf.tma(freq, kw["fp"], kw["dep"], kw["alpha"], kw["gamma"], kw["sigma_a"], kw["sigma_b"], hs)
    if kind == "gaussian":
        return cf.gaussian(freq, hs, kw["fp"], kw["gw"])
    raise ValueError(kind)


def shape_tables(kind, freq, p, hs):
    """(t1, t2, t3, phi) from the published formulas for the parameter values `p` (plain floats)"""
    n = len(freq)
    ones = [1.0] * n
    if kind == "gaussian":
        return tab_gauss(freq, hs, p["fp"], p["gw"]), ones, ones, ones
    t1 = tab_pm1(freq, p["alpha"])
    t2 = tab_pm2(freq, p["fp"])
    if kind == "pm":
        return t1, t2, ones, ones
    t3 = tab_peak(freq, p["fp"], p["gamma"], p["sigma_a"], p["sigma_b"])
    if kind == "jonswap":
        return t1, t2, t3, ones
    from wavespectra.core.utils import wavenuma  # k table: the library's dispersion solver (accuracy is C01's exploration)

    k = np.asarray(wavenuma(np.asarray(freq, dtype=float), p["dep"]), dtype=float)
    return t1, t2, t3, tab_phi([float(x) * p["dep"] for x in k])


def shape_request(kind, hs, freq, tabs):
    return " ".join(["c15shape", kind, enc_o(hs)] + [enc_v(freq)] + [enc_v(t) for t in tabs])


def make_shape_case(args):
    seed, icase = args
    rng = case_rng("C15-shape", seed, icase)
    import_ws()
    import xarray as xr
    from wavespectra.construct import frequency as cf

    out = []
    freq, fkind = gen_fgrid(rng)
    kind = rng.choice(["pm", "jonswap", "jonswap", "tma", "tma", "gaussian"])
    lead = lead_dims(rng)
    kw, get, fpk = shape_params(rng, lead, freq, kind)
    with_hs = kind == "gaussian" or rng.random() < 0.8
    hs_obj, hs_get = (None, (lambda pos: None))
    if with_hs:
        hs_obj, hs_get = as_param(rng, lead, lambda: rng.choice([0.5, 1.0, 2.0, 3.5, 8.0, rng.uniform(0.1, 12)]))
    desc = dict(mode="shape", kind=kind, nf=len(freq), fkind=fkind, lead=lead, with_hs=with_hs, icase=icase,
                arrays=sorted([k for k, v in kw.items() if is_arr(v)] + (["hs"] if is_arr(hs_obj) and with_hs else [])))
    freq_in = rng.choice(["ndarray", "list", "dataarray"])
    fobj = freq if freq_in == "ndarray" else list(freq) if freq_in == "list" else xr.DataArray(freq, dims="freq", coords={"freq": freq}, name="freq")
    try:
        da = call_shape(kind, fobj, kw, hs_obj)
        hs_m = da.spec.hs()
        extra = {}
        if kind == "jonswap":
            kw1 = dict(kw, gamma=1.0)
            extra["js_gamma1"] = call_shape("jonswap", fobj, kw1, hs_obj)
            extra["pm_same"] = cf.pierson_moskowitz(fobj, kw["fp"], kw["alpha"], hs_obj)
        if kind == "tma":
            kwd = dict(kw, dep=1e4)
            extra["tma_deep"] = call_shape("tma", fobj, kwd, hs_obj)
            extra["js_same"] = call_shape("jonswap", fobj, kw, hs_obj)
    except Exception as e:
        return [("CRASH", dict(op=kind, what=f"{type(e).__name__}: {e}", case=desc))]
    for pos in positions(rng, lead, 2):
        p = {k: g(pos) for k, g in get.items()}
        hsv = hs_get(pos)
        tabs = shape_tables(kind, freq, p, hsv)
        E = np.asarray(at(da, pos).values, dtype=float)
        ctx = dict(mode="shape", kind=kind, desc=desc, pos=pos, p=p, hs=hsv, freq=freq, E=E, hs_meas=float(at(hs_m, pos)),
                   tabs_pos=all(min(t) > 0 for t in tabs), fpk=fpk, dims=list(da.dims), name=da.name)
        for k, v in extra.items():
            ctx[k] = np.asarray(at(v, pos).values, dtype=float)
        out.append((shape_request(kind, hsv, freq, tabs), ctx))
    # numpy twins (scalars only)
    if kind in ("jonswap", "gaussian") and rng.random() < 0.6:
        from wavespectra.core import npstats

        pos = positions(rng, lead, 1)[0]
        p = {k: g(pos) for k, g in get.items()}
        hsv = hs_get(pos) or 2.0
        try:
            if kind == "jonswap":
                En = npstats.jonswap(freq, p["fp"], hsv, p["gamma"], p["alpha"], p["sigma_a"], p["sigma_b"])
                Ex = call_shape("jonswap", freq, p, hsv).values
            else:
                En = npstats.gaussian(freq, p["fp"], hsv, p["gw"])
                Ex = call_shape("gaussian", freq, p, hsv).values
            hs_tw = float(npstats.hs(np.asarray(En), freq))
        except Exception as e:
            return out + [("CRASH", dict(op="np" + kind, what=f"{type(e).__name__}: {e}", case=desc))]
        tabs = shape_tables(kind, freq, p, hsv)
        ctx = dict(mode="twin", kind="np" + kind, desc=dict(desc, mode="twin"), pos=pos, p=p, hs=hsv, freq=freq, E=np.asarray(En, dtype=float),
                   Ex=np.asarray(Ex, dtype=float), hs_twin=hs_tw, hs_acc=hs_direct(freq, En))
        out.append((shape_request("np" + kind, hsv, freq, tabs), ctx))
    return out


# ------------------------------------------------------------------------------------------------
# spreading cases
# ------------------------------------------------------------------------------------------------
def gen_dspr(rng):
    return rng.choice([rng.uniform(4, 10), rng.uniform(10, 40), rng.uniform(10, 40), rng.uniform(40, 80), 10.0, 25.0, 30.0, 60.0])


def make_spread_case(args):
    seed, icase = args
    rng = case_rng("C15-spread", seed, icase)
    import_ws()
    import xarray as xr
    from wavespectra.construct import direction as cd

    dirs, order = gen_dgrid(rng)
    lead = lead_dims(rng)
    kind = rng.choice(["cartwright", "cartwright", "cartwright90", "asymmetric"])
    desc = dict(mode="spread", kind=kind, nd=len(dirs), order=order, lead=lead, icase=icase)
    din = rng.choice(["ndarray", "list", "dataarray"])
    dobj = dirs if din == "ndarray" else list(dirs) if din == "list" else xr.DataArray(dirs, dims="dir", coords={"dir": dirs}, name="dir")
    out = []
    if kind != "asymmetric":
        dm_o, dm_g = as_param(rng, lead, lambda: gen_dm(rng, dirs)[0])
        ds_o, ds_g = as_param(rng, lead, lambda: gen_dspr(rng))
        u90 = kind == "cartwright90"
        try:
            g = cd.cartwright(dobj, dm_o, ds_o, under_90=u90)
        except Exception as e:
            return [("CRASH", dict(op=kind, what=f"{type(e).__name__}: {e}", case=desc))]
        for pos in positions(rng, lead, 2):
            dm, ds = dm_g(pos), ds_g(pos)
            T = [tab_cos2s(dirs, dm, ds, u90)]
            Gi = np.asarray(at(g, pos).transpose("dir").values, dtype=float)[None, :]
            req = " ".join(["c15spread", enc(PI), enc_v(dirs), enc_v([dm]), enc_m(T, len(dirs))])
            out.append((req, dict(mode="spread", kind=kind, desc=desc, pos=pos, dirs=dirs, dms=[dm], dsprs=[ds], T=T, G=Gi,
                                  p=dict(dm=dm, dspr=ds, under_90=u90))))
        return out
    # asymmetric
    freq, fkind = gen_fgrid(rng)
    fp_o, fp_g = as_param(rng, lead, lambda: gen_fp(rng, freq)[0])
    same = rng.random() < 0.2  # dm = dpm, dspr = dpspr: must reduce to cartwright
    dpm_o, dpm_g = as_param(rng, lead, lambda: gen_dm(rng, dirs)[0])
    dsp_o, dsp_g = as_param(rng, lead, lambda: rng.uniform(8, 50))
    if same:
        dm_o, dm_g, dspr_o, dspr_g = dpm_o, dpm_g, dsp_o, dsp_g
    else:
        off = rng.uniform(-20, 20)
        dm_o = (dpm_o + off) % 360 if is_arr(dpm_o) else float((dpm_o + off) % 360)
        dm_g = (lambda pos: float(at(dm_o, pos))) if is_arr(dm_o) else (lambda pos: dm_o)
        more = rng.uniform(0, 8) * rng.choice([1, 1, -1])
        dspr_o = dsp_o + more
        dspr_g = (lambda pos: float(at(dspr_o, pos))) if is_arr(dspr_o) else (lambda pos: dspr_o)
    dfm = rng.choice([0.0005, 0.005, 0.02, 0.05, -0.01])
    fm_o = fp_o + dfm
    fm_g = (lambda pos: float(at(fm_o, pos))) if is_arr(fm_o) else (lambda pos: fm_o)
    desc.update(nf=len(freq), same=same)
    desc.update(arrays=[k for k, v in dict(dm=dm_o, dpm=dpm_o, dspr=dspr_o, dpspr=dsp_o, fm=fm_o, fp=fp_o).items() if is_arr(v)])
    try:
        g = cd.asymmetric(dobj, freq, dm_o, dpm_o, dspr_o, dsp_o, fm_o, fp_o)
        gc = cd.cartwright(dobj, dpm_o, dsp_o) if same else None
    except Exception as e:
        trig = "asymmetric_mixed_scalar_array_params" if asym_mixed(dm_o, dpm_o, dspr_o, dsp_o, fm_o, fp_o) else "crash"
        return [("CRASH", dict(op=kind, what=f"{type(e).__name__}: {e}", case=desc, trigger=trig))]
    for pos in positions(rng, lead, 1):
        p = dict(dm=dm_g(pos), dpm=dpm_g(pos), dspr=dspr_g(pos), dpspr=dsp_g(pos), fm=fm_g(pos), fp=fp_g(pos))
        theta, sigma = asym_params(freq, **p)
        T = [tab_cos2s(dirs, t % 360.0, s) for t, s in zip(theta, sigma)]
        Gi = np.asarray(at(g, pos).transpose("freq", "dir").values, dtype=float)
        req = " ".join(["c15spread", enc(PI), enc_v(dirs), enc_v(theta), enc_m(T, len(dirs))])
        ctx = dict(mode="spread", kind=kind, desc=desc, pos=pos, dirs=dirs, dms=theta, dsprs=sigma, T=T, G=Gi, p=p, freq=freq)
        if same:
            ctx["Gc"] = np.asarray(at(gc, pos).transpose("dir").values, dtype=float)
        out.append((req, ctx))
        req2 = " ".join(["c15asym"] + [enc(p[k]) for k in ("dm", "dpm", "dspr", "dpspr", "fm", "fp")] + [enc_v(freq)])
        out.append((req2, dict(mode="asym", desc=desc, theta=theta, sigma=sigma, p=p, freq=freq)))
    return out


# ------------------------------------------------------------------------------------------------
# construct_partition cases
# ------------------------------------------------------------------------------------------------
def make_construct_case(args):
    seed, icase = args
    rng = case_rng("C15-construct", seed, icase)
    import_ws()
    from wavespectra.construct import construct_partition
    from wavespectra.construct import frequency as cf

    freq, fkind = gen_fgrid(rng)
    fine = rng.random() < 0.6
    dirs, order = gen_dgrid(rng, fine=fine)
    lead = lead_dims(rng)
    kind = rng.choice(["pm", "jonswap", "jonswap", "tma", "gaussian"])
    skind = rng.choice(["cartwright", "cartwright", "cartwright", "asymmetric"])
    kw, get, fpk = shape_params(rng, lead, freq, kind)
    hs_obj, hs_get = as_param(rng, lead, lambda: rng.choice([0.5, 1.0, 2.0, 3.5, 8.0, rng.uniform(0.1, 12)]))
    fkw = dict(freq=freq, hs=hs_obj, **kw)
    fname = {"pm": "pierson_moskowitz"}.get(kind, kind)
    desc = dict(mode="construct", kind=kind, spread=skind, nf=len(freq), nd=len(dirs), order=order, fkind=fkind, lead=lead, icase=icase)
    try:
        shape1d = getattr(cf, fname)(**fkw)
        if skind == "cartwright":
            dmk = [None]

            def dmf():
                v, k = gen_dm(rng, dirs)
                dmk[0] = k
                return v

            dm_o, dm_g = as_param(rng, lead, dmf)
            ds_o, ds_g = as_param(rng, lead, lambda: gen_dspr(rng))
            dkw = dict(dir=dirs, dm=dm_o, dspr=ds_o)
        else:
            fm1 = 1.0 / shape1d.spec.tm01()  # mean frequency of the shape, as partition_and_reconstruct passes it
            cross = rng.random() < 0.3  # peak direction just below 360°, mean direction just above 0°
            dpm_o, dpm_g = as_param(rng, lead, (lambda: 360.0 - rng.uniform(0.1, 3.0)) if cross else (lambda: gen_dm(rng, dirs)[0]))
            off = rng.uniform(3.1, 7.0) if cross else rng.choice([rng.uniform(-15, 15), rng.uniform(-4, 4), rng.uniform(-4, 4)])
            dm_o = (dpm_o + off) % 360 if is_arr(dpm_o) else float((dpm_o + off) % 360)
            dm_g = (lambda pos: float(at(dm_o, pos))) if is_arr(dm_o) else (lambda pos: dm_o)
            dsp_o, dsp_g = as_param(rng, lead, lambda: rng.uniform(12, 40))
            dspr_o = dsp_o + rng.uniform(0, 6)
            ds_g = (lambda pos: float(at(dspr_o, pos))) if is_arr(dspr_o) else (lambda pos: dspr_o)
            if fm1.ndim == 0:
                fm_o = float(fm1)
            else:
                import xarray as xr

                names = [n for n, _ in lead]
                fm_o = xr.DataArray(np.asarray(fm1.transpose(*names).values, dtype=float), dims=names,
                                    coords={n: np.arange(k, dtype=float) for n, k in lead})
            fm_g = (lambda pos: float(at(fm_o, pos))) if is_arr(fm_o) else (lambda pos: fm_o)
            dkw = dict(dir=dirs, freq=freq, dm=dm_o, dpm=dpm_o, dspr=dspr_o, dpspr=dsp_o, fm=fm_o, fp=kw["fp"])
        da = construct_partition(fname, skind, fkw, dkw)
        sp = da.spec
        m = dict(hs=sp.hs(), dm=sp.dm(), dspr=sp.dspr(), oned=sp.oned())
    except Exception as e:
        trig = "crash"
        if skind == "asymmetric" and "dpm" in locals().get("dkw", {}) and asym_mixed(*[dkw[k] for k in ("dm", "dpm", "dspr", "dpspr", "fm", "fp")]):
            trig = "asymmetric_mixed_scalar_array_params"
        return [("CRASH", dict(op="construct_partition" if trig == "crash" else "asymmetric", what=f"{type(e).__name__}: {e}", case=desc, trigger=trig))]
    out = []
    s_t, c_t = gen.trig_tables(dirs)
    for pos in positions(rng, lead, 2):
        p = {k: g(pos) for k, g in get.items()}
        hsv = hs_get(pos)
        tabs = shape_tables(kind, freq, p, hsv)
        if skind == "cartwright":
            dm, ds = dm_g(pos), ds_g(pos)
            T = [tab_cos2s(dirs, dm, ds)]
            sp_p = dict(dm=dm, dspr=ds)
        else:
            sp_p = dict(dm=dm_g(pos), dpm=dpm_g(pos), dspr=ds_g(pos), dpspr=dsp_g(pos), fm=fm_g(pos), fp=p["fp"])
            theta, sigma = asym_params(freq, **sp_p)
            T = [tab_cos2s(dirs, t % 360.0, s) for t, s in zip(theta, sigma)]
        E2 = np.asarray(at(da, pos).transpose("freq", "dir").values, dtype=float)
        S1 = np.asarray(at(shape1d, pos).values, dtype=float)
        irow = int(np.argmax(S1))
        icol = rng.randrange(len(dirs))
        req = " ".join(["c15construct", kind, enc_o(hsv), enc_v(freq)] + [enc_v(t) for t in tabs] +
                       [enc(PI), enc_v(dirs), enc_m(T, len(dirs)), enc_v(s_t), enc_v(c_t), str(irow), str(icol)])
        out.append((req, dict(mode="construct", kind=kind, spread=skind, desc=desc, pos=pos, p=p, sp=sp_p, hs=hsv, freq=freq, dirs=dirs,
                              E2=E2, S1=S1, irow=irow, icol=icol, order=order,
                              meas={k: (np.asarray(at(v, pos).values, dtype=float) if k == "oned" else float(at(v, pos))) for k, v in m.items()},
                              dims=list(da.dims))))
    return out


# ------------------------------------------------------------------------------------------------
# corpus: witnesses of the findings, run first on every run (deterministic)
# ------------------------------------------------------------------------------------------------
def corpus_cases(_):
    import_ws()
    import xarray as xr
    from wavespectra.construct import construct_partition
    from wavespectra.construct import direction as cd
    from wavespectra.construct import frequency as cf

    out = []
    freq = np.round(np.arange(0.03, 0.4, 0.01), 2)
    dirs = np.arange(0.0, 360.0, 10.0)
    s_t, c_t = gen.trig_tables(dirs)
    p = dict(fp=0.1, alpha=0.0081, gamma=3.3, sigma_a=0.07, sigma_b=0.09)
    for tag, dm, dpm in (("F40-asymmetric-seam", 1.0, 359.0), ("same sea state 10° away from the seam", 11.0, 9.0)):
        sp_p = dict(dm=dm, dpm=dpm, dspr=30.0, dpspr=25.0, fm=0.12, fp=0.1)
        desc = dict(mode="construct", kind="jonswap", spread="asymmetric", nf=len(freq), nd=len(dirs), order="sorted", fkind="uniform:hi",
                    lead=[], icase=f"corpus:{tag}")
        try:
            shape1d = cf.jonswap(freq=freq, hs=2.0, **p)
            da = construct_partition("jonswap", "asymmetric", dict(freq=freq, hs=2.0, **p), dict(dir=dirs, freq=freq, **sp_p))
            spc = da.spec
            meas = dict(hs=float(spc.hs()), dm=float(spc.dm()), dspr=float(spc.dspr()), oned=np.asarray(spc.oned().values, dtype=float))
        except Exception as e:
            out.append(("CRASH", dict(op="construct_partition", what=f"{type(e).__name__}: {e}", case=desc)))
            continue
        tabs = shape_tables("jonswap", freq, p, 2.0)
        theta, sigma = asym_params(freq, **sp_p)
        T = [tab_cos2s(dirs, t % 360.0, s_) for t, s_ in zip(theta, sigma)]
        S1 = np.asarray(shape1d.values, dtype=float)
        irow = int(np.argmax(S1))
        req = " ".join(["c15construct", "jonswap", enc_o(2.0), enc_v(freq)] + [enc_v(t) for t in tabs] +
                       [enc(PI), enc_v(dirs), enc_m(T, len(dirs)), enc_v(s_t), enc_v(c_t), str(irow), "3"])
        out.append((req, dict(mode="construct", kind="jonswap", spread="asymmetric", desc=desc, pos={}, p=p, sp=sp_p, hs=2.0, freq=freq, dirs=dirs,
                              E2=np.asarray(da.transpose("freq", "dir").values, dtype=float), S1=S1, irow=irow, icol=3, order="sorted",
                              meas=meas, dims=list(da.dims))))
    # F41: direction parameters over an extra dimension, spread parameters scalar
    lat = dict(dims="lat", coords={"lat": [0.0]})
    dm_a, dpm_a = xr.DataArray([35.0], **lat), xr.DataArray([30.0], **lat)
    desc = dict(mode="spread", kind="asymmetric", nd=len(dirs), order="sorted", lead=[["lat", 1]], icase="corpus:F41-asymmetric-mixed-params",
                arrays=["dm", "dpm"])
    try:
        g = cd.asymmetric(dirs, freq, dm_a, dpm_a, 23.0, 20.0, 0.12, 0.1)
        pp = dict(dm=35.0, dpm=30.0, dspr=23.0, dpspr=20.0, fm=0.12, fp=0.1)
        theta, sigma = asym_params(freq, **pp)
        T = [tab_cos2s(dirs, t % 360.0, s_) for t, s_ in zip(theta, sigma)]
        req = " ".join(["c15spread", enc(PI), enc_v(dirs), enc_v(theta), enc_m(T, len(dirs))])
        out.append((req, dict(mode="spread", kind="asymmetric", desc=desc, pos={"lat": 0}, dirs=dirs, dms=theta, dsprs=sigma, T=T,
                              G=np.asarray(g.isel(lat=0).transpose("freq", "dir").values, dtype=float), p=pp, freq=freq)))
    except Exception as e:
        trig = "asymmetric_mixed_scalar_array_params" if asym_mixed(dm_a, dpm_a, 23.0, 20.0, 0.12, 0.1) else "crash"
        out.append(("CRASH", dict(op="asymmetric", what=f"{type(e).__name__}: {e}", case=desc, trigger=trig)))
    return out


# ------------------------------------------------------------------------------------------------
# evaluation
# ------------------------------------------------------------------------------------------------
def vec_close(a, b, rel=1e-9, floor=1e-290):
    """per-bin comparison impl (floats) vs model (Fractions/floats); bins in the denormal range are skipped"""
    if len(a) != len(b):
        return False, "length"
    worst = 0.0
    for i, (x, y) in enumerate(zip(a, b)):
        x, y = float(x), float(y)
        if math.isnan(x) or math.isnan(y):
            return False, f"nan at {i}"
        if max(abs(x), abs(y)) < floor:
            continue
        r = abs(x - y) / max(abs(x), abs(y))
        worst = max(worst, r)
        if r > rel:
            return False, f"bin {i}: impl={x!r} model={y!r} rel={r:.2e}"
    return True, worst


def jsonable(x):
    if isinstance(x, dict):
        return {k: jsonable(v) for k, v in x.items()}
    if isinstance(x, (list, tuple)):
        return [jsonable(v) for v in x]
    if isinstance(x, np.ndarray):
        return x.tolist()
    if isinstance(x, (np.floating, np.integer)):
        return float(x)
    return x


def tol_class(ddeg, dspr):
    """exploration tolerances for the recovery of dm/dspr from the *sampled* cos^2s (found by sweeps, see ck.assumptions):
    returns (dm tolerance in degrees, dspr relative tolerance) or None when nothing is claimed"""
    if ddeg > 10.0 + 1e-9 or dspr < 10.0 or dspr > 70.0:
        return None
    if 12.0 <= dspr <= 40.0:
        return 1e-6, 1e-6      # worst observed 1e-9 / 3e-10
    if dspr <= 60.0:
        return 1e-3, 1e-4      # worst observed 2.0e-4° / 3.6e-5
    return 0.05, 5e-3          # worst observed 0.011° / 1.8e-3 (beyond 70° |cos|^2s has a cusp at 180°: slow convergence)


def eval_shape(ck, ctx, mo, st):
    kind, freq, E, hs = ctx["kind"], ctx["freq"], ctx["E"], ctx["hs"]
    case = jsonable(dict(ctx["desc"], pos=ctx["pos"], params=ctx["p"], hs=hs, freq=freq))
    sig = gen.signature(len(freq), 1, "shape", kind, ctx["desc"]["fkind"], "hs" if hs is not None else "nohs", ctx["fpk"],
                        "arr" if ctx["desc"]["arrays"] else "scalar", len(ctx["desc"]["lead"]))
    ck.case(sig, True, sample=jsonable(dict(ctx["desc"], params=ctx["p"], hs=hs, hs_measured=ctx["hs_meas"])))
    ck.count("shape:" + kind)
    ck.count("hyp:tables_positive" if ctx["tabs_pos"] else "hyp:tables_have_zeros(underflow)")
    # ---- correspondence
    if st != "ok":
        ck.disagree("c15shape", f"model returned {mo} but the implementation a spectrum", case)
    else:
        ok, info = vec_close(E, mo["E"])
        if not ok:
            ck.disagree(kind, f"spectrum: {info}", case)
        if hs is not None and not close(ctx["hs_meas"], 4 * math.sqrt(float(mo["hsE"])), rel=1e-9):
            ck.disagree(kind + ".hs", f"accessor hs={ctx['hs_meas']} model={4 * math.sqrt(float(mo['hsE']))}", case)
    # ---- property oracle on the implementation
    if "freq" not in ctx["dims"] or ctx["name"] != "efth":
        ck.fail(kind, f"result is not an efth(freq) array: dims={ctx['dims']} name={ctx['name']}", case, "not_a_spectrum")
    if np.isnan(E).any():
        ck.fail(kind, "NaN in the constructed spectrum", case, "nan")
    elif E.min() < 0:
        ck.fail(kind, f"negative energy density {E.min()}", case, "negative")
    if hs is not None:
        if not close(ctx["hs_meas"], hs, rel=1e-9):
            ck.fail(kind, f"requested hs={hs!r} but spec.hs()={ctx['hs_meas']!r}", case, "hs_not_requested")
        hd = hs_direct(freq, E)
        if not close(hd, hs, rel=1e-9):
            ck.fail(kind, f"requested hs={hs!r} but 4·sqrt(m0) of the returned bins={hd!r}", case, "hs_not_requested")
    if "js_gamma1" in ctx:
        ok, info = vec_close(ctx["js_gamma1"], ctx["pm_same"])
        ck.count("oracle:jonswap_gamma1_vs_pm")
        if not ok:
            ck.fail("jonswap", f"JONSWAP(gamma=1) != Pierson-Moskowitz: {info}", case, "gamma1_not_pm")
    if "tma_deep" in ctx:
        from_k = [(2 * PI * f) ** 2 / G * 1e4 for f in freq]
        if min(from_k) >= 10.0:
            ck.count("explore:tma_deep_vs_jonswap")
            ok, info = vec_close(ctx["tma_deep"], ctx["js_same"], rel=1e-6)
            if not ok:
                ck.fail("tma", f"TMA(depth=1e4) != JONSWAP within 1e-6: {info}", case, "tma_deep_not_jonswap")
        else:
            ck.count("explore:tma_deep_skipped(kd<10)")


def eval_twin(ck, ctx, mo, st):
    kind, freq, E, hs = ctx["kind"], ctx["freq"], ctx["E"], ctx["hs"]
    case = jsonable(dict(ctx["desc"], params=ctx["p"], hs=hs, freq=freq))
    ck.case(gen.signature(len(freq), 1, "twin", kind, ctx["desc"]["fkind"]), True)
    ck.count("twin:" + kind)
    if st != "ok":
        ck.disagree("c15shape", f"model returned {mo}", case)
        return
    ok, info = vec_close(E, mo["E"])
    if not ok:
        ck.disagree(kind, f"spectrum: {info}", case)
    if not close(ctx["hs_twin"], 4 * math.sqrt(float(mo["npHsE"])), rel=1e-9):
        ck.disagree(kind + ".hs", f"npstats.hs={ctx['hs_twin']} model={4 * math.sqrt(float(mo['npHsE']))}", case)
    # oracle: the twin is the same shape as the xarray constructor (one constant factor) …
    Ex = ctx["Ex"]
    i0 = int(np.argmax(Ex))
    if Ex[i0] > 0:
        k = E[i0] / Ex[i0]
        ok, info = vec_close(E, Ex * k)
        if not ok:
            ck.fail(kind, f"numpy twin is not proportional to the xarray constructor: {info}", case, "twin_not_proportional")
    # … and npstats.jonswap has the requested height by its own measure
    if kind == "npjonswap" and not close(ctx["hs_twin"], hs, rel=1e-9):
        ck.fail(kind, f"requested hs={hs} but npstats.hs={ctx['hs_twin']}", case, "hs_not_requested")
    # observations (not alarms): accessor-vs-twin integration rule, unscaled gaussian twin
    dev = abs(ctx["hs_acc"] / hs - 1)
    ck.extra.setdefault("observations", {}).setdefault(kind + ":max |accessor hs / requested - 1|", 0.0)
    ck.extra["observations"][kind + ":max |accessor hs / requested - 1|"] = max(ck.extra["observations"][kind + ":max |accessor hs / requested - 1|"], dev)


def eval_spread(ck, ctx, mo, st):
    kind, dirs, G, T = ctx["kind"], ctx["dirs"], ctx["G"], ctx["T"]
    nd = len(dirs)
    case = jsonable(dict(ctx["desc"], pos=ctx["pos"], params=ctx["p"], dirs=dirs))
    ddv = gen.bin_width(dirs)
    dspr_cls = "narrow" if min(ctx["dsprs"]) < 10 else "broad" if max(ctx["dsprs"]) > 40 else "mid"
    seam = any(short_way(m % 360.0, 0.0) <= 3.0 for m in ctx["dms"])
    ck.case(gen.signature(len(T), nd, "spread", kind, ctx["desc"]["order"], dspr_cls, "seam" if seam else "away", len(ctx["desc"]["lead"])),
            True, sample=jsonable(dict(ctx["desc"], params=ctx["p"])))
    ck.count("spread:" + kind)
    if seam:
        ck.count("spread:dm_within_3deg_of_seam")
    if st != "ok":
        ck.disagree("c15spread", f"model: {mo}", case)
        return
    if mo["nanrows"]:
        ck.count("hyp:table_sum_zero(out of the proved region)")
    else:
        ck.count("hyp:table_sum_nonzero")
    # ---- correspondence: wrap, normalised values, integral
    for r, m in enumerate(ctx["dms"]):
        for j, d in enumerate(dirs):
            a = float(mo["dth"][r][j])
            if abs(abs(a) - short_way(d, m)) > 1e-9:
                ck.disagree(kind + ".wrap", f"row {r} dir {d} dm {m}: model |dth|={abs(a)} short-way distance={short_way(d, m)}", case)
                break
    for r in range(len(T)):
        if r in mo["nanrows"]:
            continue
        ok, info = vec_close(G[r], mo["G"][r])
        if not ok:
            ck.disagree(kind, f"row {r}: {info}", case)
            break
        if abs(float(mo["int"][r]) - 1) > 1e-12:
            ck.disagree(kind + ".int", f"row {r}: model integral {float(mo['int'][r])} (dd={float(mo['dd'])})", case)
    # ---- property oracle
    if np.isnan(G).any():
        ck.fail(kind, "NaN in the spreading function", case, "nan")
        return
    if G.min() < 0:
        ck.fail(kind, f"negative spreading value {G.min()}", case, "negative")
    ints = G.sum(axis=1) * ddv
    bad = np.abs(ints - 1) > 1e-9
    if bad.any():
        r = int(np.argmax(np.abs(ints - 1)))
        ck.fail(kind, f"spreading integrates to {ints[r]!r} (row {r}, Δθ={ddv})", case, "not_normalised")
    if "Gc" in ctx:
        ck.count("oracle:asymmetric_reduces_to_cartwright")
        for r in range(G.shape[0]):
            ok, info = vec_close(G[r], ctx["Gc"])
            if not ok:
                ck.fail(kind, f"asymmetric(dm=dpm, dspr=dpspr) != cartwright, row {r}: {info}", case, "asym_not_cartwright")
                break


def eval_asym(ck, ctx, mo, st):
    case = jsonable(dict(ctx["desc"], params=ctx["p"], freq=ctx["freq"]))
    ck.count("asym:params")
    if st != "ok":
        ck.disagree("c15asym", str(mo), case)
        return
    for nm in ("theta", "sigma"):
        for i, (a, b) in enumerate(zip(ctx[nm], mo[nm])):
            if not close(a, b, rel=1e-9, abs_=1e-9):
                ck.disagree("asymmetric." + nm, f"bin {i}: published formula {a} model {float(b)}", case)
                break


def eval_construct(ck, ctx, mo, st):
    kind, skind, freq, dirs, E2, hs = ctx["kind"], ctx["spread"], ctx["freq"], ctx["dirs"], ctx["E2"], ctx["hs"]
    nd, nf = len(dirs), len(freq)
    sp = ctx["sp"]
    meas = ctx["meas"]
    ddeg = 360.0 / nd
    ddv = gen.bin_width(dirs)
    case = jsonable(dict(ctx["desc"], pos=ctx["pos"], shape_params=ctx["p"], spread_params=sp, hs=hs, freq=freq, dirs=dirs))
    perm = reflection_perm(dirs, sp["dm"]) if skind == "cartwright" else None
    sym = perm is not None
    dm_seam = short_way(sp["dm"], 0.0) <= 3.0
    cls = tol_class(ddeg, sp["dspr"]) if skind == "cartwright" else None
    ck.case(gen.signature(nf, nd, "construct", kind, skind, ctx["order"], "sym" if sym else "nosym", "seam" if dm_seam else "away",
                          "tight" if cls and cls[0] < 1e-5 else "loose" if cls else "none", len(ctx["desc"]["lead"])), True,
            sample=jsonable(dict(ctx["desc"], shape_params=ctx["p"], spread_params=sp, hs=hs,
                                 measured={k: v for k, v in meas.items() if k != "oned"})))
    ck.count(f"construct:{kind}x{skind}")
    if dm_seam:
        ck.count("construct:dm_within_3deg_of_seam")
    # ---- correspondence with the model (integration, scaling, moments)
    if st != "ok":
        ck.disagree("c15construct", f"model: {mo}", case)
    else:
        ok, info = vec_close(ctx["S1"], mo["shape"])
        if not ok:
            ck.disagree(kind, f"1-D shape: {info}", case)
        ok, info = vec_close(meas["oned"], mo["oned"])
        if not ok:
            ck.disagree("oned", info, case)
        ok, info = vec_close(E2[ctx["irow"]], mo["row"])
        if not ok:
            ck.disagree("efth.row", f"row {ctx['irow']}: {info}", case)
        ok, info = vec_close(E2[:, ctx["icol"]], mo["col"])
        if not ok:
            ck.disagree("efth.col", f"col {ctx['icol']}: {info}", case)
        if not close(meas["hs"], 4 * math.sqrt(float(mo["hsE"])), rel=1e-9):
            ck.disagree("hs", f"impl={meas['hs']} model={4 * math.sqrt(float(mo['hsE']))}", case)
        vs, vc = float(mo["dmS"]), float(mo["dmC"])
        tot = ddv * float(np.abs(E2).sum())
        if math.hypot(vs, vc) <= 1e-6 * tot:
            ck.ambiguous += 1
        elif not ang_close(meas["dm"], dir_from(vs, vc), tol=1e-7):
            ck.disagree("dm", f"impl={meas['dm']} model={dir_from(vs, vc)}", case)
        a, b, e = float(mo["dsA"]), float(mo["dsB"]), float(mo["dsE"])
        x = 1 - math.hypot(a, b) / e
        xi = meas["dspr"] ** 2 / (2 * R2D ** 2)
        if math.isnan(xi) and x < 1e-9:
            ck.ambiguous += 1  # unidirectional energy: rounding pushes 1 − |m1|/m0 below zero, sqrt gives NaN
        elif math.isnan(xi) or abs(xi - x) > 1e-10:
            ck.disagree("dspr", f"impl 1-r={xi} model 1-r={x}", case)
    # ---- property oracle on the implementation
    if np.isnan(E2).any():
        ck.fail("construct_partition", "NaN in the 2-D spectrum", case, "nan")
        return
    if E2.min() < 0:
        ck.fail("construct_partition", f"negative energy density {E2.min()}", case, "negative")
    if not close(meas["hs"], hs, rel=1e-9):
        ck.fail("construct_partition", f"requested hs={hs!r}, spec.hs() of the 2-D spectrum={meas['hs']!r}", case, "hs_not_requested")
    ok, info = vec_close(meas["oned"], ctx["S1"])
    if not ok:
        ck.fail("construct_partition", f"2-D spectrum does not integrate back to the 1-D shape: {info}", case, "oned_not_shape")
    ok, info = vec_close(E2.sum(axis=1) * ddv, ctx["S1"])
    if not ok:
        ck.fail("construct_partition", f"Σ_dir E·Δθ differs from the 1-D shape: {info}", case, "oned_not_shape")
    err_dm = abs((meas["dm"] - sp["dm"] + 180.0) % 360.0 - 180.0)
    if skind == "cartwright":
        rel_ds = abs(meas["dspr"] / sp["dspr"] - 1)
        if sym:
            # theorem construct_dm_symmetric: hypothesis checked numerically here (reflection is a permutation of the bins,
            # cosine moment about dm positive), conclusion = exact recovery
            t = tab_cos2s(dirs, sp["dm"], sp["dspr"])
            cosm = sum(t[j] * math.cos(math.radians(dirs[j] - sp["dm"])) for j in range(nd))
            ck.count("hyp:dm_symmetric_grid" + (":across_seam" if any(short_way(d, sp["dm"]) < 90 and not (0 <= 2 * sp["dm"] - d < 360) for d in dirs) else ""))
            if cosm > 1e-9 * sum(t):
                if not (err_dm <= 1e-6):
                    ck.fail("dm", f"symmetric grid about dm={sp['dm']!r}: measured dm={meas['dm']!r} (error {err_dm:.3e}°)", case, "dm_not_requested")
            else:
                ck.ambiguous += 1
        elif cls:
            ck.count("explore:dm_off_symmetric")
            if not (err_dm <= cls[0]):
                ck.fail("dm", f"requested dm={sp['dm']!r}, measured {meas['dm']!r} (error {err_dm:.3e}° > {cls[0]}°; Δθ={ddeg}, dspr={sp['dspr']})", case, "dm_not_requested")
        else:
            ck.count("explore:dm_unclaimed(coarse grid or narrow spread)")
        if cls:
            ck.count("explore:dspr_recovery")
            if not (rel_ds <= cls[1]):
                ck.fail("dspr", f"requested dspr={sp['dspr']!r}, measured {meas['dspr']!r} (rel. error {rel_ds:.3e} > {cls[1]}; Δθ={ddeg})", case, "dspr_not_requested")
        else:
            ck.count("explore:dspr_unclaimed(coarse grid or narrow spread)")
        ob = ck.extra.setdefault("observations", {})
        key = "max dm error off the symmetric case (deg) / max dspr rel. error, claimed classes"
        if cls and not sym:
            cur = ob.get(key, [0.0, 0.0])
            ob[key] = [max(cur[0], err_dm), max(cur[1], rel_ds)]
    else:
        # asymmetric spreading (exploration): the mean direction of the reconstructed spectrum lies within the range of the
        # per-frequency directions the published method prescribes, the difference dm − dpm being taken on the circle
        raw = sp["dm"] - sp["dpm"]
        straddle = abs(raw) > 180.0
        ck.count("explore:asymmetric_dm" + (":dm_dpm_straddle_seam" if straddle else ""))
        offs = asym_intended_offsets(freq, sp["dm"], sp["dpm"], sp["fm"], sp["fp"])
        benign = (ddeg <= 10.0 + 1e-9 and max(abs(o) for o in offs) <= 45.0
                  and all(0.5 * sp["dpm"] <= sp["dpm"] + o <= 1.5 * sp["dpm"] for o in offs))
        if not benign:
            ck.count("explore:asymmetric_dm_unclaimed(swing > 45°, limiter active, or Δθ > 10°)")
        else:
            ck.count("explore:asymmetric_dm_claimed" + (":dm_dpm_straddle_seam" if straddle else ""))
            off_m = (meas["dm"] - sp["dpm"] + 180.0) % 360.0 - 180.0
            if not (min(offs) - 2.0 <= off_m <= max(offs) + 2.0):
                ck.fail("asymmetric", f"requested dm={sp['dm']!r}, dpm={sp['dpm']!r}: per-frequency directions span dpm{min(offs):+.1f}°…dpm{max(offs):+.1f}° "
                        f"but the measured mean direction is {meas['dm']!r} (dpm{off_m:+.1f}°)", case,
                        "asymmetric_dm_dpm_straddle_seam" if straddle else "asymmetric_dm_off")


def conditional_cases(ck):
    """`frequency.conditional`: the shape chosen per position by a boolean array — each position has exactly the requested
    height, is non-negative and equals the shape selected for it built on its own."""
    import xarray as xr
    from wavespectra.construct import frequency as cf

    rng = ck.rng
    for it in range(30 if ck.tier == "quick" else 400):
        freq, _ = gen_fgrid(rng)
        n = rng.randint(1, 4)
        site = {"site": np.arange(n)}
        fps = [gen_fp(rng, freq)[0] for _ in range(n)]
        hss = [rng.choice([0.25, 1.0, 2.5, 7.0]) for _ in range(n)]
        conds = [rng.random() < 0.5 for _ in range(n)]
        wt, wf = rng.choice([("jonswap", "gaussian"), ("gaussian", "jonswap"), ("pierson_moskowitz", "gaussian"), ("jonswap", "pierson_moskowitz")])
        gamma, gw = rng.choice([1.0, 2.0, 3.3]), rng.choice([0.01, 0.02, 0.05])
        mk = lambda v, dt=float: xr.DataArray(np.array(v, dtype=dt), dims="site", coords=site)
        case = dict(freq=[float(x) for x in freq], fp=[float(x) for x in fps], hs=hss, cond=conds, when_true=wt, when_false=wf, gamma=gamma, gw=gw)
        ck.case(("conditional", wt, wf, n > 1, all(conds) or not any(conds)), True, sample=dict(op="conditional", when_true=wt, when_false=wf, n=n))
        try:
            out = cf.conditional(freq, mk(hss), mk(fps), mk(conds, bool), when_true=wt, when_false=wf, gamma=gamma, gw=gw)
            ref = {nm: getattr(cf, nm)(freq=freq, hs=mk(hss), fp=mk(fps), gamma=gamma, gw=gw) for nm in (wt, wf)}
            hsm = out.spec.hs().values
        except Exception as e:
            ck.fail("conditional", f"raised {type(e).__name__}: {e}", case, "crash")
            continue
        for i in range(n):
            o = np.asarray(out.isel(site=i).values, dtype=float)
            r = np.asarray(ref[wt if conds[i] else wf].isel(site=i).values, dtype=float)
            if (o < 0).any():
                ck.fail("conditional", f"negative density at position {i}", case, "conditional_negative")
            elif not np.allclose(o, r, rtol=1e-12, atol=0):
                ck.fail("conditional", f"position {i} (cond={conds[i]}) is not the {wt if conds[i] else wf} spectrum built on its own", case, "conditional_shape")
            elif abs(float(hsm[i]) - hss[i]) > 1e-9 * hss[i]:
                ck.fail("conditional", f"position {i}: requested hs {hss[i]}, measured {float(hsm[i])}", case, "conditional_hs")


def run_check():
    ck = Check("C15")
    ck.extra["rule"] = ("generated constructor calls; signature = (nf class, nd class, family, shape kind, spreading kind / grid kind, "
                        "hs given, fp on node/between, dm symmetric/not, dm near seam, tolerance class, number of extra dims); "
                        "non-trivial = every generated case (all have energy)")
    ck.do_audit()
    import_ws()
    q = ck.tier == "quick"
    n_shape, n_spread, n_con = (160, 110, 110) if q else (2000, 1400, 1400)
    jobs = [("corpus", corpus_cases, 1), ("shape", make_shape_case, n_shape), ("spread", make_spread_case, n_spread), ("construct", make_construct_case, n_con)]
    reqs, ctxs = [], []
    for name, fn, n in jobs:
        for res in pmap(fn, [(ck.seed, i) for i in range(n)]):
            for req, ctx in res:
                if req == "CRASH":
                    ck.fail(ctx["op"], ctx["what"], jsonable(ctx["case"]), ctx.get("trigger", "crash"))
                else:
                    reqs.append(req)
                    ctxs.append(ctx)
    resps = run_driver(reqs)
    ev = dict(shape=eval_shape, twin=eval_twin, spread=eval_spread, asym=eval_asym, construct=eval_construct)
    for ctx, resp in zip(ctxs, resps):
        st, mo = parse_resp(resp) if resp != "nan" else ("nan", "nan")
        ev[ctx["mode"]](ck, ctx, mo, st)
    conditional_cases(ck)
    ck.assumptions = [
        "transcendental tables (exp, gamma**x, tanh/sinh, cos**2s) are evaluated by the harness in float64 from the published formulas; "
        "the Lean theorems quantify over all tables with the stated hypotheses (positivity, function of the wrapped distance)",
        "the TMA wavenumber table is the library's own wavenuma(freq, depth) (its 0.1 % accuracy is C01's exploration); the depth "
        "factor itself is evaluated by the harness",
        "NOT decided by Lean, explored numerically and labelled `explore:`: (i) TMA(depth=1e4) = JONSWAP to 1e-6 when k·d ≥ 10 at every "
        "frequency; (ii) recovery of dm off the symmetric case and of dspr from the *sampled* cos^2s — claimed only for Δθ ≤ 10°: "
        "1e-6° / 1e-6 rel. for 12° ≤ dspr ≤ 40°, 1e-3° / 1e-4 for 10° ≤ dspr ≤ 60°, 0.05° / 0.5 % up to 70° "
        "(bounds found by sweeps of 4000 samples per class on Δθ = 10°, 9°, 7.5°, 5°, dm random, on nodes and half-way; worst observed "
        "0.011° / 0.18 %), nothing claimed for coarser grids, narrower or broader spreads (counted); (iii) asymmetric spreading: measured dm "
        "within (±2°) the range of the per-frequency directions dpm + (dm−dpm)/(fm−fp)·(f−fp), the difference dm−dpm taken the short way "
        "round the circle, claimed when that range is within ±45° of dpm, the 0.5·dpm…1.5·dpm limiter is inactive and Δθ ≤ 10°",
        "exact recovery of dm (1e-6°) is claimed where theorem construct_dm_symmetric applies: the reflection about dm permutes the "
        "stored direction bins (dm on a node or half-way between nodes, also across 0/360) and the cosine moment about dm is positive "
        "(checked per case)",
        "float64 comparisons at 1e-9 relative; bins below 1e-290 (denormal range) are not compared; cases whose moment vector is "
        "below 1e-6 of the energy are counted as ambiguous",
        "numpy twins: npstats.jonswap is rescaled with the trapezoid npstats.hs (exact by its own measure, theorem npJonswap_hs; the "
        "accessor's rectangle rule differs by the half end-bin weights), npstats.gaussian is not rescaled at all — both reported as "
        "observations, not failures",
    ]
    return ck.finish()


if __name__ == "__main__":
    from ..common import main_wrapper

    main_wrapper(run_check)

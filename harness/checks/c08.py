"""C08 — regridding is exact on grid nodes, conserves variance and respects the circle (DESIGN §3 C08).

Per case: one source container (DataArray / Dataset, 0–2 leading dims, float32/float64), one target grid, one entry point
(`spec.interp`, `Dataset.spec.interp`, `spec.interp_like`, `core.utils.regrid_spec`, `spec.rotate`); the implementation is
called with `maintain_m0` off and on; every spectrum of the container is sent to the Lean model (`regrid` / `rotate` ops) and
compared; the property's clauses are evaluated on the implementation's outputs by `oracle_*` below, which never look at
the model.
"""
import bisect
import math

import numpy as np

from .. import gen
from ..common import Check, case_rng, close, enc, enc_m, enc_optv, enc_v, import_ws, parse_resp, pmap, run_driver

THR, QUARTER = 0.333, 0.25  # constants of the property statement (tail rule of Hs)


# ------------------------------------------------------------------------------------------------------------------
# the property restated (independent of the model and of xarray)
# ------------------------------------------------------------------------------------------------------------------

def _with_history(obj, da):
    """one object in three has a history (gen.primed): the same Python object held other axes / other energy when its accessor
    first served a statistic and was edited in place into what it holds now; regridding must see the current contents"""
    import zlib

    import xarray as xr

    hsh = zlib.crc32(np.ascontiguousarray(da.values).tobytes())
    if hsh % 3 != 0:
        return obj

    def prime(o):
        o.spec.hs()
        o.spec.tm01()
        o.spec.oned()

    return gen.primed(obj, prime, variant=(hsh // 3) % 3 if isinstance(obj, xr.Dataset) else 0)

def hs_np(freq, dirs, E):
    """Significant height of one spectrum on its own grid: 4·sqrt(Σ_i Δf_i·Δθ·Σ_j E_ij [+ tail])."""
    f = np.asarray(freq, dtype=float)
    E = np.asarray(E, dtype=float)
    S = E[:, 0] if dirs is None else gen.bin_width(dirs) * E.sum(axis=1)
    df = np.gradient(f) if len(f) > 1 else np.array([1.0])
    e = float((S * df).sum())
    if f[-1] > THR:
        e += QUARTER * float(S[-1]) * float(f[-1])
    return 4.0 * math.sqrt(e) if e >= 0 else float("nan")


def circle_nodes(d):
    """Distinct source directions on the circle (first stored occurrence of each), sorted: (labels, stored index)."""
    dm = [float(x) % 360.0 for x in d]
    order = sorted(range(len(dm)), key=lambda i: (dm[i], i))
    u, ix = [], []
    for i in order:
        if not u or dm[i] != u[-1]:
            u.append(dm[i])
            ix.append(i)
    return u, ix


def ref_dir(d, E, td):
    """Linear interpolation between the two neighbouring direction bins *on the circle* (the seam is an ordinary gap)."""
    u, ix = circle_nodes(d)
    n = len(u)
    out = np.zeros((E.shape[0], len(td)))
    cls = []
    for j, th in enumerate(td):
        tm = float(th) % 360.0
        if n == 1:
            out[:, j] = E[:, ix[0]]
            cls.append("node" if tm == u[0] else "seam")
            continue
        k = bisect.bisect_right(u, tm) - 1
        left, right = (k if k >= 0 else n - 1), (k + 1) % n
        gap = (u[right] - u[left]) % 360.0
        t = ((tm - u[left]) % 360.0) / gap
        out[:, j] = (1 - t) * E[:, ix[left]] + t * E[:, ix[right]]
        cls.append("node" if t == 0 else ("seam" if (tm > u[-1] or tm < u[0]) else "interior"))
    return out, cls


def ref_freq(f, E, tf):
    """Piecewise linear in frequency; linear to zero energy at f = 0 below the lowest frequency; zero above the highest."""
    f = [float(x) for x in f]
    out = np.zeros((len(tf), E.shape[1]))
    cls = []
    for i, x in enumerate(tf):
        x = float(x)
        if x > f[-1]:
            cls.append("above_fmax")
        elif x < 0:
            cls.append("negative")
        elif x < f[0]:
            out[i] = E[0] * (x / f[0])
            cls.append("below_fmin")
        else:
            k = bisect.bisect_right(f, x) - 1
            if f[k] == x:
                out[i] = E[k]
                cls.append("node")
            else:
                t = (x - f[k]) / (f[k + 1] - f[k])
                out[i] = (1 - t) * E[k] + t * E[k + 1]
                cls.append("interior")
    return out, cls


def ref_regrid(f, d, E, tf, td):
    """Expected spectrum without variance conservation + per-row / per-column clause classes."""
    X = np.asarray(E, dtype=float)
    ccls = ["same"] * X.shape[1]
    rcls = ["same"] * X.shape[0]
    if td is not None:
        X, ccls = ref_dir(d, X, td)
    if tf is not None:
        X, rcls = ref_freq(f, X, tf)
    return X, rcls, ccls


# ------------------------------------------------------------------------------------------------------------------
# generators
# ------------------------------------------------------------------------------------------------------------------
def gen_source_dirs(rng, exact):
    kind = rng.choice(["sorted", "sorted", "rotated", "reversed", "seam", "shuffled", "dup360", "dup360", "partial", "single"]
                      if exact else ["sorted", "rotated", "shuffled", "ugly", "ugly", "dup360", "partial"])
    if kind == "single":
        return np.array([float(rng.choice([0, 10, 200]))]), kind
    if kind == "ugly":
        m = rng.choice([5, 7, 11, 13])
        start = rng.uniform(0, 360.0 / m)
        d = np.array([start + j * 360.0 / m for j in range(m)])
        d = d[d < 360.0]
        if rng.random() < 0.5:
            d = np.roll(d, rng.randrange(len(d)))
        return d, kind
    m = rng.choice([2, 3, 4, 4, 6, 8, 8, 12, 16, 24])
    if kind == "dup360":
        base = np.array([j * 360.0 / m for j in range(m)] + [360.0])
        if rng.random() < 0.3:
            base = np.roll(base, rng.randrange(len(base)))
            if {float(base[0]), float(base[1])} == {0.0, 360.0}:  # bin width of the first stored pair would be 0: not a grid
                base = np.roll(base, 1)
        return base, kind
    if kind == "partial":
        d, _ = gen.gen_dirs(rng, max(m, 2), order="sorted", full=False)
        return d, kind
    if kind == "shuffled":
        d, _ = gen.gen_dirs(rng, m, order="sorted")
        d = d.copy()
        rng.shuffle(d)
        return np.array(d), kind
    d, _ = gen.gen_dirs(rng, m, order=kind)
    return d, kind


def gen_target_dirs(rng, d, exact):
    u, _ = circle_nodes(d)
    n = len(u)
    kind = rng.choice(["same", "same", "sortedsame", "coarser", "finer", "finer", "shifted", "with360", "rotfiner", "single",
                       "random", "seamonly", "outside"])
    if kind == "same":
        return np.array(d, dtype=float), kind
    if kind == "sortedsame":
        return np.array(u), kind
    if kind == "coarser" and n >= 4:
        return np.array(u[::2]), kind
    if kind in ("finer", "rotfiner", "with360"):
        m = rng.choice([8, 16, 24, 36] if exact else [10, 14, 36])
        t = np.array([j * 360.0 / m for j in range(m)])
        if not exact:
            t = t + rng.uniform(0, 360.0 / m) * rng.choice([0, 1])
            t = t[t <= 360.0]
        if kind == "rotfiner":
            t = np.roll(t, -rng.randrange(1, m - 1))
        if kind == "with360":
            t = np.append(t, 360.0)
        return t, kind
    if kind == "shifted" and n >= 2:
        gap = (u[1] - u[0])
        return np.array([(x + gap / 2) % 360.0 for x in u]), kind
    if kind == "single":
        return np.array([float(rng.choice([0.0, 45.0, 359.0, 360.0, u[0], u[-1]]))]), kind
    if kind == "seamonly":
        lo, hi = u[-1], u[0] + 360.0
        pts = sorted({(lo + (hi - lo) * rng.choice([0.25, 0.5, 0.75, 0.125])) for _ in range(3)})
        pts = [p if p <= 360.0 else p - 360.0 for p in pts]
        return np.array(sorted(pts)), kind
    if kind == "outside":
        # targets off the [0, 360] circle labels: only the model correspondence is checked on the NaN columns
        return np.array([rng.choice([-400.0, -30.0, -0.5]), 45.0, 180.0, rng.choice([365.0, 400.0, 725.0])]), kind
    m = rng.randint(2, 9)
    t = sorted({(rng.randint(0, 1440) / 4.0 if exact else rng.uniform(0, 360.0)) for _ in range(m)})
    return np.array(t), "random"


def gen_target_freq(rng, f, exact):
    f = np.asarray(f, dtype=float)
    n = len(f)
    kind = rng.choice(["same", "same", "coarser", "finer", "shifted", "below", "above", "both", "single", "random", "zero"])
    lo, hi = float(f[0]), float(f[-1])
    step = float(f[1] - f[0]) if n > 1 else lo / 2
    if kind == "same":
        return f.copy(), kind
    if kind == "coarser" and n >= 4:
        return f[::2].copy(), kind
    if kind == "finer" and n >= 2:
        mid = (f[:-1] + f[1:]) / 2
        return np.sort(np.concatenate([f, mid])), kind
    if kind == "shifted" and n >= 2:
        return f + step / 2, kind
    if kind == "below":
        extra = np.array(sorted({lo * rng.choice([0.25, 0.5, 0.75]) for _ in range(2)}))
        return np.concatenate([extra, f]), kind
    if kind == "zero":
        return np.concatenate([[0.0, lo / 2], f]), kind
    if kind == "above":
        extra = np.array([hi + step * k for k in (1, 2)])
        return np.concatenate([f, extra]), kind
    if kind == "both":
        return np.concatenate([[lo / 2], f if n < 4 else f[::2], [hi * 1.25, hi * 1.5]]), kind
    if kind == "single":
        return np.array([rng.choice([lo, hi, (lo + hi) / 2, lo / 2, hi * 2])]), kind
    m = rng.randint(2, 10)
    a, b = lo * 0.5, hi * 1.25
    pts = sorted({(round((a + (b - a) * rng.random()) * 1024) / 1024 if exact else a + (b - a) * rng.random()) for _ in range(m)})
    pts = [p for p in pts if p > 0]
    if len(pts) < 2:
        return f.copy(), "same"
    return np.array(pts), "random"


def gen_energy(rng, nf, nd, exact, zero_ok):
    kinds = ["blobs", "blobs", "noisy", "ties", "sparse", "plateau", "monoup", "const"] + (["zero"] if zero_ok else [])
    E, kind = gen.gen_spectrum(rng, nf, nd, kind=rng.choice(kinds), exact=exact)
    return E, kind


# ------------------------------------------------------------------------------------------------------------------
# one case
# ------------------------------------------------------------------------------------------------------------------
def _vals(o, lead, oned):
    """Output values as float64 array of shape lead + (nf', nd') (nd' = 1 for 1-D spectra)."""
    import xarray as xr

    if isinstance(o, xr.Dataset):
        o = o["efth"]
    o = o.transpose(*lead, "freq", *([] if oned else ["dir"]))
    v = np.asarray(o.values, dtype=float)
    return v[..., None] if oned else v


def make_case(args):
    seed, icase = args
    rng = case_rng("C08", seed, icase)
    import_ws()
    import xarray as xr
    from wavespectra.core.utils import regrid_spec

    exact = rng.random() < 0.6
    api = rng.choice(["interp", "interp", "ds.interp", "interp_like", "regrid_spec", "regrid_spec", "rotate", "rotate"])
    oned = api not in ("rotate",) and rng.random() < 0.08
    nf = rng.choice([1, 2, 2, 3, 3, 4, 4, 5, 6, 8, 12, 16]) if rng.random() < 0.9 else 20
    freq, fkind = gen.gen_freq(rng, nf, exact=exact)
    if exact:
        freq = np.round(freq * 4096) / 4096
        if not np.all(np.diff(freq) > 0):
            return []
    if oned:
        d, dkind = None, "1d"
    elif api == "rotate":
        if rng.random() < 0.7:
            m = rng.choice([2, 3, 4, 8, 12, 16, 24] if exact else [5, 7, 12])
            d, dkind = gen.gen_dirs(rng, m, order=rng.choice(["sorted", "sorted", "rotated", "reversed", "seam"]))
            if not exact:
                d = (d + rng.uniform(0, 360.0 / m)) % 360.0
        else:
            d, dkind = gen_source_dirs(rng, exact)
    else:
        d, dkind = gen_source_dirs(rng, exact)
    nd = 1 if oned else len(d)
    dtype = "float64" if rng.random() < 0.7 else "float32"
    names = rng.sample(["time", "site"], rng.choice([0, 0, 1, 1, 2]))
    shape = [rng.randint(1, 3) for _ in names]
    extra = [(n, np.arange(k, dtype=float)) for n, k in zip(names, shape)]
    npos = int(np.prod(shape)) if shape else 1
    Es, kinds = [], []
    for _ in range(npos):
        E, kind = gen_energy(rng, nf, nd, exact, zero_ok=True)
        Es.append(E * rng.choice([1, 1, 4, 0.25]))
        kinds.append(kind)
    if dkind == "dup360" and rng.random() < 0.5:
        j0, j360 = list(d).index(0.0), list(d).index(360.0)
        for E in Es:
            E[:, j360] = E[:, j0]
    arr = np.array(Es).reshape(tuple(shape) + (nf, nd))
    if oned:
        arr = arr[..., 0]
    da = gen.make_da(freq, d, arr, dtype=dtype, extra=extra)
    if rng.random() < 0.3 and da.ndim > 2:
        perm = list(da.dims)
        rng.shuffle(perm)
        da = da.transpose(*perm)
    int_dir = False
    if not oned and np.all(np.asarray(d) == np.round(d)) and rng.random() < 0.3:
        # whole-degree directions stored as integers (what np.arange(0, 360, 30) gives)
        da = da.assign_coords(dir=np.asarray(d).astype("int64"))
        int_dir = True
    lead = [x for x in da.dims if x not in ("freq", "dir")]
    src = np.asarray(da.transpose(*lead, "freq", *([] if oned else ["dir"])).values, dtype=float)
    if oned:
        src = src[..., None]
    rec = dict(icase=icase, api=api, exact=exact, dtype=dtype, freq=freq, dirs=d, src=src, lead=lead, shape=shape, kinds=kinds,
               dkind=dkind, fkind=fkind, oned=oned, int_dir=int_dir)
    try:
        if api == "rotate":
            bw = gen.bin_width(d)
            akind = rng.choice(["bins", "bins", "360", "-360", "0", "720", "half", "real", "neg"])
            ang = {"bins": bw * rng.randint(-len(d), 2 * len(d)), "360": 360.0, "-360": -360.0, "0": 0.0, "720": 720.0,
                   "half": bw / 2, "real": (rng.randint(-2880, 2880) / 4.0 if exact else rng.uniform(-720, 720)),
                   "neg": -bw * rng.randint(1, len(d))}[akind]
            rec.update(angle=float(ang), akind=akind, tf=None, td=np.array(d, dtype=float), tfkind="none", tdkind="rotate")
            obj = da.to_dataset(name="efth") if rng.random() < 0.2 else da
            rec["container"] = type(obj).__name__
            obj = _with_history(obj, da)
            out_s = obj.spec.rotate(ang)
            rel = da.assign_coords(dir=(da.dir.values + ang) % 360)
            out_u = regrid_spec(rel, dir=da.dir, maintain_m0=False)  # the unscaled intermediate, for the model comparison only
        else:
            tf = td = None
            tfkind = tdkind = "none"
            which = "freq" if oned else rng.choice(["freq", "dir", "both", "both"])
            if api == "interp_like" and not oned:
                which = "both"
            if which in ("freq", "both"):
                tf, tfkind = gen_target_freq(rng, freq, exact)
            if which in ("dir", "both"):
                td, tdkind = gen_target_dirs(rng, d, exact)
            rec.update(tf=tf, td=td, tfkind=tfkind, tdkind=tdkind)
            wrap = rng.choice(["ndarray", "ndarray", "list", "DataArray"])

            def arg(x, name):
                if x is None:
                    return None
                if wrap == "list":
                    return [float(v) for v in x]
                if wrap == "DataArray":
                    return xr.DataArray(x, dims=(name,), coords={name: x})
                return x

            extra_vars = {}
            if api == "interp":
                obj = da
                call = lambda m: obj.spec.interp(freq=arg(tf, "freq"), dir=arg(td, "dir"), maintain_m0=m)
            elif api == "ds.interp":
                obj = da.to_dataset(name="efth")
                call = lambda m: obj.spec.interp(freq=arg(tf, "freq"), dir=arg(td, "dir"), maintain_m0=m)
            elif api == "interp_like":
                shp = (len(tf),) + (() if td is None else (len(td),))
                other = xr.DataArray(np.ones(shp), dims=("freq",) + (() if td is None else ("dir",)),
                                     coords=dict(freq=tf, **({} if td is None else {"dir": td})), name="efth")
                if rng.random() < 0.4:
                    other = other.to_dataset(name="efth")
                obj = da.to_dataset(name="efth") if rng.random() < 0.3 else da
                call = lambda m: obj.spec.interp_like(other, maintain_m0=m)
            else:
                obj = da
                if rng.random() < 0.5:
                    obj = da.to_dataset(name="efth")
                    if rng.random() < 0.7:
                        extra_vars = {"wspd": 10.0 + np.arange(npos, dtype=float).reshape(shape) if shape else np.float64(10.0),
                                      "dpt": np.full(shape, 50.0) if shape else np.float64(50.0)}
                        for k, v in extra_vars.items():
                            obj[k] = (tuple(names), v) if shape else ((), v)
                call = lambda m: regrid_spec(obj, freq=arg(tf, "freq"), dir=arg(td, "dir"), maintain_m0=m)
            rec["container"] = type(obj).__name__
            rec["wrap"] = wrap
            obj = _with_history(obj, da)
            out_u = call(False)
            out_s = call(True)
            if extra_vars:
                rec["extra_in"] = {k: np.asarray(obj[k].transpose(*[n for n in lead if n in obj[k].dims]).values, dtype=float)
                                   for k in extra_vars}
                for tag, o in (("u", out_u), ("s", out_s)):
                    rec["extra_dims_" + tag] = {k: list(o[k].dims) for k in extra_vars}
                    rec["extra_out_" + tag] = {k: np.asarray(o[k].transpose(*[n for n in lead if n in o[k].dims], ...).values, dtype=float)
                                               for k in extra_vars}
        for tag, o in (("u", out_u), ("s", out_s)):
            oo = o["efth"] if isinstance(o, xr.Dataset) else o
            rec["dims_" + tag] = list(oo.dims)
            rec["ofreq_" + tag] = np.asarray(oo.freq.values, dtype=float)
            rec["odir_" + tag] = None if oned else np.asarray(oo.dir.values, dtype=float)
            rec["odtype_" + tag] = str(oo.dtype)
            rec["out_" + tag] = _vals(o, lead, oned)
    except Exception as e:  # a crash on a valid input is an oracle failure of its own
        import traceback

        rec["crash"] = f"{type(e).__name__}: {e}"
        rec["tb"] = traceback.format_exc()[-600:]
    return [rec]


# ------------------------------------------------------------------------------------------------------------------
# the check
# ------------------------------------------------------------------------------------------------------------------
def trigger_of(rec):
    """Named predicate over the INPUT for the single-bin grids of the repaired findings F27/F28 (fixed by 0802ffa: nothing is
    known any more, so a failure carrying one of these names is reported as a VIOLATION; the name only tells which one came back)."""
    d, freq = rec["dirs"], rec["freq"]
    if rec["td"] is not None and d is not None and len(circle_nodes(d)[0]) == 1:
        tdm = {float(x) % 360.0 for x in rec["td"]}
        if tdm == {circle_nodes(d)[0][0]} and float(np.min(rec["td"])) >= float(np.min(np.mod(d, 360.0))) and \
                float(np.max(rec["td"])) <= float(np.max(np.mod(d, 360.0))):
            return "single_source_direction_onto_itself"
    if rec["tf"] is not None and len(freq) == 1 and float(np.min(rec["tf"])) >= float(freq[0]):
        return "single_source_frequency"
    return None


def legacy_interp_spec(ck):
    """`core.utils.interp_spec` (the numpy regridder used by the SWAN/TRIAXYS readers): the clauses of the property that apply to
    it — identity on the same grid, exact on the nodes shared with the source (the lowest and highest source frequency
    included), linear in between, zero outside the source range, never negative."""
    from wavespectra.core.utils import interp_spec

    rng = ck.rng
    for it in range(80 if ck.tier == "quick" else 1500):
        nf = rng.randint(2, 12)
        f = np.cumsum([rng.randint(1, 6) for _ in range(nf)]) / 64.0
        oned = rng.random() < 0.25
        nd = 1 if oned else rng.choice([2, 4, 8, 12])
        d = None if oned else np.arange(nd) * (360.0 / nd)
        E = np.array([[float(rng.randint(0, 9)) for _ in range(nd)] for _ in range(nf)])
        kind = rng.choice(["same", "subset", "subset_top", "mid", "beyond", "mixed"])
        if kind == "same":
            tf = f.copy()
        elif kind == "subset":
            tf = f[::2].copy()
        elif kind == "subset_top":
            tf = np.unique(np.concatenate([f[::3], f[-1:]]))
        elif kind == "mid":
            tf = (f[:-1] + f[1:]) / 2
        elif kind == "beyond":
            tf = np.concatenate([[f[0] / 2], f, [f[-1] + 1 / 64.0, f[-1] * 2]])
        else:
            tf = np.unique(np.concatenate([f[rng.randrange(nf):], (f[:-1] + f[1:]) / 2, [f[0], f[-1], f[-1] + 0.5]]))
        case = dict(infreq=f.tolist(), indir=None if oned else d.tolist(), outfreq=tf.tolist(), E=E.tolist(), kind=kind)
        ck.case(("interp_spec", kind, oned, nf > 4), bool(E.any()), sample=dict(op="interp_spec", kind=kind, nf=nf, nd=nd))
        try:
            out = interp_spec(E[:, 0] if oned else E, f, d, outfreq=tf, outdir=None if oned else d.copy())
            out = np.asarray(out, dtype=float).reshape((len(tf), nd))
        except Exception as e:
            ck.fail("interp_spec", f"raised {type(e).__name__}: {e}", case, "crash")
            continue
        ref = np.zeros((len(tf), nd))
        for i, x in enumerate(tf):
            if x < f[0] or x > f[-1]:
                continue
            k = int(np.searchsorted(f, x, side="right")) - 1
            if f[k] == x:
                ref[i] = E[k]
            else:
                w = (x - f[k]) / (f[k + 1] - f[k])
                ref[i] = (1 - w) * E[k] + w * E[k + 1]
        if (out < 0).any():
            ck.fail("interp_spec", "negative energy from a non-negative spectrum", case, "interp_spec_negative")
        elif not np.allclose(out, ref, rtol=1e-12, atol=1e-12):
            i, j = np.unravel_index(int(np.argmax(np.abs(out - ref))), out.shape)
            what = "identity on the same grid" if kind == "same" else \
                ("value on a node shared with the source" if tf[i] in f else "zero outside the source range" if (tf[i] < f[0] or tf[i] > f[-1])
                 else "linear interpolation between nodes")
            ck.fail("interp_spec", f"{what}: got {out[i, j]} expected {ref[i, j]} at f={tf[i]}", case, "interp_spec_value")


def legacy_interp_spec_2d(ck):
    """The two-dimensional (griddata) branch of `interp_spec`, taken when the target directions differ from the source: no
    negative energy, nothing above the highest source frequency, finite values."""
    from wavespectra.core.utils import interp_spec

    rng = ck.rng
    for it in range(25 if ck.tier == "quick" else 400):
        nf = rng.randint(3, 8)
        f = np.cumsum([rng.randint(1, 6) for _ in range(nf)]) / 64.0 + 0.03125
        nd = rng.choice([8, 12, 16])
        d = np.arange(nd) * (360.0 / nd)
        E = np.array([[float(rng.randint(1, 9)) for _ in range(nd)] for _ in range(nf)])
        td = (d + 360.0 / nd / 2) % 360 if rng.random() < 0.5 else np.arange(0.0, 360.0, rng.choice([30.0, 45.0]))
        tf = np.unique(np.concatenate([f[::2], (f[:-1] + f[1:]) / 2, [f[-1] * 1.05, f[-1] + 0.25, f[-1] * 2]]))
        case = dict(infreq=f.tolist(), indir=d.tolist(), outfreq=tf.tolist(), outdir=np.asarray(td).tolist(), E=E.tolist())
        ck.case(("interp_spec_2d", nf > 4, nd, len(td)), True, sample=dict(op="interp_spec(2d)", nf=nf, nd=nd))
        try:
            out = np.asarray(interp_spec(E, f, d, outfreq=tf, outdir=np.asarray(td)), dtype=float)
        except Exception as e:
            ck.fail("interp_spec", f"2-D branch raised {type(e).__name__}: {e}", case, "crash")
            continue
        if out.shape != (len(tf), len(td)):
            ck.fail("interp_spec", f"2-D branch returned shape {out.shape} for {len(tf)}×{len(td)} targets", case, "interp_spec_shape")
        elif not np.isfinite(out).all() or (out < 0).any():
            ck.fail("interp_spec", "2-D branch returned negative or non-finite energy from a positive spectrum", case, "interp_spec_negative")
        elif (out[tf > f[-1]] != 0).any():
            ck.fail("interp_spec", f"2-D branch: energy {float(out[tf > f[-1]].max())} above the highest source frequency {f[-1]}", case,
                    "interp_spec_above_range")


def run_check():
    ck = Check("C08")
    ck.extra["rule"] = ("cases = (source grid kind, target grid kind, entry point, container, dtype, maintain_m0 on+off) from the C08 "
                        "generators; every spectrum of a container is one evaluation; signature = (nf class, nd class, source dir kind, "
                        "target freq kind, target dir kind, entry point, container, dtype, stream, model branch signature); non-trivial = "
                        "spectrum not all-zero, at least two source frequencies and (for 2-D spectra) two distinct source directions")
    from ..common import log
    import time
    ck.do_audit()
    log(f"[C08] audit done {time.time() - ck.t0:.1f}s")
    import_ws()
    n = 300 if ck.tier == "quick" else 16000
    recs = [r for rs in pmap(make_case, [(ck.seed, i) for i in range(n)]) for r in rs]
    reqs, ctxs = [], []
    for r in recs:
        base = dict(api=r["api"], exact=r["exact"], dtype=r["dtype"], icase=r["icase"], dkind=r["dkind"], tfkind=r.get("tfkind"),
                    tdkind=r.get("tdkind"), container=r.get("container"), freq=[float(x) for x in r["freq"]],
                    dirs=None if r["dirs"] is None else [float(x) for x in r["dirs"]],
                    tf=None if r.get("tf") is None else [float(x) for x in r["tf"]],
                    td=None if r.get("td") is None else [float(x) for x in r["td"]], angle=r.get("angle"), lead=r["lead"])
        if "crash" in r:
            ck.fail(r["api"], "crash: " + r["crash"], dict(base, tb=r["tb"], src=r["src"].tolist()), "crash")
            continue
        check_container(ck, r, base)
        lead_shape = r["src"].shape[:-2]
        for pos in (np.ndindex(*lead_shape) if lead_shape else [()]):
            E = r["src"][pos]
            if r["api"] == "rotate":
                req = " ".join(["rotate", enc_v(r["freq"]), enc_v(r["dirs"]), enc_m(E, E.shape[1]), enc(r["angle"])])
            else:
                req = " ".join(["regrid", enc_v(r["freq"]), enc_optv(r["dirs"]), enc_m(E, E.shape[1]), enc_optv(r["tf"]),
                                enc_optv(r["td"])])
            reqs.append(req)
            ctxs.append((r, pos, base))
    log(f"[C08] implementation runs done {time.time() - ck.t0:.1f}s ({len(reqs)} spectra)")
    resps = run_driver(reqs)
    log(f"[C08] model runs done {time.time() - ck.t0:.1f}s")
    for (r, pos, base), resp in zip(ctxs, resps):
        check_position(ck, r, pos, base, resp)
    legacy_interp_spec(ck)
    legacy_interp_spec_2d(ck)
    ck.assumptions = [
        "float arithmetic of scipy.interp1d / numpy is compared with the exact-rational model within 1e-9 of the spectrum's largest "
        "value (1e-5 when the output is float32); Hs within 1e-9 (2e-6 for float32 input)",
        "targets within 1e-9 (relative) of the highest source frequency or of the ends of the extended direction range, without being "
        "equal to them, are counted as ambiguous (discontinuity of the fill value) and not compared",
        "target directions outside [0, 360] are outside the property's quantifier: only the model correspondence is checked on them",
        "all-zero input, or a target grid on which the spectrum has no energy, returns NaN with maintain_m0 (documented degenerate "
        "case): counted, not a failure",
        "for a duplicated 0/360 bin the oracle expects the first stored one to be used (the code documents that duplicates are removed)",
    ]
    return ck.finish()


def check_container(ck, r, base):
    """Clauses on the container as a whole: requested coordinates, other variables untouched."""
    for tag in ("u", "s"):
        want_f = r["freq"] if r["tf"] is None else r["tf"]
        if not np.array_equal(r["ofreq_" + tag], np.asarray(want_f, dtype=float)):
            ck.fail(r["api"], f"output frequencies {r['ofreq_' + tag].tolist()} are not the requested ones {list(map(float, want_f))}",
                    base, None)
        if not r["oned"]:
            want_d = r["dirs"] if r["td"] is None else r["td"]
            if not np.array_equal(r["odir_" + tag], np.asarray(want_d, dtype=float)):
                ck.fail(r["api"], f"output directions {r['odir_' + tag].tolist()} are not the requested ones {list(map(float, want_d))}",
                        base, None)
    if "extra_in" in r:
        for tag in ("u", "s"):
            for k, v in r["extra_in"].items():
                o = r["extra_out_" + tag][k]
                gained = [x for x in r["extra_dims_" + tag][k] if x in ("freq", "dir")]
                if gained:
                    ck.fail("regrid_spec(Dataset)", f"variable {k} (dims {r['lead']}) gained the dimension(s) {gained} "
                            f"(maintain_m0={'on' if tag == 's' else 'off'})", dict(base, src=r["src"].tolist()),
                            "dataset_other_variables_broadcast")
                    break
                if o.shape != v.shape or not np.allclose(o, v, rtol=1e-12, atol=0, equal_nan=False):
                    trig = "dataset_other_variables_scaled" if tag == "s" and np.allclose(r["extra_out_u"][k], v, rtol=1e-12) else None
                    ck.fail("regrid_spec(Dataset)", f"variable {k} without spectral dimensions changed from {v.tolist()} to {o.tolist()} "
                            f"(maintain_m0={'on' if tag == 's' else 'off'})", dict(base, src=r["src"].tolist()), trig)
                    break


def check_position(ck, r, pos, base, resp):
    freq, d, oned = r["freq"], r["dirs"], r["oned"]
    E = r["src"][pos]
    tf, td = r["tf"], r["td"]
    out_u, out_s = r["out_u"][pos], r["out_s"][pos]
    case = dict(base, pos=[int(x) for x in pos], E=E.tolist())
    api = r["api"]
    f32out = r["odtype_u"] == "float32" or r["odtype_s"] == "float32"
    f32in = r["dtype"] == "float32"
    scale_abs = float(np.abs(E).max()) if E.size else 0.0
    rel_v = 1e-5 if f32out else 1e-9
    rel_h = 2e-6 if (f32in or f32out) else 1e-9
    fsrc = freq
    dsrc = d if api != "rotate" else np.mod(np.asarray(d) + r["angle"], 360.0)
    nuniq = 1 if oned else len(circle_nodes(dsrc)[0])
    nontrivial = bool(E.any()) and len(freq) >= 2 and (oned or nuniq >= 2)

    # ---------------- ambiguity (float stream): discontinuities of the fill values
    amb = False
    if tf is not None:
        fm = float(np.max(freq))
        amb = amb or any(0 < abs(float(x) - fm) <= 1e-9 * fm for x in tf)
    if td is not None and not oned:
        u, _ = circle_nodes(dsrc)
        for edge in (u[-1] - 360.0, u[0] + 360.0):  # inside the range the interpolant is continuous in the node positions
            amb = amb or any(0 < abs(float(x) - edge) <= 1e-9 * 360.0 for x in td)
    if amb:
        ck.ambiguous += 1
        ck.case(None, False)
        return

    # ---------------- model vs implementation
    st, mo = parse_resp(resp)
    sig_model = "err"
    if st != "ok":
        ck.disagree(api, f"model error {mo}", case)
    else:
        rowst = mo["rowSt"]
        colok = mo["colOK"]
        sig_model = "r" + "".join(sorted({str(x) for x in rowst})) + "c" + "".join(sorted({str(x) for x in colok})) + \
                    ("k" if mo["scale"] is not None else "n")
        ck.count("model_rows:" + "+".join(sorted({["fill", "nan", "seg"][x] for x in rowst})))
        ck.count("model_scale:" + ("some" if mo["scale"] is not None else "none"))
        for tag, key, out in (("off", "e0", out_u), ("on", "e1", out_s)):
            M = mo[key]
            bad = None
            if len(M) != out.shape[0] or (M and len(M[0]) != out.shape[1]):
                bad = f"shape model {len(M)}x{len(M[0]) if M else 0} impl {out.shape}"
            else:
                for i in range(out.shape[0]):
                    for j in range(out.shape[1]):
                        if not close(float(out[i, j]), M[i][j], rel=rel_v if tag == "off" else max(rel_v, rel_h * 4),
                                     scale=max(scale_abs, abs(float(M[i][j])) if M[i][j] is not None else 0.0), abs_=1e-300):
                            bad = f"[{i},{j}] impl={float(out[i, j])} model={None if M[i][j] is None else float(M[i][j])}"
                            break
                    if bad:
                        break
            if bad:
                ck.disagree(api, f"maintain_m0={tag}: {bad}", case, trigger_of(r))
    ck.case(gen.signature(len(freq), 1 if oned else len(d), r["dkind"], r.get("tfkind"), r.get("tdkind"), api, r.get("container"),
                          r["dtype"], "exact" if r["exact"] else "float", sig_model), nontrivial,
            sample=dict(api=api, freq=base["freq"], dirs=base["dirs"], tf=base["tf"], td=base["td"], angle=base["angle"],
                        E=E.tolist()[:3], out_m0=np.where(np.isfinite(out_s), out_s, -1).tolist()[:3]))
    ck.count("api:" + api)
    ck.count("tf:" + str(r.get("tfkind")))
    ck.count("td:" + str(r.get("tdkind")))
    ck.count("src:" + r["dkind"])

    # ---------------- the property's clauses on the implementation's output
    trig = trigger_of(r)
    off_circle = td is not None and any(float(x) < 0 or float(x) > 360.0 for x in td)
    nonneg_in = bool((E >= 0).all())
    hs_in = hs_np(fsrc, None if oned else dsrc, E)
    ofreq = freq if tf is None else tf
    odir = None if oned else (d if td is None else td)
    fin_u = bool(np.isfinite(out_u).all())
    fin_s = bool(np.isfinite(out_s).all())
    if off_circle and not fin_u:
        ck.count("off_circle_target_nan")
        return
    # (a) expected values without variance conservation: nodes, seam, anchor at f=0, zero above fmax, identity
    ref, rcls, ccls = ref_regrid(fsrc, dsrc, E, tf, None if oned else td)
    tol = rel_v * max(scale_abs, 1e-300)
    if not fin_u:
        ck.fail(api, "maintain_m0 off: non-finite values for a finite spectrum", dict(case, out=np.where(np.isfinite(out_u), out_u, -1).tolist()), trig)
    else:
        err = np.abs(out_u - ref)
        if err.size and float(err.max()) > tol:
            i, j = np.unravel_index(int(err.argmax()), err.shape)
            clause = rcls[i] + "/" + ccls[j]
            ck.fail(api, f"maintain_m0 off: value at target (f={float(ofreq[i])}, dir={None if odir is None else float(odir[j])}) is "
                    f"{float(out_u[i, j])}, the property gives {float(ref[i, j])} (clause {clause})", case, trig)
        if nonneg_in and out_u.size and float(out_u.min()) < -1e-12 * max(scale_abs, 1e-300):
            ck.fail(api, f"negative energy {float(out_u.min())} from a non-negative spectrum (maintain_m0 off)", case, trig)
        for i, c in enumerate(rcls):
            if c == "above_fmax" and np.any(out_u[i] != 0):
                ck.fail(api, f"non-zero energy above the highest source frequency at f={float(ofreq[i])}", case, trig)
    # (b) variance conservation
    hs_u = hs_np(ofreq, odir, ref)
    degenerate = not (hs_u > 0) or not (hs_in > 0)
    if degenerate:
        ck.count("degenerate_no_energy:" + ("nan" if not fin_s else "finite"))
        if fin_s and hs_in > 0:
            ck.fail(api, "maintain_m0 on: finite output although the target grid holds no energy", case, trig)
        return
    if not fin_s:
        ck.fail(api, f"maintain_m0 on: non-finite output (Hs in = {hs_in}, Hs of the unscaled result = {hs_u})",
                dict(case, out=np.where(np.isfinite(out_s), out_s, -1).tolist()), trig)
        return
    hs_s = hs_np(ofreq, odir, out_s)
    if not close(hs_s, hs_in, rel=rel_h):
        ck.fail(api, f"maintain_m0 on: Hs of the result {hs_s} differs from Hs of the source {hs_in}", case, trig)
    k = (hs_in / hs_u) ** 2
    errs = np.abs(out_s - k * ref)
    if errs.size and float(errs.max()) > max(rel_v, 4 * rel_h) * max(k * scale_abs, 1e-300):
        i, j = np.unravel_index(int(errs.argmax()), errs.shape)
        ck.fail(api, f"maintain_m0 on: value [{i},{j}] = {float(out_s[i, j])}, expected the unscaled value × (Hs_in/Hs_out)² = "
                f"{float(k * ref[i, j])} (one factor per spectrum)", case, trig)
    if nonneg_in and float(out_s.min()) < -1e-12 * max(k * scale_abs, 1e-300):
        ck.fail(api, f"negative energy {float(out_s.min())} from a non-negative spectrum (maintain_m0 on)", case, trig)
    # (c) rotation clauses
    if api == "rotate":
        u, _ = circle_nodes(d)
        n = len(d)
        uniform = n >= 2 and len(u) == n and all(abs(((u[(q + 1) % n] - u[q]) % 360.0) - 360.0 / n) < 1e-9 for q in range(n))
        ang = r["angle"]
        if uniform:
            bw = 360.0 / n
            kk = ang / bw
            if abs(kk - round(kk)) < 1e-12:
                ck.count("rotate_whole_bins")
                # circular shift of the data by k bins along increasing direction labels
                order = np.argsort(np.asarray(d))
                inv = np.argsort(order)
                shifted = np.roll(E[:, order], int(round(kk)), axis=1)[:, inv]
                if float(np.abs(out_s - shifted).max()) > max(rel_v, 4 * rel_h) * scale_abs:
                    ck.fail(api, f"rotation by {int(round(kk))} whole bins is not the circular shift of the data", case, trig)
        if abs(ang) % 360.0 == 0 and len(u) == n and all(0 <= float(x) < 360 for x in d):
            if float(np.abs(out_s - E).max()) > max(rel_v, 4 * rel_h) * scale_abs:
                ck.fail(api, f"rotation by {ang} is not the identity", case, trig)


if __name__ == "__main__":
    from ..common import main_wrapper

    main_wrapper(run_check)

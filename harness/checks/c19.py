"""C19 — partition tracking assigns consistent wave-system identifiers over time (DESIGN §3 C19).

Three things run on every generated history:
  * the REAL `np_track_partitions` (and, on datasets, `track_partitions` / `Partition.ptm1_track`);
  * the compiled Lean model (`track` op: `WS.Track.trackData`, for which Props/C19.lean proves the property);
  * the property's direct oracle on the implementation's output (clauses restated below, independent of the model).

Thresholds are restated here from the docstrings (Ewans & Kibblewhite fetch-limited growth for the sea slot,
Snodgrass dispersion for swell) in float and handed to the model as exact rationals.  A history is *ambiguous*
(counted, not compared) when a threshold comparison or a distance tie cannot be decided identically in float
and in exact arithmetic (margin 1e-9 relative; 1e-4 for float32 statistics).
"""
import itertools
import json
import math
import multiprocessing as mp
import os
import random
import time
from fractions import Fraction

import numpy as np

from .. import common
from ..common import Check, ROOT, import_ws, log, parse_resp, run_driver

G = 9.80665          # standard gravity (scipy.constants.g)
PI = math.pi
EMPTY, UNMATCHED = -999, -888
REL64, REL32 = 1e-9, 1e-4


# ----------------------------------------------------------------------------------------------
# thresholds restated from the docstrings
# ----------------------------------------------------------------------------------------------
def ref_dfp_wsea(wspd, fp, dt, scaling=1.0):
    """Ewans & Kibblewhite: f(t) = 15.8 (g/U)^0.57 t^-0.43; change of fp over dt starting from fp."""
    with np.errstate(all="ignore"):
        wspd = np.asarray(wspd, dtype=float)
        fp = np.asarray(fp, dtype=float)
        tmp = 15.8 * (G / wspd) ** 0.57
        t0 = (fp / tmp) ** (-1 / 0.43)
        return scaling * tmp * (t0 + dt) ** (-0.43) - fp


def ref_dfp_swell(dt, distance=1e6):
    """Snodgrass et al.: df/dt = g / (4 pi distance)."""
    return dt * G / (4 * PI * distance)


def find_distance(dt, target):
    """A source distance whose swell threshold is exactly the float `target` (so that frequency changes can sit
    exactly on the threshold); None if no float within a few ulps does it."""
    d0 = dt * G / (4 * PI * target)
    cand = [d0]
    up = dn = d0
    for _ in range(16):
        up = float(np.nextafter(up, np.inf))
        dn = float(np.nextafter(dn, -np.inf))
        cand += [up, dn]
    for d in cand:
        if ref_dfp_swell(float(dt), d) == target:
            return d
    return None


# ----------------------------------------------------------------------------------------------
# encoding
# ----------------------------------------------------------------------------------------------
_enc_cache = {}


def encf(x):
    x = float(x)
    s = _enc_cache.get(x)
    if s is None:
        if math.isnan(x):
            s = "nan"
        else:
            n, d = x.as_integer_ratio()
            s = str(n) if d == 1 else f"{n}/{d}"
        if len(_enc_cache) < 200000:
            _enc_cache[x] = s
    return s


_fr_cache = {}


def frf(x):
    x = float(x)
    f = _fr_cache.get(x)
    if f is None:
        f = Fraction(*x.as_integer_ratio())
        if len(_fr_cache) < 200000:
            _fr_cache[x] = f
    return f


def model_line(case, sea, swell):
    fp, dpm = case["fp"], case["dpm"]
    P, T = fp.shape
    body = ["track", str(T), str(P), "om", str(P), str(T)]
    body += [encf(x) for x in fp.ravel()]
    body += ["om", str(P), str(T)]
    body += [encf(x) for x in dpm.ravel()]
    body += ["v", str(T - 1)] + [encf(x) for x in sea[:T - 1]]
    body += [encf(swell), encf(case["ddpm_sea_max"]), encf(case["ddpm_swell_max"])]
    return " ".join(body)


# ----------------------------------------------------------------------------------------------
# exact evaluation of the threshold conditions of the property (+ ambiguity detection)
# ----------------------------------------------------------------------------------------------
_row_cache = {}


def _lt(a, b, exact, rel):
    """(a < b, ambiguous)"""
    amb = (not exact) and abs(a - b) <= rel * max(abs(a), abs(b), Fraction(1, 10 ** 300))
    return a < b, amb


def row_eval(fc, dc, fprev, dprev, sea_thr, swell, dmax_sea, dmax_swell, rel, f32):
    """Exact evaluation of one row (one current partition) of the thresholded distance matrix.

    The sea/swell thresholds are selected by the index p of the PREVIOUS partition (p = 0: sea), as the
    (P,)-shaped threshold vectors broadcast against the (cur, prev) matrices along the last axis; the sea
    frequency threshold is itself computed from fp[0, it-1], the previous sea partition's own frequency.
    Returns (within: tuple[bool], ambiguous: bool, tie: bool, boundary: bool).
    fprev/dprev: tuples of floats (nan allowed)."""
    key = (fc, dc, fprev, dprev, sea_thr, swell, dmax_sea, dmax_swell, rel, f32)
    r = _row_cache.get(key)
    if r is not None:
        return r
    n = len(fprev)
    within = [False] * n
    amb = False
    boundary = False
    dists = {}
    if not (math.isnan(fc) or math.isnan(dc)):
        hi_e = frf(swell)
        for p in range(n):
            fp_, dp_ = fprev[p], dprev[p]
            is_sea = p == 0
            if math.isnan(fp_) or math.isnan(dp_) or (is_sea and math.isnan(sea_thr)):
                continue
            lo_e = frf(sea_thr) if is_sea else -frf(swell)
            dmax_e = frf(dmax_sea if is_sea else dmax_swell)
            dd_e = abs(((frf(dc) - frf(dp_) + 180) % 360) - 180)
            df_e = frf(fc) - frf(fp_)
            if f32:
                ex_dd = ex_df = False
            else:
                dd_f = abs(((np.float64(dc) - np.float64(dp_)) + 180) % 360 - 180)
                ex_dd = frf(dd_f) == dd_e
                ex_df = frf(np.float64(fc) - np.float64(fp_)) == df_e
            c1, a1 = _lt(dd_e, dmax_e, ex_dd, rel)
            c2, a2 = _lt(df_e, hi_e, ex_df, rel)
            c3, a3 = _lt(lo_e, df_e, ex_df and not is_sea, rel)   # the sea threshold goes through pow(): never exact
            if dd_e == dmax_e or df_e == hi_e or df_e == lo_e:
                boundary = True
            amb = amb or a1 or a2 or a3
            if c1 and c2 and c3:
                within[p] = True
                den = max(hi_e, abs(lo_e))
                # the sea threshold goes through pow(): the normaliser is bit-identical to the code's only when the
                # maximum clearly picks the swell threshold
                den_exact = (not is_sea) or (hi_e > abs(lo_e) and abs(hi_e - abs(lo_e)) > rel * hi_e)
                d_e = abs(df_e) / den + dd_e / dmax_e
                ex = ex_dd and ex_df and (den_exact or df_e == 0)   # 0/den is 0.0 whatever the normaliser's last bits
                # is the float evaluation of the whole distance exact (e.g. 15/30 + 0 = 0.5)?
                fl_exact = ex and frf(float(abs(float(df_e))) / float(den) + float(dd_e) / float(dmax_e)) == d_e
                dists[p] = dict(d=d_e, df=abs(df_e), dd=dd_e, den=den, dmax=dmax_e, ex=ex, fl_exact=fl_exact)
    tie = False
    ks = sorted(dists)
    for i in range(len(ks)):
        for j in range(i + 1, len(ks)):
            a, b = dists[ks[i]], dists[ks[j]]
            if a["d"] == b["d"]:
                tie = True
                # an exact tie is also a tie in float when both sides run the same float computation term by term
                t1 = a["df"] == b["df"] and (a["df"] == 0 or a["den"] == b["den"])
                t2 = a["dd"] == b["dd"] and (a["dd"] == 0 or a["dmax"] == b["dmax"])
                if not ((t1 and t2 and a["ex"] and b["ex"]) or (a["fl_exact"] and b["fl_exact"])):
                    amb = True
            elif abs(a["d"] - b["d"]) <= rel * max(a["d"], b["d"]):
                amb = True
    r = (tuple(within), amb, tie, boundary)
    if len(_row_cache) < 400000:
        _row_cache[key] = r
    return r


def analyse(case, sea, swell):
    """within[t][c][p] for t = 1..T-1 (index t-1), ambiguity, counters."""
    fp, dpm = case["fp"], case["dpm"]
    P, T = fp.shape
    rel = case.get("rel", REL64)
    f32 = case.get("f32", False)
    W = []
    amb = False
    ties = bnd = 0
    cols_f = [tuple(float(x) for x in fp[:, t]) for t in range(T)]
    cols_d = [tuple(float(x) for x in dpm[:, t]) for t in range(T)]
    for t in range(1, T):
        rows = []
        for c in range(P):
            w, a, tie, b = row_eval(cols_f[t][c], cols_d[t][c], cols_f[t - 1], cols_d[t - 1], float(sea[t - 1]),
                                    float(swell), float(case["ddpm_sea_max"]), float(case["ddpm_swell_max"]), rel, f32)
            rows.append(w)
            amb = amb or a
            ties += tie
            bnd += b
        W.append(rows)
    return W, amb, ties, bnd


# ----------------------------------------------------------------------------------------------
# the property's direct oracle on an implementation result (no model involved)
# ----------------------------------------------------------------------------------------------
def oracle(ids, n, fp, W):
    """Returns a list of (clause, message).  ids: (P,T) int array; W: exact within-threshold matrices."""
    out = []
    P, T = fp.shape
    ids = np.asarray(ids).astype(int)
    if ids.shape != (P, T):
        return [("shape", f"part_ids shape {ids.shape} != {(P, T)}")]
    nonempty = ~np.isnan(fp)
    # 1 marker
    for t in range(T):
        for p in range(P):
            v = ids[p, t]
            if nonempty[p, t] and v < 0:
                out.append(("ids_marker", f"non-empty partition {p} at step {t} has id {v}"))
            if not nonempty[p, t] and v != EMPTY:
                out.append(("ids_marker", f"empty partition {p} at step {t} has id {v} instead of {EMPTY}"))
    if out:
        return out[:4]
    # 2 unique per step
    for t in range(T):
        col = [int(v) for v in ids[:, t] if v != EMPTY]
        if len(set(col)) != len(col):
            out.append(("ids_unique_per_step", f"step {t} uses an id twice: {col}"))
    # 3 exactly 0..N-1 in order of first appearance (time, then partition index)
    nxt = 0
    for t in range(T):
        for p in range(P):
            v = int(ids[p, t])
            if v == EMPTY:
                continue
            if v == nxt:
                nxt += 1
            elif v > nxt:
                out.append(("ids_exact_range", f"id {v} first appears at step {t} slot {p} but next unused id is {nxt}"))
                nxt = v + 1
    if nxt != int(n):
        out.append(("ids_exact_range", f"reported count {int(n)} but ids 0..{nxt - 1} were issued"))
    # 4 carried only within thresholds; 5 each previous partition continued at most once
    for t in range(1, T):
        prev = {int(ids[p, t - 1]): p for p in range(P) if ids[p, t - 1] != EMPTY}
        cont = {}
        for c in range(P):
            v = int(ids[c, t])
            if v != EMPTY and v in prev:
                p = prev[v]
                cont.setdefault(p, []).append(c)
                if not W[t - 1][c][p]:
                    out.append(("carry_within_thresholds",
                                f"id {v} carried from slot {p} at step {t - 1} to slot {c} at step {t} outside the thresholds"))
        for p, cs in cont.items():
            if len(cs) > 1:
                out.append(("prev_continued_at_most_once", f"slot {p} of step {t - 1} continued by slots {cs} at step {t}"))
        # docstring of np_track_partitions ("partitions are matched with the closest partition of the previous time
        # step [within the thresholds]"): a partition starts a new id only if every in-threshold predecessor is
        # continued by another partition
        now = {int(v) for v in ids[:, t] if v != EMPTY}
        for c in range(P):
            v = int(ids[c, t])
            if v != EMPTY and v not in prev:
                free = [p for p in range(P) if W[t - 1][c][p] and ids[p, t - 1] != EMPTY and int(ids[p, t - 1]) not in now]
                if free:
                    out.append(("docstring_matched_when_candidate_free",
                                f"slot {c} at step {t} starts new id {v} although slot(s) {free} of step {t - 1} are within the thresholds and not continued"))
    # 6 no resurrection
    seen_gone = set()
    alive_prev = set()
    ever = set()
    for t in range(T):
        alive = {int(v) for v in ids[:, t] if v != EMPTY}
        back = alive & seen_gone
        if back:
            out.append(("no_resurrection", f"ids {sorted(back)} reappear at step {t} after having been absent"))
        ever |= alive
        seen_gone = ever - alive
        alive_prev = alive
    return out[:6]


# ----------------------------------------------------------------------------------------------
# running one history on the implementation
# ----------------------------------------------------------------------------------------------
def mk_times(T, dt):
    return (np.array(["2020-01-01T00:00:00"], dtype="datetime64[s]") + np.arange(T) * np.timedelta64(int(dt), "s")).astype("datetime64[ns]")


def case_json(case):
    def lst(a):
        return [[None if (isinstance(x, float) and math.isnan(x)) else x for x in row] for row in np.asarray(a, dtype=float).tolist()]

    return dict(kind=case.get("kind"), dt=case["dt"], fp=lst(case["fp"]), dpm=lst(case["dpm"]),
                wspd=[None if math.isnan(x) else x for x in np.asarray(case["wspd"], dtype=float).tolist()],
                ddpm_sea_max=case["ddpm_sea_max"], ddpm_swell_max=case["ddpm_swell_max"],
                dfp_sea_scaling=case["dfp_sea_scaling"], dfp_swell_source_distance=case["dfp_swell_source_distance"])


def case_from_json(j):
    def arr(a):
        return np.array([[np.nan if x is None else float(x) for x in row] for row in a], dtype=float)

    return dict(kind=j.get("kind", "replay"), dt=j.get("dt", 3600), fp=arr(j["fp"]), dpm=arr(j["dpm"]),
                wspd=np.array([np.nan if x is None else float(x) for x in j["wspd"]], dtype=float),
                ddpm_sea_max=j.get("ddpm_sea_max", 30), ddpm_swell_max=j.get("ddpm_swell_max", 20),
                dfp_sea_scaling=j.get("dfp_sea_scaling", 1), dfp_swell_source_distance=j.get("dfp_swell_source_distance", 1e6))


def run_impl(case):
    from wavespectra.partition.tracking import np_track_partitions

    T = case["fp"].shape[1]
    with np.errstate(all="ignore"):
        ids, n = np_track_partitions(mk_times(T, case["dt"]), case["fp"].copy(), case["dpm"].copy(), case["wspd"].copy(),
                                     ddpm_sea_max=case["ddpm_sea_max"], ddpm_swell_max=case["ddpm_swell_max"],
                                     dfp_sea_scaling=case["dfp_sea_scaling"],
                                     dfp_swell_source_distance=case["dfp_swell_source_distance"])
    return np.asarray(ids), int(n)


def thresholds(case):
    sea = ref_dfp_wsea(case["wspd"], case["fp"][0, :], float(case["dt"]), case["dfp_sea_scaling"])
    swell = ref_dfp_swell(float(case["dt"]), case["dfp_swell_source_distance"])
    return np.asarray(sea, dtype=float), float(swell)


class Acc:
    """Mergeable result of a batch of histories (also what pool workers return)."""

    def __init__(self):
        self.evals = 0
        self.distinct = 0           # histories distinct by construction (exhaustive enumeration)
        self.sigs = set()           # signatures of sampled histories
        self.amb = 0
        self.unsupported = 0
        self.branch = {}
        self.disagreements = []
        self.failures = []
        self.samples = []

    def count(self, k, n=1):
        self.branch[k] = self.branch.get(k, 0) + n

    def merge(self, o):
        self.evals += o.evals
        self.distinct += o.distinct
        self.sigs |= o.sigs
        self.amb += o.amb
        self.unsupported += o.unsupported
        for k, v in o.branch.items():
            self.count(k, v)
        self.disagreements += o.disagreements[:10]
        self.failures += o.failures[:10]
        if len(self.samples) < 3:
            self.samples += o.samples[:3 - len(self.samples)]


def nontrivial(fp):
    ne = ~np.isnan(fp)
    return bool(np.any(ne[:, 1:].any(axis=0) & ne[:, :-1].any(axis=0)))


def process_batch(cases, acc, enumerated=False, impl_results=None):
    """Run implementation + oracle on every case, the model on all of them in one driver call, compare."""
    todo = []
    lines = []
    for i, case in enumerate(cases):
        acc.evals += 1
        sea, swell = thresholds(case)
        if np.isinf(sea).any() or not math.isfinite(swell):
            acc.unsupported += 1
            continue
        cj = None
        try:
            ids, n = impl_results[i] if impl_results is not None else run_impl(case)
        except Exception as e:  # a crash on a valid history
            if len(acc.failures) < 10:
                acc.failures.append(dict(op="np_track_partitions", what=f"raises {type(e).__name__}: {e}", case=case_json(case),
                                         trigger="tracking_raises"))
            continue
        W, amb, ties, bnd = analyse(case, sea, swell)
        if amb:
            acc.amb += 1
            continue
        nt = nontrivial(case["fp"])
        if enumerated:
            acc.distinct += nt
        fails = oracle(ids, n, case["fp"], W)
        for clause, msg in fails:
            if len(acc.failures) < 10:
                cj = cj or case_json(case)
                acc.failures.append(dict(op="np_track_partitions", what=f"{clause}: {msg}",
                                         case=dict(cj, part_ids=ids.tolist(), n=n), trigger=f"oracle:{clause}"))
        # branch counters
        P, T = case["fp"].shape
        carried = fresh = 0
        for t in range(1, T):
            prev = set(int(v) for v in ids[:, t - 1] if v != EMPTY)
            for c in range(P):
                v = int(ids[c, t])
                if v == EMPTY:
                    continue
                if v in prev:
                    carried += 1
                else:
                    fresh += 1
        acc.count("slot:carried", carried)
        acc.count("slot:fresh", fresh)
        acc.count("slot:empty", int(np.isnan(case["fp"][:, 1:]).sum()))
        if ties:
            acc.count("history:with-exact-distance-tie")
        if bnd:
            acc.count("history:with-value-exactly-on-threshold")
        if np.isnan(sea[:T - 1]).any():
            acc.count("history:with-nan-sea-threshold")
        if not enumerated and nt:
            acc.sigs.add((case.get("kind"), P, min(T, 8) if T < 8 else (16 if T <= 16 else 64 if T <= 64 else 200), min(n, 12),
                          bool(ties), bool(bnd), carried > 0, fresh > 0, tuple(int(x) for x in ids[:, -1][:3])))
        lines.append(model_line(case, sea, swell))
        todo.append((case, ids, n))
    if not lines:
        return
    resps = run_driver(lines)
    for (case, ids, n), resp in zip(todo, resps):
        st, mo = parse_resp(resp)
        if len(acc.samples) < 3 and nontrivial(case["fp"]) and case["fp"].size <= 60:
            acc.samples.append(dict(case=case_json(case), impl_part_ids=ids.tolist(), impl_n=n, model=resp[:200]))
        if st != "ok":
            if len(acc.disagreements) < 10:
                acc.disagreements.append(dict(op="track", what=f"model error: {mo}", case=case_json(case)))
            continue
        mids = np.array(mo["ids"], dtype=int).reshape(ids.shape)
        if not np.array_equal(mids, ids.astype(int)) or int(mo["n"]) != n:
            if len(acc.disagreements) < 10:
                acc.disagreements.append(dict(op="track", what=f"impl ids={ids.tolist()} n={n}; model ids={mids.tolist()} n={int(mo['n'])}",
                                              case=case_json(case)))


# ----------------------------------------------------------------------------------------------
# exhaustive spaces
# ----------------------------------------------------------------------------------------------
F0 = 6554 / 65536.0          # 0.100006…, dyadic so that frequency differences are exact in float
DELTA = 131 / 65536.0        # 0.0019989 (one step inside the default swell threshold 0.00281, two steps outside)


def states10(f0=F0, delta=DELTA, dirs=(350.0, 5.0, 25.0)):
    """empty + 3 peak frequencies × 3 directions (direction differences 15, 20 (on the swell threshold), 35 with wrap)."""
    st = [(np.nan, np.nan)]
    for k in range(3):
        for d in dirs:
            st.append((f0 + k * delta, d))
    return st


D_DYADIC = find_distance(3600, 2 * DELTA)   # swell threshold exactly 2·DELTA: a change of two steps sits ON the threshold

SPACES = {
    # name: (T, P, states, parameters)
    "T2xP3x6": dict(T=2, P=3, states=[states10()[i] for i in (0, 1, 2, 5, 6, 9)], wspd=10.0, dt=3600, distance=D_DYADIC or 1e6,
                    desc="all 6^6 = 46 656 histories, T=2, 3 partitions, states {empty,(f0,350),(f0,5),(f1,5),(f1,25),(f2,25)}, f_k = f0 + k·d, "
                         "wspd=10 m/s, dt=1 h, ddpm 30/20, source distance chosen so that the swell threshold is exactly 2·d (two steps sit on the threshold)"),
    "T3xP2x6": dict(T=3, P=2, states=[states10()[i] for i in (0, 1, 2, 5, 6, 9)], wspd=10.0, dt=3600, distance=D_DYADIC or 1e6,
                    desc="all 6^6 = 46 656 histories, T=3, 2 partitions, same 6 states and parameters as T2xP3x6"),
    "T2xP3x10": dict(T=2, P=3, states=states10(), wspd=10.0, dt=3600, distance=D_DYADIC or 1e6,
                     desc="all 10^6 histories, T=2, 3 partitions, states empty + {f0,f0+d,f0+2d}×{350,5,25}°, wspd=10 m/s, dt=1 h, ddpm 30/20, "
                          "source distance chosen so that the swell threshold is exactly 2·d"),
    "T3xP2x10": dict(T=3, P=2, distance=1e6, states=states10(f0=13107 / 65536.0, delta=262 / 65536.0, dirs=(340.0, 0.0, 30.0)), wspd=18.0, dt=10800,
                     desc="all 10^6 histories, T=3, 2 partitions, states empty + {0.2,0.204,0.208}×{340,0,30}°, wspd=18 m/s, dt=3 h, default thresholds"),
}


def space_case(sp, idx):
    T, P, states = sp["T"], sp["P"], sp["states"]
    ns = len(states)
    fp = np.empty((P, T))
    dpm = np.empty((P, T))
    for t in range(T):
        for p in range(P):
            idx, s = divmod(idx, ns)
            fp[p, t], dpm[p, t] = states[s]
    return dict(kind="enum", dt=sp["dt"], fp=fp, dpm=dpm, wspd=np.full(T, sp["wspd"]), ddpm_sea_max=30, ddpm_swell_max=20,
                dfp_sea_scaling=1, dfp_swell_source_distance=sp["distance"])


def work_enum(args):
    name, lo, hi = args
    import_ws()
    common._driver_ready = True
    sp = SPACES[name]
    acc = Acc()
    CH = 20000
    for a in range(lo, hi, CH):
        process_batch([space_case(sp, i) for i in range(a, min(hi, a + CH))], acc, enumerated=True)
    return acc


# ----------------------------------------------------------------------------------------------
# random histories
# ----------------------------------------------------------------------------------------------
def gen_history(rng, Tmax):
    """Wave systems that appear, drift, cross and disappear, placed into partition slots."""
    P = rng.choice([1, 2, 3, 3, 4, 5, 6])
    T = rng.choice([2, 2, 3, 4, 5, 8, 12]) if rng.random() < 0.5 else rng.randint(2, Tmax)
    dt = rng.choice([1800, 3600, 3600, 10800, 21600, 86400, 129600])  # up to daily and 36-hourly series
    distance = rng.choice([1e6, 1e6, 5e5, 2e6, 1e5])
    scaling = rng.choice([1, 1, 1, 0.9, 1.1, 2])
    ddpm_sea = rng.choice([30, 30, 20, 45, 10, 25.5])
    ddpm_swell = rng.choice([20, 20, 30, 10, 15, 12.5])
    swell = ref_dfp_swell(dt, distance)
    stream = rng.choice(["alphabet", "alphabet", "alphabet", "float"])
    # frequency alphabet: multiples of 2^-16 so that differences are exact; step relative to the swell threshold
    q = 65536.0
    dstep = max(1, round(swell * rng.choice([0.3, 0.45, 0.7, 0.95, 1.3]) * q)) / q
    if stream == "alphabet" and rng.random() < 0.35:
        # make the swell threshold itself a multiple of the frequency step (changes exactly on the threshold occur)
        mult = rng.choice([1, 2, 2, 3])
        target = max(1, round(swell * q / mult)) * mult / q
        d2 = find_distance(dt, target)
        if d2 is not None:
            distance, swell, dstep = d2, target, target / mult
    dirstep = rng.choice([5, 10, 10, 15, 20, 30, 7.5])
    wsp_alpha = [rng.choice([3.0, 6.0, 10.0, 14.0, 20.0, 28.0]) for _ in range(3)]
    nsys = rng.randint(1, P + 2)

    def new_sys(sea=False):
        if stream == "float":
            return dict(f=rng.uniform(0.04, 0.4), d=rng.uniform(0, 360), sea=sea, e=rng.random())
        return dict(f=round(rng.uniform(0.05, 0.35) * q) / q, d=float(rng.randrange(0, 360, 5)) if dirstep != 7.5 else rng.randrange(0, 720) / 2.0,
                    sea=sea, e=rng.random())

    systems = [new_sys(sea=(i == 0 and rng.random() < 0.7)) for i in range(nsys)]
    fp = np.full((P, T), np.nan)
    dpm = np.full((P, T), np.nan)
    wspd = np.empty(T)
    p_die, p_born = rng.choice([0.02, 0.1, 0.25]), rng.choice([0.05, 0.15, 0.3])
    for t in range(T):
        wspd[t] = rng.choice(wsp_alpha) if stream == "alphabet" or rng.random() < 0.5 else rng.uniform(1.0, 30.0)
        if rng.random() < 0.01:
            wspd[t] = np.nan
        # evolve
        for s in systems:
            if stream == "float":
                s["f"] += rng.gauss(0, 1) * swell * 0.6 - (swell * 0.3 if s["sea"] else 0)
                s["f"] = min(max(s["f"], 0.03), 0.5)
                s["d"] = (s["d"] + rng.gauss(0, 1) * 9) % 360
            else:
                s["f"] += rng.choice([-2, -1, -1, 0, 0, 0, 1, 1, 2]) * dstep
                s["f"] = min(max(s["f"], 2048 / q), 32768 / q)
                s["d"] = (s["d"] + rng.choice([-2, -1, -1, 0, 0, 0, 1, 1, 2]) * dirstep) % 360
            s["e"] = min(max(s["e"] + rng.gauss(0, 0.15), 0.0), 1.0)
        systems = [s for s in systems if rng.random() > p_die]
        if len(systems) < P + 2 and rng.random() < p_born:
            systems.append(new_sys(sea=not any(s["sea"] for s in systems) and rng.random() < 0.5))
        # place: slot 0 = the sea system if any, others by decreasing energy (the ranking changes over time)
        seas = [s for s in systems if s["sea"]]
        swells = sorted([s for s in systems if not s["sea"]], key=lambda s: -s["e"])
        slots = [seas[0] if seas else None] + swells
        if not seas and rng.random() < 0.3 and swells:   # sometimes a swell sits in the sea slot
            slots = swells
        for p in range(P):
            if p < len(slots) and slots[p] is not None:
                fp[p, t], dpm[p, t] = slots[p]["f"], slots[p]["d"]
        if rng.random() < 0.004 and P > 1:   # direction missing while the peak exists
            dpm[rng.randrange(P), t] = np.nan
    return dict(kind=stream, dt=dt, fp=fp, dpm=dpm, wspd=wspd, ddpm_sea_max=ddpm_sea, ddpm_swell_max=ddpm_swell,
                dfp_sea_scaling=scaling, dfp_swell_source_distance=distance)


def work_random(args):
    seed, task, ncases, Tmax = args
    import_ws()
    common._driver_ready = True
    rng = random.Random(f"C19-{seed}-rand-{task}")
    acc = Acc()
    cases = [gen_history(rng, Tmax) for _ in range(ncases)]
    for a in range(0, len(cases), 50):
        process_batch(cases[a:a + 50], acc)
    return acc


# ----------------------------------------------------------------------------------------------
# xarray wrapper, several sites
# ----------------------------------------------------------------------------------------------
def xr_checks(ck, acc, rng, nds):
    import xarray as xr
    from wavespectra.partition.tracking import np_track_partitions, track_partitions

    for k in range(nds):
        nsite = rng.randint(2, 4)
        base = gen_history(rng, 12)
        P, T = base["fp"].shape
        sites = [base]
        while len(sites) < nsite:
            c = gen_history(rng, 12)
            if c["fp"].shape[0] < P:
                continue
            # same shape / parameters / dt as the first site, own data
            T2 = c["fp"].shape[1]
            reps = -(-T // T2)
            fp = np.tile(c["fp"][:P], (1, reps))[:, :T]
            dpm = np.tile(c["dpm"][:P], (1, reps))[:, :T]
            wspd = np.tile(c["wspd"], reps)[:T]
            sites.append(dict(base, fp=fp, dpm=dpm, wspd=wspd))
        if k % 2 == 1:
            # a site with no wave systems at all: every identifier is the missing marker and the reported count is 0
            dead = dict(base, fp=np.full((P, T), np.nan), dpm=np.full((P, T), np.nan), wspd=np.array(base["wspd"], dtype=float).copy())
            sites[rng.randrange(1, nsite)] = dead
        times = mk_times(T, base["dt"])
        fp = xr.DataArray(np.stack([s["fp"] for s in sites]), dims=("site", "part", "time"),
                          coords=dict(site=np.arange(nsite), part=np.arange(P), time=times))
        dpm = xr.DataArray(np.stack([s["dpm"] for s in sites]), dims=("site", "part", "time"), coords=fp.coords)
        wspd = xr.DataArray(np.stack([s["wspd"] for s in sites]), dims=("site", "time"), coords=dict(site=fp.site, time=fp.time))
        order = rng.choice([("site", "part", "time"), ("part", "time", "site"), ("time", "site", "part"), ("part", "site", "time")])
        stats = xr.Dataset(dict(fp=fp.transpose(*order), dpm=dpm.transpose(*order)))
        if rng.random() < 0.3:
            stats = stats.chunk(dict(site=1))
            wspd_in = wspd.chunk(dict(site=1))
        else:
            wspd_in = wspd
        kw = dict(ddpm_sea_max=base["ddpm_sea_max"], ddpm_swell_max=base["ddpm_swell_max"], dfp_sea_scaling=base["dfp_sea_scaling"],
                  dfp_swell_source_distance=base["dfp_swell_source_distance"])
        desc = dict(nsite=nsite, P=P, T=T, order=order, sites=[case_json(s) for s in sites])
        try:
            with np.errstate(all="ignore"):
                out = track_partitions(stats, wspd_in.transpose(*[d for d in order if d != "part"]), **kw).load()
                pid = out.part_id.transpose("site", "part", "time").values
                npid = out.npart_id.transpose("site").values
        except Exception as e:
            acc.failures.append(dict(op="track_partitions", what=f"raises {type(e).__name__}: {e}", case=desc, trigger="tracking_raises"))
            continue
        impl_results = []
        for s, site in enumerate(sites):
            # the wrapper agrees with the numpy function on that site's own data
            ids1, n1 = run_impl(site)
            if not np.array_equal(ids1.astype(int), pid[s].astype(int)) or n1 != int(npid[s]):
                acc.failures.append(dict(op="track_partitions", what=f"site {s}: dataset result differs from np_track_partitions on the site's data",
                                         case=dict(desc, site=s, dataset_ids=pid[s].tolist(), dataset_n=int(npid[s]), np_ids=ids1.tolist(), np_n=n1),
                                         trigger="oracle:wrapper_agrees"))
            # sites are independent: the site tracked alone through the wrapper gives the same answer
            alone = track_partitions(stats.isel(site=[s]), wspd_in.isel(site=[s]).transpose(*[d for d in order if d != "part"]), **kw).load()
            a_ids = alone.part_id.transpose("site", "part", "time").values[0]
            if not np.array_equal(a_ids.astype(int), pid[s].astype(int)) or int(alone.npart_id.values.ravel()[0]) != int(npid[s]):
                acc.failures.append(dict(op="track_partitions", what=f"site {s}: result depends on the other sites",
                                         case=dict(desc, site=s, joint=pid[s].tolist(), alone=a_ids.tolist()), trigger="oracle:sites_independent"))
            impl_results.append((pid[s], int(npid[s])))
        acc.count("xarray:datasets")
        acc.count("xarray:sites", nsite)
        # model + oracle on what the wrapper returned for every site
        process_batch(sites, acc, impl_results=impl_results)
        if out.part_id.dtype != np.int16:
            acc.count("xarray:part_id-not-int16")


def ptm1_track_checks(ck, acc, variants):
    """The accessor path on real spectra (two sites of the WW3 sample file): partition, then track."""
    from wavespectra import read_ww3
    from wavespectra.partition.partition import Partition

    path = common.REPO / "tests/sample_files/ww3file.nc"
    if not path.exists():
        acc.count("ptm1_track:sample-file-missing")
        return
    d = read_ww3(str(path)).load()
    for kw in variants:
        try:
            with np.errstate(all="ignore"):
                out = Partition(d).ptm1_track(wspd=d.wspd, wdir=d.wdir, dpt=d.dpt, **kw).load()
                st = out.drop_vars(["part_id", "npart_id"]).spec.stats(["fp", "dpm"]).load()
        except Exception as e:
            acc.failures.append(dict(op="ptm1_track", what=f"raises {type(e).__name__}: {e}", case=dict(kw=kw), trigger="tracking_raises"))
            continue
        pid = out.part_id.transpose("site", "part", "time").values
        npid = out.npart_id.transpose("site").values
        fp = st.fp.transpose("site", "part", "time").values
        dpm = st.dpm.transpose("site", "part", "time").values
        wspd = d.wspd.transpose("site", "time").values
        dt = float((d.time.values[1] - d.time.values[0]) / np.timedelta64(1, "s"))
        sites, impl_results = [], []
        for s in range(fp.shape[0]):
            case = dict(kind="ptm1_track", dt=dt, fp=fp[s].astype(float), dpm=dpm[s].astype(float), wspd=wspd[s].astype(float),
                        ddpm_sea_max=kw.get("ddpm_sea_max", 30), ddpm_swell_max=kw.get("ddpm_swell_max", 20),
                        dfp_sea_scaling=kw.get("dfp_sea_scaling", 1), dfp_swell_source_distance=kw.get("dfp_swell_source_distance", 1e6),
                        rel=REL32, f32=True)
            sites.append(case)
            impl_results.append((pid[s], int(npid[s])))
        acc.count("ptm1_track:runs")
        process_batch(sites, acc, impl_results=impl_results)


# ----------------------------------------------------------------------------------------------
# local matches (`match_consecutive_partitions` against the `trackmatch` op)
# ----------------------------------------------------------------------------------------------
def match_checks(acc, rng, ncases):
    from wavespectra.partition.tracking import match_consecutive_partitions

    lines, todo = [], []
    for _ in range(ncases):
        case = gen_history(rng, 2)
        case["fp"], case["dpm"], case["wspd"] = case["fp"][:, :2], case["dpm"][:, :2], case["wspd"][:2]
        sea, swell = thresholds(case)
        if np.isinf(sea).any():
            continue
        W, amb, ties, bnd = analyse(case, sea, swell)
        if amb:
            acc.amb += 1
            continue
        with np.errstate(all="ignore"):
            m = match_consecutive_partitions(case["fp"], case["dpm"], sea[0], swell, case["ddpm_sea_max"], case["ddpm_swell_max"])
        P = case["fp"].shape[0]
        lines.append(" ".join(["trackmatch", str(P)] + [f"v {P} " + " ".join(encf(x) for x in col) for col in
                                                      (case["fp"][:, 0], case["dpm"][:, 0], case["fp"][:, 1], case["dpm"][:, 1])]
                              + [encf(sea[0]), encf(swell), encf(case["ddpm_sea_max"]), encf(case["ddpm_swell_max"])]))
        todo.append((case, np.asarray(m).astype(int), W))
    if not lines:
        return
    for (case, m, W), resp in zip(todo, run_driver(lines)):
        acc.evals += 1
        st, mo = parse_resp(resp)
        P = case["fp"].shape[0]
        if st != "ok":
            acc.disagreements.append(dict(op="trackmatch", what=f"model error {mo}", case=case_json(case)))
            continue
        if list(m) != list(mo["m"]):
            acc.disagreements.append(dict(op="trackmatch", what=f"impl matches {m.tolist()} model {mo['m']}", case=case_json(case)))
        wm = np.array(mo["w"]).reshape(P, P)
        wh = np.array([[int(W[0][c][p]) for p in range(P)] for c in range(P)])
        if not np.array_equal(wm, wh):
            acc.disagreements.append(dict(op="trackmatch", what=f"within-threshold mask: model {wm.tolist()} harness restatement {wh.tolist()}",
                                          case=case_json(case)))
        # oracle on the local matches: a matched predecessor is non-empty, within thresholds, used once
        used = [int(x) for x in m if x >= 0]
        if len(set(used)) != len(used):
            acc.failures.append(dict(op="match_consecutive_partitions", what=f"a predecessor is matched twice: {m.tolist()}",
                                     case=case_json(case), trigger="oracle:prev_continued_at_most_once"))
        for c, p in enumerate(m):
            if p >= 0 and not W[0][c][p]:
                acc.failures.append(dict(op="match_consecutive_partitions", what=f"slot {c} matched to {p} outside thresholds",
                                         case=case_json(case), trigger="oracle:carry_within_thresholds"))
        acc.count("match:cases")


# ----------------------------------------------------------------------------------------------
def corpus_cases(ck):
    out = []
    for e in json.loads((ROOT / "known_findings.json").read_text())["findings"]:
        if e.get("property") == "C19" and "fp" in e.get("witness", {}):
            w = e["witness"]
            out.append(case_from_json(dict(kind="corpus:" + e["id"], dt=3600, fp=w["fp"], dpm=w["dpm"], wspd=w["wspd"])))
    d = ROOT / "corpus" / "C19"
    if d.exists():
        for p in sorted(d.glob("*.json")):
            j = json.loads(p.read_text())
            for c in (j if isinstance(j, list) else [j]):
                out.append(case_from_json(c))
    rp = os.environ.get("VERIF_REPLAY")
    if rp:
        j = json.loads((ROOT / rp if not os.path.isabs(rp) else __import__("pathlib").Path(rp)).read_text())
        for f in j.get("failures", []) + j.get("disagreements", []):
            c = f.get("case", {})
            if "fp" in c:
                out.append(case_from_json(dict(c, kind="replay")))
            for s in c.get("sites", []):
                out.append(case_from_json(dict(s, kind="replay")))
    return out


def id_storage_probe(ck, total):
    """More than 32767 wave systems over a long series: ids are stored as int16."""
    from wavespectra.partition.tracking import np_track_partitions

    P, T = 6, 5463   # every slot jumps 0.1 <-> 0.3 Hz each step: nothing is ever continued, 6 new ids per step
    fp = np.where((np.arange(T) % 2 == 0)[None, :], 0.1, 0.3) * np.ones((P, 1))
    desc = dict(generator="P=6 partitions, fp alternates 0.1/0.3 Hz every step in every slot (no continuation possible), dpm=0, wspd=10, dt=1 h",
                P=P, T=T, expected_count=P * T)
    total.evals += 1
    try:
        with np.errstate(all="ignore"):
            ids, n = np_track_partitions(mk_times(T, 3600), fp, np.zeros((P, T)), np.full(T, 10.0))
    except Exception as e:
        ck.extra["id_storage_probe"] = f"{type(e).__name__}: {e}"
        total.failures.append(dict(op="np_track_partitions", what=f"raises {type(e).__name__} ({e}) once more than 32767 systems have been tracked",
                                   case=desc, trigger="tracking_int16_overflow"))
        return
    ids = np.asarray(ids).astype(int)
    ok = int(n) == P * T and ids.min() >= 0 and all(len(set(ids[:, t])) == P for t in range(0, T, 97)) and int(ids[P - 1, T - 1]) == P * T - 1
    ck.extra["id_storage_probe"] = f"n={int(n)} max id={int(ids.max())} min id={int(ids.min())}"
    if not ok:
        total.failures.append(dict(op="np_track_partitions", what=f"ids wrong after 32767 systems: n={int(n)}, min id {int(ids.min())}, max id {int(ids.max())}",
                                   case=desc, trigger="tracking_int16_overflow"))


class SigCounter:
    """`Check.signatures` replacement: sampled signatures + histories that are distinct by construction."""

    def __init__(self):
        self.s = set()
        self.extra = 0

    def add(self, x):
        self.s.add(x)

    def __len__(self):
        return len(self.s) + self.extra


def run_check():
    ck = Check("C19")
    ck.signatures = SigCounter()
    ck.extra["rule"] = ("histories = (fp, dpm) matrices (partition × time) + wind speed per step + threshold parameters; enumerated spaces "
                        "list every history over a small alphabet (each one distinct by construction), sampled histories simulate wave systems "
                        "that appear, drift, cross between slots and disappear; non-trivial = some step has a non-empty partition both at it-1 "
                        "and it (a matching decision is taken); distinct = enumerated non-trivial histories + distinct signatures "
                        "(stream, P, T class, id count, tie?, on-threshold?, carried?, fresh?, last column) of sampled ones; ambiguous histories "
                        "(float vs exact decision within 1e-9) are skipped and counted")
    ck.do_audit()
    import_ws()
    common.ensure_driver()
    quick = ck.tier != "thorough"
    seed = ck.seed
    total = Acc()
    t0 = time.time()

    # corpus / replay first
    cc = corpus_cases(ck)
    if cc:
        process_batch(cc, total)
        total.count("corpus:cases", len(cc))

    nw = max(1, min(12, (os.cpu_count() or 2) - 1))
    tasks_enum = []
    spaces = ["T2xP3x6", "T3xP2x6"] if quick else ["T2xP3x10", "T3xP2x10"]
    for name in spaces:
        sp = SPACES[name]
        size = len(sp["states"]) ** (sp["T"] * sp["P"])
        chunk = -(-size // (nw * (1 if quick else 4)))
        tasks_enum += [(name, a, min(size, a + chunk)) for a in range(0, size, chunk)]
    nrand, Tmax = (300, 30) if quick else (4000, 200)
    per = 25 if quick else 50
    tasks_rand = [(seed, i, per, Tmax) for i in range(nrand // per)]
    ctx = mp.get_context("fork")
    with ctx.Pool(nw) as pool:
        r1 = pool.map_async(work_enum, tasks_enum, chunksize=1)
        r2 = pool.map_async(work_random, tasks_rand, chunksize=1)
        for acc in r1.get(timeout=3000):
            total.merge(acc)
        enum_evals = total.evals
        for acc in r2.get(timeout=3000):
            total.merge(acc)
    log(f"[C19] enumeration + random histories: {time.time() - t0:.1f}s")
    rng = ck.rng
    match_checks(total, rng, 200 if quick else 3000)
    xr_checks(ck, total, rng, 6 if quick else 60)
    variants = [dict(swells=2), dict(swells=2, ddpm_swell_max=2, ddpm_sea_max=50, dfp_sea_scaling=3, dfp_swell_source_distance=2e5)] if quick else [
        dict(swells=2, ddpm_swell_max=2, ddpm_sea_max=50, dfp_sea_scaling=3, dfp_swell_source_distance=2e5), dict(swells=3, ddpm_swell_max=8),
        dict(swells=2, ddpm_sea_max=5), dict(swells=2, dfp_sea_scaling=0.25), dict(swells=2, dfp_swell_source_distance=5e4),dict(swells=2), dict(swells=3, ddpm_swell_max=30, dfp_swell_source_distance=3e5),
                                               dict(swells=2, ddpm_sea_max=45, dfp_sea_scaling=2)]
    ptm1_track_checks(ck, total, variants)
    id_storage_probe(ck, total)

    # fold into the Check
    ck.evaluations = total.evals
    ck.signatures.s |= total.sigs
    ck.signatures.extra = total.distinct
    ck.ambiguous = total.amb
    ck.branch = dict(total.branch)
    if total.unsupported:
        ck.branch["unsupported:infinite-threshold"] = total.unsupported
    ck.samples = total.samples[:3]
    for d in total.disagreements:
        ck.disagree(d["op"], d["what"], d["case"])
    for f in total.failures:
        ck.fail(f["op"], f["what"], f["case"], trigger=f["trigger"])
    ck.extra["exhaustive_spaces"] = [dict(name=n, histories=len(SPACES[n]["states"]) ** (SPACES[n]["T"] * SPACES[n]["P"]), what=SPACES[n]["desc"])
                                     for n in spaces]
    ck.extra["exhaustive"] = False
    ck.extra["exhaustive_note"] = ("the listed finite spaces were enumerated completely (implementation = model = oracle on every history, "
                                   "minus the ambiguous ones counted above); the property's quantifier (all T, all values) is covered by the "
                                   "Lean theorems, not by enumeration")
    ck.extra["traces_validated_against_impl"] = total.evals - total.amb - total.unsupported
    ck.assumptions = [
        "exact-arithmetic model of the threshold/distance computation; float-vs-exact branch flips excluded by the ambiguity rule (1e-9; 1e-4 for float32 statistics)",
        "thresholds dfp_wsea/dfp_swell restated from the docstrings in float (pow() not modelled in Lean); the theorems hold for every threshold value",
        "int16 storage of ids is not modelled (ids are naturals in the model); the implementation is probed once beyond 32767 systems (id_storage_probe)",
        "T >= 2 (the code reads times[1]); the Lean theorems also cover T = 1",
        "xarray/apply_ufunc runtime is not modelled: several sites = map over sites, tied by the dataset runs reported here",
    ]
    return ck.finish()


if __name__ == "__main__":
    from ..common import main_wrapper

    main_wrapper(run_check)

"""C06 — each spectrum in a dataset is processed independently of the others (DESIGN §3 C06)."""
import math

import numpy as np

from .. import gen, opcat
from ..common import Check, case_rng, close, enc_m, enc_optv, enc_v, import_ws, parse_resp, pmap, run_driver


def isel_res(res, pos):
    import xarray as xr

    if isinstance(res, tuple):
        return tuple(isel_res(r, pos) for r in res)
    return res.isel({k: v for k, v in pos.items() if k in res.dims})


def norm(op, can, da):
    """Canonical result with the comparisons the property leaves open removed: order of equal-Hs partitions, angles of
    (near-)zero moment vectors, tied peak directions; tiny Stokes-drift components are compared against the drift speed."""
    out = []
    lead = [d for d in da.dims if d not in ("freq", "dir")]
    for c in can:
        if op in opcat.PART_HEADS:
            c = opcat.sort_parts(c, opcat.PART_HEADS[op])
        nm = c["name"].split(":")[-1]
        if nm in ("dm", "dp", "dpm") and "freq" not in c["dims"]:
            c = opcat.mask_positions(c, lead, opcat.weak_angle_positions(nm, da))
        out.append(c)
    return out


def abs_tol(op, da):
    if op in ("uss_x", "uss_y"):
        return 1e-9 * float(da.spec.uss().max())
    if op in ("momd1", "crsd"):  # signed sums that cancel: compared against the size of their terms
        return 1e-9 * float(da.spec.oned().max())
    return 0.0


def make_case(args):
    seed, icase = args
    rng = case_rng("C06", seed, icase)
    import_ws()
    import xarray as xr

    nextra = rng.choice([0, 1, 1, 2, 2, 3])
    names = rng.sample(["time", "site", "lat", "lon"], nextra)
    shape = [rng.randint(1, 3) for _ in names]
    if len(shape) >= 2 and rng.random() < 0.5:
        shape = [rng.randint(2, 3)] * len(shape)
    nf, nd = rng.choice([5, 6, 8, 10]), rng.choice([8, 12, 16])
    freq, _ = gen.gen_freq(rng, nf, kind=rng.choice(["log", "irregular"]))
    dirs, order = gen.gen_dirs(rng, nd, order=rng.choice(["sorted", "rotated", "seam"]))
    extra = []
    for nme, n in zip(names, shape):
        if nme == "time":
            vals = (np.array(["2020-01-01T00:00:00"], dtype="datetime64[s]") + np.arange(n) * np.timedelta64(3600, "s")).astype("datetime64[ns]")
        else:
            vals = np.arange(n, dtype=float) * 1.5
        extra.append((nme, vals))
    npos = int(np.prod(shape)) if shape else 1
    E = np.array([gen.gen_spectrum(rng, nf, nd, kind=rng.choice(["blobs", "blobs", "noisy", "ties", "sparse", "plateau", "zero", "const"]))[0]
                  for _ in range(npos)]).reshape(tuple(shape) + (nf, nd))
    da = gen.make_da(freq, dirs, E, extra=extra)
    dims = list(da.dims)
    if rng.random() < 0.4 and len(dims) > 2:
        rng.shuffle(dims)
        da = da.transpose(*dims)
    lead = [d for d in da.dims if d not in ("freq", "dir")]
    strided32 = False
    if lead and rng.random() < 0.3:
        strided32 = True
        # float32 data whose spectral dimensions are the SLOWEST in memory (an array assembled as (freq, dir, time…) and viewed in
        # the dataset's dimension order): the (freq, dir) block of one position is a strided view that needs no dtype conversion
        order = ["freq", "dir"] + lead
        buf = np.ascontiguousarray(da.transpose(*order).values.astype("float32"))
        da = xr.DataArray(buf, dims=order, coords=da.coords, attrs=da.attrs, name=da.name).transpose(*da.dims)
    def auxarr(lo, hi):
        return xr.DataArray(np.array([rng.uniform(lo, hi) for _ in range(npos)]).reshape(tuple(da.sizes[d] for d in lead)), dims=lead,
                            coords={d: da[d] for d in lead})
    aux = dict(wspd=auxarr(2, 20), wdir=auxarr(0, 360), dpt=auxarr(8, 300))
    if len(lead) >= 2 and rng.random() < 0.6:
        # forcing stored with its dimensions in another order than efth's (values are attached to labels, not positions)
        perm = list(lead)
        while perm == list(lead):
            rng.shuffle(perm)
        aux = {k: v.transpose(*perm).copy() for k, v in aux.items()}
    if rng.random() < 0.5:
        # mix of very deep and shallow sites (relative depth matters to the dispersion relation)
        import xarray as xr2
        vals = np.array([rng.choice([6.0, 20.0, 500.0, 2000.0, 4000.0]) for _ in range(npos)]).reshape(tuple(da.sizes[d] for d in lead))
        aux["dpt"] = xr2.DataArray(vals, dims=lead, coords={d: da[d] for d in lead}).transpose(*aux["wspd"].dims)
    C = opcat.catalogue()
    C["mss_dpt"] = lambda da, aux: da.spec.mss(depth=aux["dpt"])
    C["uss_dpt"] = lambda da, aux: da.spec.uss(depth=aux["dpt"])
    C["celerity_dpt"] = lambda da, aux: da.spec.celerity(depth=aux["dpt"])
    C["wavelen_dpt"] = lambda da, aux: da.spec.wavelen(depth=aux["dpt"])
    opnames = rng.sample(sorted(C), 7) + rng.sample(["mss_dpt", "uss_dpt", "celerity_dpt", "wavelen_dpt", "ptm4"], 2)
    if strided32:
        # this layout is aimed at what reaches the native routine and the masks; statistics whose NaN status hangs on a float32
        # radicand a few ulp from zero (dspr, dpspr, sw, gw …) may legitimately differ between two evaluation orders of the same
        # float32 sums, so they are not compared here (false alarm at seed 3, DESIGN §11)
        pool = sorted(n for n in C if n in opcat.WATERSHED or n in ("ptm4", "ptm5", "bbox", "split", "split_dir", "to_energy", "oned", "hs"))
        opnames = rng.sample(pool, min(7, len(pool)))
    positions = [dict(zip(lead, idx)) for idx in np.ndindex(*[da.sizes[d] for d in lead])]
    out = []
    # perturbation: replace the spectrum at one position
    jpos = rng.choice(positions)
    da2 = da.copy(deep=True)
    newS = gen.gen_spectrum(rng, nf, nd, kind="noisy")[0] + 1.0
    da2.loc[{k: da2[k][v] for k, v in jpos.items()}] = xr.DataArray(newS, dims=("freq", "dir"), coords=dict(freq=freq, dir=dirs))
    ds = da.to_dataset(name="efth")
    for op in opnames:
        rec = dict(op=op, icase=icase, dims=list(da.dims), shape=[int(da.sizes[d]) for d in da.dims], order=order, npos=npos)
        try:
            batched = C[op](da, aux)
            cb_all = opcat.canon(batched)
        except Exception as e:
            rec["crash"] = f"batched {type(e).__name__}: {str(e)[:200]}"
            out.append(rec)
            continue
        rel = 3e-6 if op in opcat.FLOAT32_OUT else 1e-9
        rec["diffs"] = []
        sel = positions if len(positions) <= 3 else rng.sample(positions, 3)
        for pos in sel:
            try:
                single = C[op](da.isel(pos), {k: v.isel(pos) for k, v in aux.items()})
                one = da.isel(pos)
                d = opcat.compare(norm(op, opcat.canon(isel_res(batched, pos)), one), norm(op, opcat.canon(single), one), rel=rel,
                                  abs_=abs_tol(op, one))
            except Exception as e:
                d = f"single-spectrum call raised {type(e).__name__}: {str(e)[:160]}"
            if d:
                rec["diffs"].append(dict(kind="batched_vs_single", pos={k: int(v) for k, v in pos.items()}, what=d))
        # other positions unchanged when one spectrum changes
        if len(positions) > 1:
            try:
                b2 = C[op](da2, aux)
                for pos in positions:
                    if pos == jpos:
                        continue
                    d = opcat.compare(opcat.canon(isel_res(b2, pos)), opcat.canon(isel_res(batched, pos)), rel=1e-12)
                    if d:
                        rec["diffs"].append(dict(kind="perturb_other", changed={k: int(v) for k, v in jpos.items()},
                                                 pos={k: int(v) for k, v in pos.items()}, what=d))
                        break
            except Exception as e:
                rec["diffs"].append(dict(kind="perturb_other", what=f"raised {type(e).__name__}: {str(e)[:160]}"))
        # Dataset accessor agrees with the efth accessor
        try:
            if op in ("ptm4", "ptm1", "ptm2", "ptm1_smooth"):
                via = getattr(ds.spec.partition, op.replace("_smooth", ""))(aux["wspd"], aux["wdir"], aux["dpt"],
                                                                             **(dict(swells=2, smooth=(op == "ptm1_smooth")) if op != "ptm4" else {}))
            elif op in ("ptm3", "ptm5", "bbox"):
                via = None
            else:
                via = C[op](ds, aux) if op not in ("rotate", "rotate_any", "interp", "interp_nom0", "split", "split_dir", "stats_split", "uss_depth",
                                                   "momf2", "momd1", "tp_discrete", "smooth", "stats", "scale_by_hs") else None
            if via is not None:
                d = opcat.compare(opcat.canon(via), cb_all, rel=1e-12)
                if d:
                    rec["diffs"].append(dict(kind="dataset_vs_dataarray", what=d))
        except Exception as e:
            rec["diffs"].append(dict(kind="dataset_vs_dataarray", what=f"raised {type(e).__name__}: {str(e)[:160]}"))
        out.append(rec)
    # Dataset accessor vs efth accessor after an in-place coordinate edit through ds.coords[...]
    try:
        ds2 = da.to_dataset(name="efth")
        float(ds2.spec.hs().sum())
        style = rng.choice(["coords_dir", "coords_freq", "item_dir"])
        if style == "coords_dir":
            ds2.coords["dir"] = (ds2.dir.values * 0.5)
        elif style == "coords_freq":
            ds2.coords["freq"] = ds2.freq.values * 1.5
        else:
            ds2["dir"] = (ds2.dir.values + 7.0) % 360
        for nm in ("hs", "tm01", "dm"):
            d = opcat.compare(opcat.canon(getattr(ds2.spec, nm)()), opcat.canon(getattr(ds2.efth.spec, nm)()), rel=1e-12)
            if d:
                out.append(dict(op=nm, icase=icase, dims=list(da.dims), shape=[int(da.sizes[x]) for x in da.dims], order=order, npos=npos,
                                diffs=[dict(kind="dataset_vs_dataarray", what=f"after {style} edit: {d}")]))
    except Exception as e:
        out.append(dict(op="coords_edit", icase=icase, dims=list(da.dims), shape=[int(da.sizes[x]) for x in da.dims], order=order, npos=npos,
                        crash=f"{type(e).__name__}: {str(e)[:200]}"))
    # light correspondence with the Lean model (ties the map-of-single-spectrum model to the code): hs/tm01 at one position
    pos = positions[0]
    E2 = np.asarray(da.isel(pos).transpose("freq", "dir").values, dtype=float)
    s, c = gen.trig_tables(dirs)
    z = [0] * nf
    req = " ".join(["stats", "1", enc_v(freq), enc_optv(dirs), enc_m(E2, nd), enc_v(s), enc_v(c), enc_v(z), enc_v(z)])
    hs_b = float(da.spec.hs().isel(pos))
    t1_b = float(da.spec.tm01().isel(pos))
    return dict(recs=out, req=req, hs=hs_b, tm01=t1_b, desc=dict(dims=list(da.dims), shape=[int(da.sizes[d]) for d in da.dims]))


def run_check():
    ck = Check("C06", level="proof")
    ck.explanation = ("Lean (Props/C06dims.lean): reductions / indexing along freq or dir commute with extracting a position and are unaffected by "
                      "edits at other positions, for all arrays and reducers (reduce_spectral_get/_single/_update_other); one along any other "
                      "axis is not (reduce_pos_mixes). The axis structure of every labelled-array call of SpecArray, xrstats, Partition, "
                      "regrid_spec, smooth_spec, SpecDataset is REGENERATED from the current source by harness/translate_dims.py on every run and "
                      "decided spectral-only (gendims_spectral_only, exceptions = hmax's reads of the time axis, proved exact), every "
                      "apply_ufunc vectorised over core dims within {freq, dir} (gendims_ufunc_spectral). Trusted: xarray's named-axis "
                      "semantics. Correspondence: every catalogue operation on datasets with 0–3 non-spectral dimensions of any order is "
                      "compared, position by position, with the same call on the extracted single spectrum (own wind/depth); one spectrum is "
                      "then replaced and every other position must be unchanged; the Dataset accessor must agree with the efth accessor. "
                      "hmax is excluded by the property.")
    ck.assumptions = list(getattr(ck, "assumptions", []) or []) + [
        "xarray named-axis semantics: dim=d reductions/indexers touch only axis d; arithmetic broadcasts by dimension name; vectorize=True loops "
        "the kernel over every non-core position"]
    ck.extra["rule"] = ("signature = (operation, number of extra dims, whether dims were shuffled, npos class); non-trivial = dataset with at "
                        "least 2 positions")
    ck.do_audit()
    import_ws()
    n = 40 if ck.tier == "quick" else 500
    from ..common import replay_ids

    res = pmap(make_case, [(ck.seed, i) for i in replay_ids(ck, n)])
    resps = run_driver([r["req"] for r in res])
    for r, resp in zip(res, resps):
        st, mo = parse_resp(resp)
        if st != "ok":
            ck.disagree("stats", str(mo), r["desc"])
        else:
            if not close(r["hs"], 4 * math.sqrt(mo["hsE"]), rel=1e-9):
                ck.disagree("hs", f"batched hs at position 0 = {r['hs']} model {4 * math.sqrt(mo['hsE'])}", r["desc"])
            if not close(r["tm01"], mo["tm01"], rel=1e-9):
                ck.disagree("tm01", f"batched tm01 = {r['tm01']} model {mo['tm01']}", r["desc"])
        for rec in r["recs"]:
            nextra = len(rec["dims"]) - 2
            ck.case((rec["op"], nextra, rec["dims"][-2:] != ["freq", "dir"], min(rec["npos"], 4)), rec["npos"] >= 2,
                    sample=dict(op=rec["op"], dims=rec["dims"], shape=rec["shape"]))
            if "crash" in rec:
                ck.fail(rec["op"], rec["crash"], rec, "crash")
                continue
            for d in rec["diffs"]:
                ck.fail(rec["op"], f"{d['kind']}: {d['what']}", dict(rec, diff=d), d["kind"])
    return ck.finish()


if __name__ == "__main__":
    from ..common import main_wrapper

    main_wrapper(run_check)

"""C03 — watershed partitions are a sound, ordered, energy-conserving split (DESIGN §3 C03).

Three things happen for every generated case:

* the real `np_ptm1/2/3` (directly, or through `spec.partition.ptm1/2/3` on a multi-dimensional dataset) runs
  in-process with a *spy* around `specpart.partition` that records the array handed to the C routine (values,
  memory layout, ihmax) and the label map it returned;
* the Lean model `assemble` gets the original spectrum, that recorded label map, the wave-age mask computed here
  from the published rule, wscut and the requested count, and its partitions are compared bin for bin with the
  implementation (ties in Hs as sets, near-threshold wind-sea fractions counted as ambiguous);
* the property's direct oracle (six postconditions, no model involved) runs on the returned arrays, with the
  watershed of the C-contiguous float32 (smoothed) spectrum as "the basins".
"""
import json
import math
import os
from fractions import Fraction

import numpy as np

from .. import gen
from ..common import ROOT, Check, case_rng, enc, enc_im, enc_m, enc_v, import_ws, parse_resp, pmap, run_driver

HEADS = {1: 1, 2: 2, 3: 0}
NAMES = {1: "ptm1", 2: "ptm2", 3: "ptm3"}


# ------------------------------------------------------------------------------------------------
# published rules restated (independent of the library code)
# ------------------------------------------------------------------------------------------------
def celerity_pub(freq, depth):
    """Phase speed omega/k with the Chen & Thomson wavenumber approximation the library documents."""
    w = 2.0 * math.pi * np.asarray(freq, dtype=float)
    k0h = 0.10194 * w * w * depth
    a = 1.0 + 0.6522 * k0h + 0.4622 * k0h ** 2 + 0.0864 * k0h ** 4 + 0.0675 * k0h ** 5
    k = k0h * np.sqrt(1.0 + 1.0 / (k0h * a)) / depth
    return w / k


def windsea_pub(freq, dirs, wspd, wdir, dpt, agefac):
    """Wave-age rule: a bin is wind sea when celerity(f, depth) <= agefac * wspd * cos(dir - wdir).
    Returns (mask, ambiguous) — ambiguous when some bin sits within 1e-9 (relative) of the boundary."""
    up = agefac * wspd * np.cos(np.radians(np.asarray(dirs, dtype=float) - wdir))
    c = celerity_pub(freq, dpt)
    diff = up[None, :] - c[:, None]
    scale = np.maximum(np.abs(up)[None, :], np.abs(c)[:, None])
    return diff >= 0, bool((np.abs(diff) <= 1e-9 * scale).any())


def hs_rad(part, freq, dirs):
    """Radicand (Hs/4)^2 of the library's array-level Hs: trapezoid over frequency of the direction-integrated
    spectrum plus the quarter-weight tail above 0.333 Hz."""
    part = np.asarray(part, dtype=float)
    if len(dirs) > 1:
        e1 = abs(float(dirs[1]) - float(dirs[0])) * part.sum(axis=1)
    else:
        e1 = part[:, 0]
    f = np.asarray(freq, dtype=float)
    tot = 0.5 * float(np.sum(np.abs(np.diff(f)) * (e1[1:] + e1[:-1])))
    if f[-1] > 0.333:
        tot += 0.25 * float(e1[-1]) * float(f[-1])
    return tot


# ------------------------------------------------------------------------------------------------
# spy around the C routine
# ------------------------------------------------------------------------------------------------
class Spy:
    def __init__(self, real):
        self.real = real
        self.calls = []

    def partition(self, arr, ihmax):
        # The C routine keeps its work arrays and neighbour table in static variables between calls.  One call in two is
        # therefore preceded, in the same process, by a call on ANOTHER grid shape with the SAME number of bins (the same values
        # reshaped): what the routine returns for `arr` must not depend on what it was used for before.
        try:
            nf, nd = arr.shape
            if (nf * 31 + nd + int(ihmax)) % 2 == 0:
                alt = (nd, nf) if nf != nd else ((nf // 2, nd * 2) if nf % 2 == 0 and nf > 2 else None)
                if alt is not None:
                    # a grid with another number of bins first, so that the other shape is the one the routine's tables were
                    # last built for
                    self.real.partition(np.zeros((3, 5) if nf * nd != 15 else (2, 2), dtype=np.float32), ihmax)
                    self.real.partition(np.ascontiguousarray(np.asarray(arr, dtype=np.float32).reshape(alt)), ihmax)
        except Exception:
            pass
        out = self.real.partition(arr, ihmax)
        self.calls.append(dict(values=np.array(arr, order="C", copy=True), c_contig=bool(arr.flags.c_contiguous),
                               dtype=str(arr.dtype), ihmax=int(ihmax), w=np.array(out, order="C", copy=True)))
        return out


_spy = None


def setup():
    """Import the implementation, install the spy. Returns (np_ptm functions, spy, real C module)."""
    global _spy
    import_ws()
    import wavespectra.partition.partition as P

    if _spy is None:
        real = P.specpart
        if isinstance(real, Spy):
            real = real.real
        _spy = Spy(real)
        P.specpart = _spy
        try:
            import dask

            dask.config.set(scheduler="synchronous")
        except Exception:
            pass
    return {1: P.np_ptm1, 2: P.np_ptm2, 3: P.np_ptm3}, _spy, _spy.real


def watershed_clean(real, smooth, ihmax):
    """The basins of the property statement: the C watershed of the C-contiguous float32 (smoothed) spectrum."""
    kin = np.ascontiguousarray(np.asarray(smooth), dtype=np.float32)
    return kin, np.array(real.partition(kin, int(ihmax)), order="C")


# ------------------------------------------------------------------------------------------------
# the direct oracle: six postconditions on the returned arrays
# ------------------------------------------------------------------------------------------------
def eq(a, b, tol):
    a = np.asarray(a, dtype=float)
    b = np.asarray(b, dtype=float)
    return a.shape == b.shape and bool(np.all(np.abs(a - b) <= tol * np.abs(b)))


def oracle(method, out, E, freq, dirs, wclean, mask, mask_amb, wscut, req, tol, tolws, ktol):
    """Returns (failures, ambiguous_clauses, ws_amb); failures = list of dict(clause, what, lost); ws_amb = the wind-sea
    classification of some basin is within rounding of the cutoff (results may then legitimately differ between two
    float evaluations of the same case)."""
    fails = []
    amb = 0
    ws_amb = False
    heads = HEADS[method]
    E = np.asarray(E, dtype=float)
    K = out.shape[0] if out.ndim == 3 else 0
    out = np.asarray(out, dtype=float).reshape((K,) + E.shape)
    nparts = int(wclean.max()) if wclean.size else 0
    # 1 count
    if req is not None and K != heads + req:
        fails.append(dict(clause="count", what=f"{K} partitions returned, {heads + req} requested"))
    if req is None and K < heads:
        fails.append(dict(clause="count", what=f"{K} partitions returned, at least {heads} expected"))
    # 2 every bin is the original density or zero
    bad = (out != 0) & (np.abs(out - E[None]) > tol * np.abs(E[None]))
    if bad.any():
        p, i, j = [int(x) for x in np.argwhere(bad)[0]]
        fails.append(dict(clause="bin_sound", what=f"partition {p} bin ({i},{j}) holds {out[p, i, j]!r}, spectrum has {E[i, j]!r}"))
    # 3 no bin in two partitions
    multi = (out != 0).sum(axis=0) > 1
    if multi.any():
        i, j = [int(x) for x in np.argwhere(multi)[0]]
        fails.append(dict(clause="disjoint", what=f"bin ({i},{j}) is non-zero in {int((out[:, i, j] != 0).sum())} partitions"))
    # 4 conservation
    S = out.sum(axis=0) if K else np.zeros_like(E)
    full = req is None or req >= nparts
    if full:
        lost = np.abs(S - E) > tol * np.abs(E)
        if lost.any():
            i, j = [int(x) for x in np.argwhere(lost)[0]]
            fails.append(dict(clause="sum_exact", lost=lost,
                              what=f"{nparts} basins detected, {req} requested, but partitions add to {S[i, j]!r} at bin ({i},{j}) where the "
                                   f"spectrum has {E[i, j]!r} ({int(lost.sum())} bins differ, energy lost {float((E - S)[lost].sum())!r})"))
    else:
        over = S > E * (1 + tol) + 0.0
        if over.any():
            i, j = [int(x) for x in np.argwhere(over)[0]]
            fails.append(dict(clause="sum_le", what=f"partitions add to {S[i, j]!r} > spectrum {E[i, j]!r} at bin ({i},{j})"))
        kept = [hs_rad(out[p], freq, dirs) for p in range(heads, K)]
        if kept and not bad.any() and not multi.any():
            D = np.where(S == 0, E, 0.0)
            kmin = min(kept)
            sc = max(max(kept), 1e-300)
            for k in range(1, nparts + 1):
                piece = np.where(wclean == k, D, 0.0)
                if piece.any():
                    r = hs_rad(piece, freq, dirs)
                    if r > kmin + ktol * sc:
                        fails.append(dict(clause="dropped_smallest",
                                          what=f"basin {k} was dropped with (Hs/4)^2={r!r} although a kept swell has only {kmin!r}"))
                        break
    # 5 wind sea first
    if method in (1, 2):
        if mask_amb:
            amb += 1
            ws_amb = True
        else:
            wsset = []
            near = False
            for k in range(1, nparts + 1):
                sel = wclean == k
                den = float(E[sel].sum())
                num = float(E[sel & mask].sum())
                if den == 0:
                    continue
                frac = num / den
                # a fraction of exactly 0 (no wind-sea energy at all) is computed exactly in any float type
                if abs(frac - wscut) <= tolws and (tolws >= 1e-10 or frac != wscut) and num != 0:
                    near = True
                if frac > wscut:
                    wsset.append(k)
            if near:
                amb += 1
                ws_amb = True
            else:
                inws = np.isin(wclean, wsset)
                exp0 = np.where(inws, E, 0.0)
                if K >= 1 and not eq(out[0], exp0, tol):
                    fails.append(dict(clause="windsea_rule", what=f"partition 0 is not the union of the basins {wsset} whose wind-sea fraction exceeds {wscut}"))
                if method == 2 and K >= 2:
                    exp1 = np.where(mask & (wclean >= 1) & ~inws, E, 0.0)
                    if not eq(out[1], exp1, tol):
                        fails.append(dict(clause="windsea_rule2", what="partition 1 is not the wind-sea bins of the remaining basins"))
                    if K > 2 and (out[2:] != 0)[:, mask].any():
                        fails.append(dict(clause="windsea_rule2", what="a swell partition of PTM2 keeps energy in a wind-sea bin"))
    # 6 swells in non-increasing Hs
    r = [hs_rad(out[p], freq, dirs) for p in range(heads, K)]
    if r:
        sc = max(max(r), 1e-300)
        for i in range(len(r) - 1):
            if r[i + 1] > r[i] + ktol * sc:
                fails.append(dict(clause="swells_sorted", what=f"swell {i + 1} has (Hs/4)^2={r[i + 1]!r} > swell {i} with {r[i]!r}"))
                break
    return fails, amb, ws_amb


def basin_hs_ties(E, w, freq, dirs):
    """True when two detected basins have Hs equal to within float32 summation noise."""
    from wavespectra.core import npstats

    ks = [k for k in range(1, int(np.max(w)) + 1)]
    hs = sorted(float(npstats.hs(np.where(w == k, E, 0.0), freq, dirs)) for k in ks)
    return any(b - a <= 2e-6 * max(b, 1e-300) for a, b in zip(hs, hs[1:]))


def same_parts(a, b, heads, tol):
    """Same partitions up to the order of the swells (which the Hs clause constrains separately)."""
    a = np.asarray(a, dtype=float)
    b = np.asarray(b, dtype=float)
    if a.shape != b.shape:
        return False
    if a.ndim != 3:
        return True
    return all(eq(a[h], b[h], tol) for h in range(min(heads, a.shape[0]))) and \
        sorted(x.tobytes() for x in a[heads:]) == sorted(x.tobytes() for x in b[heads:])


def classify(f, E, kin, wclean, ihmax=None):
    """Trigger predicate for an oracle failure (Appendix D); None = unclassified."""
    if f["clause"] == "sum_exact":
        nparts = int(wclean.max()) if wclean.size else 0
        if nparts == 0 and float(kin.max()) - float(kin.min()) < 1e-9 and np.asarray(E).any():
            return "constant_nonzero_spectrum"
        if nparts > 0 and (wclean == 0).any() and not (f["lost"] & (wclean != 0)).any():
            # The known finding is the THICK watershed zone of the unmodified algorithm (five clean-up sweeps).  It is
            # recognised precisely: the reference transliteration of the unmodified specpart.c must leave exactly the
            # same bins at 0 for the same float32 input; any other label-0 bin is a different defect.
            if ihmax is None:
                return "wshed_label0_bins"
            from ..ref_specpart import partition_py

            ref, _ = partition_py(np.asarray(kin, dtype=np.float32), int(ihmax))
            if np.array_equal(np.asarray(ref) == 0, np.asarray(wclean) == 0):
                return "wshed_label0_bins"
            return "label0_bins_not_explained_by_five_sweeps"
    return None


# ------------------------------------------------------------------------------------------------
# generators
# ------------------------------------------------------------------------------------------------
def gen_field(rng, nf, nd, exact):
    kind = rng.choice(["blobs", "blobs", "multi", "multi", "twins", "plateau", "ties", "sparse", "single", "monoup", "monodown",
                       "noisy", "zero", "const", "ridge", "corridor"])
    if kind == "corridor" and (nf < 9 or nd < 4):
        kind = "blobs"
    if kind == "noisy" and nf * nd > 160:
        kind = "multi"
    if kind == "multi":
        E = np.zeros((nf, nd))
        for _ in range(rng.randint(2, 5)):
            i0, j0 = rng.randrange(nf), rng.randrange(nd)
            sf, sd = rng.uniform(0.6, 2.0), rng.uniform(0.6, max(0.8, nd / 8))
            amp = rng.choice([1, 2, 4, 8, 16, 64])
            ii = np.arange(nf)[:, None]
            jj = np.arange(nd)[None, :]
            dj = np.minimum(np.abs(jj - j0), nd - np.abs(jj - j0))
            E += amp * np.exp(-((ii - i0) / sf) ** 2 - (dj / sd) ** 2)
    elif kind == "twins":
        # two or three identical blobs: exactly equal Hs when the grid allows (ties in the sort)
        E = np.zeros((nf, nd))
        i0 = rng.randrange(nf)
        n = rng.choice([2, 3])
        for t in range(n):
            j0 = (t * nd) // n
            for di in (-1, 0, 1):
                for dj in (-1, 0, 1):
                    if 0 <= i0 + di < nf:
                        E[i0 + di, (j0 + dj) % nd] = max(E[i0 + di, (j0 + dj) % nd], 4.0 / (1 + abs(di) + abs(dj)))
    elif kind == "corridor":
        # two peaks diagonally adjacent to the head of a one-bin-wide descending corridor on a flat floor: the watershed line
        # runs down the corridor and over the floor, thicker than the five clean-up sweeps resolve (label 0 bins remain)
        E = np.full((nf, nd), float(rng.choice([0, 0, 1])))
        c = rng.randrange(nd)
        top = float(nf + 24)
        E[0, (c - 1) % nd] = top
        E[0, (c + 1) % nd] = top
        for r in range(1, nf):
            E[r, c] = top - r
        if rng.random() < 0.5:
            E = E[::-1].copy()
    elif kind == "ridge":
        # two basins separated by a broad flat saddle (thick watershed lines)
        E = np.ones((nf, nd))
        E[0, :] = 5
        E[-1, :] = 5
        if nf > 4:
            E[1, :] = 3
            E[-2, :] = 3
        E[:, rng.randrange(nd)] += rng.choice([0, 1])
    else:
        E, kind = gen.gen_spectrum(rng, nf, nd, kind=kind, exact=exact)
    if exact:
        E = np.round(E * 64) / 64
    else:
        E = E * rng.choice([1e-3, 1.0, 1.0, 250.0])
        E[E < 1e-6 * (E.max() if E.size else 0)] = 0.0
    if rng.random() < 0.12:
        # calm-sea magnitudes (exact power-of-two scaling): the spectrum is far from constant relative to its own size
        E = E * 2.0 ** -rng.randint(22, 29)
        kind += ":tiny"
    return E, kind


def blur(E):
    """A 3x3 running mean (circular in direction, edge-replicated in frequency): a stand-in smoothed spectrum."""
    P = np.concatenate([E[:1], E, E[-1:]], axis=0)
    acc = np.zeros_like(E)
    for di in (0, 1, 2):
        for dj in (-1, 0, 1):
            acc += np.roll(P[di:di + E.shape[0]], dj, axis=1)
    return acc / 9.0


def gen_wind(rng):
    wspd = rng.choice([0.0, 3.0, 8.0, 12.5, 20.0, 40.0]) if rng.random() < 0.5 else rng.uniform(0, 40)
    wdir = rng.choice([0.0, 45.0, 200.0, 359.0]) if rng.random() < 0.3 else rng.uniform(0, 360)
    dpt = rng.choice([5.0, 20.0, 100.0, 1000.0]) if rng.random() < 0.6 else rng.uniform(3, 300)
    return float(wspd), float(wdir), float(dpt)


def pick_count(rng, nparts):
    c = rng.choice(["none", "zero", "less", "equal", "more", "more", "default"])
    if c == "none":
        return None, c
    if c == "zero":
        return 0, c
    if c == "less":
        return max(0, nparts - rng.randint(1, 2)), c if nparts > 0 else "equal"
    if c == "equal":
        return nparts, c
    if c == "more":
        return nparts + rng.randint(1, 3), c
    return 3, ("less" if 3 < nparts else "equal" if 3 == nparts else "more")


def tolerances(dtype, exact, out_dtype=None):
    """(value tolerance, wind-sea fraction margin, sort-key tie margin)."""
    f32 = dtype == "float32"
    tol = 1e-12 if (out_dtype or dtype) == "float64" else 2e-6
    if f32 and (out_dtype or dtype) == "float32":
        tol = 1e-7  # float32 in, float32 out: plain copies
    tolws = 2e-4 if f32 else (1e-12 if exact else 1e-9)
    # Hs computed from float32-cast outputs carries the cast's rounding even when the spectrum is float64
    ktol = 1e-4 if f32 else (1e-9 if (out_dtype or dtype) == "float64" else 1e-6)
    return tol, tolws, ktol


def model_line(method, freq, dirs, E, w, mask, wscut, req):
    nd = E.shape[1]
    return " ".join(["assemble", str(method), enc_v(freq), enc_v(dirs), enc_m(E, nd), enc_im(w, nd),
                     enc_im(np.asarray(mask).astype(int), nd), enc(wscut), "none" if req is None else str(int(req))])


def arr_desc(a):
    return np.asarray(a, dtype=float).tolist()


# ------------------------------------------------------------------------------------------------
# one direct np_ptm* case (plus layout variants)
# ------------------------------------------------------------------------------------------------
def run_np(fn, method, sp, sm, freq, dirs, wind, agefac, wscut, req, ihmax):
    if method == 3:
        return fn(sp, sm, freq, dirs, req, ihmax)
    wspd, wdir, dpt = wind
    return fn(sp, sm, freq, dirs, wspd, wdir, dpt, agefac, wscut, req, ihmax)


def layout_variant(rng, a):
    kind = rng.choice(["fortran", "fortran", "transposed_view", "strided"])
    if kind == "fortran":
        return np.asfortranarray(a), kind
    if kind == "transposed_view":
        return np.ascontiguousarray(a.T).T, kind
    big = np.zeros((a.shape[0] * 2, a.shape[1] * 3), dtype=a.dtype)
    big[::2, ::3] = a
    return big[::2, ::3], kind


def np_inputs(rng, icase, corpus=None):
    """Generate the inputs of a direct case as a plain dict (also the replay format)."""
    if corpus is not None:
        return corpus
    exact = rng.random() < 0.55
    nf = rng.choice([1, 2, 3, 4, 5, 6, 8, 12, 20, 30])
    nd = rng.choice([1, 2, 3, 4, 8, 12, 24, 36] if exact else [1, 2, 5, 7, 11, 24, 36])
    if nf * nd == 1:
        nd = 4
    freq, fkind = gen.gen_freq(rng, nf, exact=exact)
    dirs, order = gen.gen_dirs(rng, nd, order=rng.choice(["sorted", "sorted", "rotated", "reversed", "seam"]), exact=exact)
    E, kind = gen_field(rng, nf, nd, exact)
    dtype = "float64" if rng.random() < 0.6 else "float32"
    smooth = rng.random() < 0.3
    wspd, wdir, dpt = gen_wind(rng)
    return dict(path="np", icase=icase, exact=exact, nf=nf, nd=nd, freq=freq.tolist(), dirs=dirs.tolist(), order=order, fkind=fkind,
                kind=kind, E=E.tolist(), dtype=dtype, smooth=smooth, wspd=wspd, wdir=wdir, dpt=dpt,
                agefac=rng.choice([1.7, 1.7, 1.0, 2.5]), wscut=rng.choice([0.3333, 0.3333, 0.0, 0.5, 0.9, 1.0]),
                ihmax=rng.choice([1, 2, 3, 5, 10, 50, 100, 100, 200]), methods=rng.sample([1, 2, 3], rng.choice([1, 2, 3])),
                count_seed=rng.randrange(1 << 30), variant=rng.random() < 0.3, variant_seed=rng.randrange(1 << 30), req=None, req_given=False)


def make_np_case(inp):
    """Run one direct case. Returns a list of (request line | 'CRASH', ctx)."""
    import random

    fns, spy, real = setup()
    out = []
    exact, dtype = inp["exact"], inp["dtype"]
    freq = np.array(inp["freq"], dtype=float)
    dirs = np.array(inp["dirs"], dtype=float)
    E64 = np.array(inp["E"], dtype=float)
    sp = np.ascontiguousarray(E64.astype(dtype))
    Ev = sp.astype(float)  # the values the implementation sees
    sm = np.ascontiguousarray(blur(Ev).astype(dtype)) if inp["smooth"] else sp
    ihmax = inp["ihmax"]
    kin, wclean = watershed_clean(real, sm, ihmax)
    nparts = int(wclean.max())
    wind = (inp["wspd"], inp["wdir"], inp["dpt"])
    mask, mask_amb = windsea_pub(freq, dirs, *wind, inp["agefac"])
    crng = random.Random(inp["count_seed"])
    vrng = random.Random(inp["variant_seed"])
    tol, tolws, ktol = tolerances(dtype, exact)
    nws = None
    for method in inp["methods"]:
        if inp.get("req_given"):
            req, cclass = inp["req"], "given"
        else:
            req, cclass = pick_count(crng, nparts)
        layouts = [("C", sp, sm)]
        if inp["variant"]:
            vs, vk = layout_variant(vrng, sp)
            vm = vs if sm is sp else layout_variant(random.Random(inp["variant_seed"]), sm)[0]
            layouts.append((vk, vs, vm))
        base_fail_clauses = set()
        base_out = None
        for lname, a_sp, a_sm in layouts:
            desc = dict(path="np", method=NAMES[method], layout=lname, nf=inp["nf"], nd=inp["nd"], kind=inp["kind"], dtype=dtype,
                        exact=exact, smooth=inp["smooth"], ihmax=ihmax, req=req, wscut=inp["wscut"], agefac=inp["agefac"],
                        wind=list(wind), nparts=nparts, order=inp["order"], icase=inp["icase"])
            case = dict(desc, inputs=dict(inp, req=req, req_given=True, methods=[method]))
            spy.calls.clear()
            try:
                res = run_np(fns[method], method, a_sp, a_sm, freq, dirs, wind, inp["agefac"], inp["wscut"], req, ihmax)
            except Exception as e:  # noqa
                out.append(("CRASH", dict(what=f"{NAMES[method]}: {type(e).__name__}: {e}", case=case)))
                continue
            res = np.asarray(res)
            calls = list(spy.calls)
            kin_ok = len(calls) == 1 and calls[0]["values"].shape == kin.shape and np.array_equal(calls[0]["values"], kin) \
                and calls[0]["ihmax"] == ihmax and calls[0]["dtype"] == "float32"
            noncontig = bool(calls) and not calls[0]["c_contig"]
            w_spy = calls[0]["w"] if calls and calls[0]["w"].shape == Ev.shape else wclean
            fails, amb, ws_amb = oracle(method, res, Ev, freq, dirs, wclean, mask, mask_amb, inp["wscut"], req, tol, tolws, ktol)
            ofails = []
            for f in fails:
                trig = classify(f, Ev, kin, wclean, ihmax)
                if trig is None and noncontig and f["clause"] not in base_fail_clauses and lname != "C":
                    trig = "noncontiguous_kernel_input"
                ofails.append(dict(clause=f["clause"], what=f["what"], trigger=trig))
            if lname == "C":
                base_fail_clauses = {f["clause"] for f in fails}
                base_out = res
            else:
                # layout independence: same labelled values => same partitions (swells as a multiset)
                same = base_out is not None and same_parts(res, base_out, HEADS[method], tol)
                if base_out is not None and (ws_amb or (not same and basin_hs_ties(Ev, wclean, freq, dirs))):
                    # near-equal Hs of two basins: the sort order (and which ones survive truncation) may legitimately
                    # depend on the summation order of the layout
                    amb += 1
                elif base_out is not None and not same:
                    ofails.append(dict(clause="layout", what=f"{NAMES[method]} on a {lname} array differs from the result on the "
                                                                 f"C-contiguous array holding the same values",
                                       trigger="noncontiguous_kernel_input" if noncontig else None))
            ctx = dict(desc=desc, case=case, method=method, E=Ev, out=res, req=req, exact=exact, dtype=dtype, out_dtype=str(res.dtype),
                       kin_ok=kin_ok, noncontig=noncontig, ofails=ofails, oamb=amb, mask_amb=mask_amb, nparts=nparts, cclass=cclass,
                       label0=bool(nparts > 0 and (wclean == 0).any()), tol=tol, tolws=tolws, ktol=ktol)
            out.append((model_line(method, freq, dirs, Ev, w_spy, mask, inp["wscut"], req), ctx))
    return out


# ------------------------------------------------------------------------------------------------
# one accessor case
# ------------------------------------------------------------------------------------------------
def acc_inputs(rng, icase):
    exact = rng.random() < 0.5
    nf = rng.choice([3, 4, 5, 6, 8, 12, 20])
    nd = rng.choice([4, 8, 12, 24, 36])
    freq, fkind = gen.gen_freq(rng, nf, exact=True)
    smooth = rng.random() < 0.35
    dirs, order = gen.gen_dirs(rng, nd, order="sorted" if smooth else rng.choice(["sorted", "sorted", "rotated", "reversed", "seam"]), exact=True)
    names = rng.sample(["time", "site", "lat"], rng.choice([0, 1, 1, 2, 2]))
    shape = [rng.randint(1, 3) for _ in names]
    npos = int(np.prod(shape)) if shape else 1
    Es, kinds = [], []
    for _ in range(npos):
        E, kind = gen_field(rng, nf, nd, exact)
        Es.append(E.tolist())
        kinds.append(kind)
    winds = [gen_wind(rng) for _ in range(npos)]
    core = ["freq", "dir"]
    method = rng.choice([1, 2, 3])
    perm = names + core
    layout = rng.choice(["standard", "standard", "lazy_transposed", "stored_permuted"])
    if layout != "standard":
        perm = list(perm)
        rng.shuffle(perm)
    return dict(path="acc", icase=icase, exact=exact, nf=nf, nd=nd, freq=freq.tolist(), dirs=dirs.tolist(), order=order, fkind=fkind,
                names=names, shape=shape, E=Es, kinds=kinds, winds=winds, dtype="float64" if rng.random() < 0.5 else "float32",
                smooth=smooth, fw=rng.choice([3, 3, 5]), dw=rng.choice([3, 3, 5]), agefac=rng.choice([1.7, 1.7, 1.2]),
                wscut=rng.choice([0.3333, 0.3333, 0.1, 0.6]), ihmax=rng.choice([5, 20, 100, 100, 200]),
                method=method, req=rng.choice([1, 2, 3, 3, 5, 8] if method == 3 else [0, 1, 2, 3, 3, 5, 8]), layout=layout, perm=perm,
                as_dataset=rng.random() < 0.3, wind_subset=rng.random() < 0.2, pos_seed=rng.randrange(1 << 30))


def build_da(inp, stored_order):
    import xarray as xr

    names, shape = inp["names"], inp["shape"]
    arr = np.array(inp["E"], dtype=float).reshape(tuple(shape) + (inp["nf"], inp["nd"])).astype(inp["dtype"])
    coords = {n: np.arange(k, dtype=float) for n, k in zip(names, shape)}
    coords["freq"] = np.array(inp["freq"])
    coords["dir"] = np.array(inp["dirs"])
    dims = names + ["freq", "dir"]
    da = xr.DataArray(arr, dims=dims, coords=coords, name="efth")
    if stored_order is not None and list(stored_order) != dims:
        t = da.transpose(*stored_order)
        da = xr.DataArray(np.ascontiguousarray(t.values), dims=list(stored_order), coords=coords, name="efth")
    return da


def call_acc(inp, da, wspd, wdir, dpt):
    obj = da.to_dataset(name="efth") if inp["as_dataset"] else da
    part = obj.spec.partition
    kw = dict(smooth=inp["smooth"], freq_window=inp["fw"], dir_window=inp["dw"], ihmax=inp["ihmax"])
    if inp["method"] == 3:
        r = part.ptm3(parts=inp["req"], **kw)
    elif inp["method"] == 1:
        r = part.ptm1(wspd, wdir, dpt, agefac=inp["agefac"], wscut=inp["wscut"], swells=inp["req"], **kw)
    else:
        r = part.ptm2(wspd, wdir, dpt, agefac=inp["agefac"], wscut=inp["wscut"], swells=inp["req"], **kw)
    return r.compute() if hasattr(r, "compute") else r


def make_acc_case(inp):
    import random

    import xarray as xr

    fns, spy, real = setup()
    from wavespectra.core.utils import smooth_spec

    out = []
    names, shape = inp["names"], inp["shape"]
    method, req = inp["method"], inp["req"]
    freq = np.array(inp["freq"])
    dirs = np.array(inp["dirs"])
    layout = inp["layout"]
    da_std = build_da(inp, None)
    if layout == "stored_permuted":
        da = build_da(inp, inp["perm"])
    elif layout == "lazy_transposed":
        da = da_std.transpose(*inp["perm"])
    else:
        da = da_std
    wdims = list(names)
    W = np.array(inp["winds"], dtype=float).reshape(tuple(shape) + (3,))
    wcoords = {n: np.arange(k, dtype=float) for n, k in zip(names, shape)}
    if inp["wind_subset"] and len(names) == 2:
        # wind given along the first extra dimension only (broadcast over the other)
        wdims = names[:1]
        W = np.broadcast_to(W[:, :1, :], W.shape).copy()
        wsp = xr.DataArray(W[:, 0, 0], dims=wdims, coords={names[0]: wcoords[names[0]]}, name="wspd")
        wdi = xr.DataArray(W[:, 0, 1], dims=wdims, coords={names[0]: wcoords[names[0]]}, name="wdir")
        dep = xr.DataArray(W[:, 0, 2], dims=wdims, coords={names[0]: wcoords[names[0]]}, name="dpt")
    else:
        wsp = xr.DataArray(W[..., 0], dims=wdims, coords=wcoords, name="wspd")
        wdi = xr.DataArray(W[..., 1], dims=wdims, coords=wcoords, name="wdir")
        dep = xr.DataArray(W[..., 2], dims=wdims, coords=wcoords, name="dpt")
    desc = dict(path="acc", method=NAMES[method], layout=layout, stored_dims=list(da.dims), nf=inp["nf"], nd=inp["nd"], kinds=inp["kinds"][:3],
                dtype=inp["dtype"], exact=inp["exact"], smooth=inp["smooth"], windows=[inp["fw"], inp["dw"]], ihmax=inp["ihmax"], req=req,
                wscut=inp["wscut"], agefac=inp["agefac"], order=inp["order"], dataset=inp["as_dataset"], icase=inp["icase"])
    case0 = dict(desc, inputs=inp)
    spy.calls.clear()
    try:
        res = call_acc(inp, da, wsp, wdi, dep)
        calls = list(spy.calls)
        ref = None
        if layout != "standard":
            spy.calls.clear()
            ref = call_acc(inp, da_std, wsp, wdi, dep)
        sm_all = smooth_spec(da, inp["fw"], inp["dw"]) if inp["smooth"] else da
        sm_all = sm_all.compute() if hasattr(sm_all, "compute") else sm_all
        sm_ref = None
        if ref is not None and inp["smooth"]:
            sm_ref = smooth_spec(da_std, inp["fw"], inp["dw"])
            sm_ref = (sm_ref.compute() if hasattr(sm_ref, "compute") else sm_ref).transpose(*names, "freq", "dir")
    except Exception as e:  # noqa
        return [("CRASH", dict(what=f"{NAMES[method]} accessor: {type(e).__name__}: {e}", case=case0))]
    spy.calls.clear()
    lead = list(names)
    res_t = res.transpose("part", *lead, "freq", "dir")
    ref_t = ref.transpose("part", *lead, "freq", "dir") if ref is not None else None
    sm_t = sm_all.transpose(*lead, "freq", "dir")
    meta_bad = []
    if list(res.dims)[0] != "part" or not np.array_equal(res["part"].values, np.arange(res.sizes["part"])):
        meta_bad.append("part dimension is not first / not labelled 0..n-1")
    if not (np.array_equal(res["freq"].values, freq) and np.array_equal(res["dir"].values, dirs)):
        meta_bad.append("freq/dir coordinates changed")
    positions = list(np.ndindex(*shape)) if shape else [()]
    random.Random(inp["pos_seed"]).shuffle(positions)
    tol, tolws, ktol = tolerances(inp["dtype"], inp["exact"], out_dtype=str(res.dtype))
    for pos in positions[:3]:
        Ev = np.asarray(da_std.values[pos], dtype=float)
        o = np.asarray(res_t.values[(slice(None),) + pos])
        smv = np.asarray(sm_t.values[pos])
        kin, wclean = watershed_clean(real, smv, inp["ihmax"])
        nparts = int(wclean.max())
        wind = tuple(float(x) for x in W[pos]) if shape else tuple(float(x) for x in W.reshape(3))
        mask, mask_amb = windsea_pub(freq, dirs, *wind, inp["agefac"])
        rec = [c for c in calls if c["values"].shape == kin.shape and np.array_equal(c["values"], kin) and c["ihmax"] == inp["ihmax"]]
        kin_ok = bool(rec) and rec[0]["dtype"] == "float32"
        noncontig = bool(rec) and not rec[0]["c_contig"]
        w_spy = rec[0]["w"] if rec else wclean
        fails, amb, ws_amb = oracle(method, o, Ev, freq, dirs, wclean, mask, mask_amb, inp["wscut"], req, tol, tolws, ktol)
        ofails = []
        for f in fails:
            trig = classify(f, Ev, kin, wclean, inp["ihmax"])
            if trig is None and noncontig and layout == "stored_permuted":
                rf, _, _ = oracle(method, np.asarray(ref_t.values[(slice(None),) + pos]), Ev, freq, dirs, wclean, mask, mask_amb,
                               inp["wscut"], req, tol, tolws, ktol)
                if f["clause"] not in {x["clause"] for x in rf}:
                    trig = "noncontiguous_kernel_input"
            ofails.append(dict(clause=f["clause"], what=f["what"], trigger=trig))
        same_kin = sm_ref is None or np.array_equal(np.asarray(sm_ref.values[pos]).astype(np.float32), kin)
        if ref_t is not None and (not same_kin or ws_amb):
            amb += 1  # the smoothing itself rounded differently for the two storage orders: not comparable
        if ref_t is not None and same_kin and not ws_amb:
            r0 = np.asarray(ref_t.values[(slice(None),) + pos])
            same = same_parts(o, r0, HEADS[method], tol)
            if not same and basin_hs_ties(Ev, wclean, freq, dirs):
                amb += 1  # basins of equal Hs: which of them is kept/dropped depends on float32 summation order
            elif not same:
                ofails.append(dict(clause="layout", what=f"{NAMES[method]} on a dataset stored as {list(da.dims)} differs from the result for the "
                                                             f"same labelled values stored as {list(da_std.dims)}",
                                   trigger="noncontiguous_kernel_input" if noncontig else None))
        for mb in meta_bad:
            ofails.append(dict(clause="metadata", what=mb, trigger=None))
        posd = {n: int(i) for n, i in zip(names, pos)}
        d2 = dict(desc, pos=posd, wind=list(wind), nparts=nparts)
        ctx = dict(desc=d2, case=dict(case0, pos=posd), method=method, E=Ev, out=o, req=req, exact=inp["exact"], dtype=inp["dtype"],
                   out_dtype=str(res.dtype), kin_ok=kin_ok, noncontig=noncontig, ofails=ofails, oamb=amb, mask_amb=mask_amb, nparts=nparts,
                   cclass="less" if req < nparts else "equal" if req == nparts else "more",
                   label0=bool(nparts > 0 and (wclean == 0).any()), tol=tol, tolws=tolws, ktol=ktol)
        out.append((model_line(method, freq, dirs, Ev, w_spy, mask, inp["wscut"], req), ctx))
    return out


def make_case(args):
    seed, icase, path = args
    rng = case_rng("C03", seed, f"{path}{icase}")
    if path == "np":
        return make_np_case(np_inputs(rng, icase))
    return make_acc_case(acc_inputs(rng, icase))


# ------------------------------------------------------------------------------------------------
# corpus: witnesses of the findings (run first)
# ------------------------------------------------------------------------------------------------
def corpus_cases():
    base = dict(path="np", exact=True, order="sorted", fkind="uniform", dtype="float64", smooth=False, wspd=10.0, wdir=0.0, dpt=50.0,
                agefac=1.7, wscut=0.3333, ihmax=100, methods=[1, 2, 3], count_seed=1, variant=False, variant_seed=1, req=3, req_given=True)
    f7 = [0.05 + 0.03 * i for i in range(7)]
    d7 = [float(x) for x in np.arange(7) * (360.0 / 7)]
    cases = [dict(base, icase="corpus-constant-7x7", nf=7, nd=7, freq=f7, dirs=d7, kind="const", E=(np.full((7, 7), 3.0)).tolist())]
    # two peaks, Fortran-ordered input (finding F03)
    E = np.zeros((6, 8))
    E[1, 1] = 8
    E[1, 2] = 4
    E[4, 5] = 6
    E[4, 6] = 3
    cases.append(dict(base, icase="corpus-fortran-6x8", nf=6, nd=8, freq=[0.05 + 0.04 * i for i in range(6)],
                      dirs=[45.0 * j for j in range(8)], kind="sparse", E=E.tolist(), variant=True, variant_seed=3))
    lev = np.full((16, 4), 40.0)
    lev[0, 0] = lev[0, 2] = 0
    for r in range(1, 16):
        lev[r, 1] = r
    cases.append(dict(base, icase="corpus-thick-watershed-16x4", nf=16, nd=4, freq=[0.04 + 0.02 * i for i in range(16)],
                      dirs=[0.0, 90.0, 180.0, 270.0], kind="corridor", E=(40.0 - lev).tolist(), req=4))
    p = ROOT / "corpus" / "C03"
    if p.is_dir():
        for fp in sorted(p.glob("*.json")):
            try:
                c = json.loads(fp.read_text())
                cases.append(dict(base, **c, icase="corpus-" + fp.stem))
            except Exception:
                pass
    return cases


# ------------------------------------------------------------------------------------------------
# model vs implementation
# ------------------------------------------------------------------------------------------------
def compare(ck, ctx, mo):
    """Bin-for-bin comparison of the implementation's partitions with the model's; ties in the sort key as sets."""
    op = ctx["desc"]["method"]
    case = ctx["case"]
    method, E, out, req = ctx["method"], ctx["E"], ctx["out"], ctx["req"]
    heads = HEADS[method]
    tol, tolws, ktol = ctx["tol"], ctx["tolws"], ctx["ktol"]
    if int(mo["consistent"]) != 1 or int(mo["disjoint"]) != 1:
        ck.disagree(op, f"model output violates its own invariants: consistent={mo['consistent']} disjoint={mo['disjoint']}", case)
        return
    if not ctx["kin_ok"]:
        ck.disagree(op, "the C routine was not called with float32(smoothed spectrum) and the requested ihmax", case,
                    trigger=None)
        return
    # ambiguity of the wind-sea classification in floating point
    if method in (1, 2):
        if ctx["mask_amb"]:
            ck.ambiguous += 1
            return
        for num, den in zip(mo["num"], mo["den"]):
            if den != 0 and num != 0:
                d = abs(float(num / den) - ctx["desc"]["wscut"])
                if d <= tolws and (tolws >= 1e-10 or num / den != Fraction(*float(ctx["desc"]["wscut"]).as_integer_ratio())):
                    ck.ambiguous += 1
                    return
    K = out.shape[0] if out.ndim == 3 else 0
    nout = int(mo["nout"])
    if K != nout:
        ck.disagree(op, f"implementation returned {K} partitions, model {nout}", case)
        return
    out = np.asarray(out, dtype=float).reshape((K,) + E.shape)
    assign = np.array(mo["assign"]).reshape(E.shape)
    M = [np.where(assign == p, E, 0.0) for p in range(nout)]
    for h in range(heads):
        if not eq(out[h], M[h], tol):
            bad = np.argwhere(np.abs(out[h] - M[h]) > tol * np.abs(M[h]))
            ck.disagree(op, f"wind-sea partition {h} differs from the model at {len(bad)} bins, first {bad[0].tolist()}: "
                            f"impl={out[h][tuple(bad[0])]!r} model={M[h][tuple(bad[0])]!r}", case)
            return
    if all(eq(out[p], M[p], tol) for p in range(heads, K)):
        return
    ck.count("tie_aware_comparisons")
    keys = mo["keys"]
    okeys = mo["okeys"]
    sassign = np.array(mo["sassign"]).reshape(E.shape)
    S = [np.where(sassign == j, E, 0.0) for j in range(len(keys))]
    sc = float(max(keys)) if keys else 0.0
    grp = []
    g = 0
    for j in range(len(keys)):
        if j > 0 and abs(float(keys[j - 1]) - float(keys[j])) > ktol * sc:
            g += 1
        grp.append(g)
    npad = max(0, req - len(keys)) if req is not None else 0
    used = set()
    for p in range(heads, K):
        if p >= K - npad:
            if out[p].any():
                ck.disagree(op, f"partition {p} should be zero padding but holds energy", case)
                return
            continue
        js = [j for j in range(len(keys)) if keys[j] == okeys[p]]
        if not js:
            ck.disagree(op, f"harness: model partition {p} has no slot with its key", case)
            return
        gp = grp[js[0]]
        cand = [j for j in range(len(keys)) if grp[j] == gp and j not in used and eq(out[p], S[j], tol)]
        if not cand:
            ck.disagree(op, f"swell partition {p} is none of the model's partitions with (nearly) the same Hs "
                            f"(model key {float(okeys[p])!r}, tie group of {sum(1 for x in grp if x == gp)})", case)
            return
        used.add(cand[0])
    ck.count("ties_resolved_as_sets")


def replay(path):
    """Re-run the cases of a replay file against the current tree and print the verdicts."""
    obj = json.loads(open(path).read())
    items = obj.get("failures") or obj.get("disagreements") or []
    rc = 0
    for it in items:
        inp = it["case"].get("inputs")
        if not inp:
            print("replay: case without inputs:", it.get("what"))
            continue
        res = make_np_case(inp) if inp["path"] == "np" else make_acc_case(inp)
        lines = [r for r, _ in res if r != "CRASH"]
        resps = run_driver(lines) if lines else []
        k = 0
        for r, ctx in res:
            if r == "CRASH":
                print("replay: CRASH", ctx["what"])
                rc = 1
                continue
            st, mo = parse_resp(resps[k])
            k += 1
            ck = Check("C03")
            compare(ck, ctx, mo) if st == "ok" else None
            print(f"replay: {ctx['desc'].get('method')} layout={ctx['desc'].get('layout')} pos={ctx['desc'].get('pos')} "
                  f"model_vs_impl={'DISAGREE ' + ck.disagreements[0]['what'] if ck.disagreements else 'agree'}; "
                  f"oracle={[(f['clause'], f['trigger']) for f in ctx['ofails']] or 'ok'}")
            if ck.disagreements or ctx["ofails"]:
                rc = 1
    return rc


def run_check():
    if os.environ.get("VERIF_REPLAY"):
        setup()
        return replay(os.environ["VERIF_REPLAY"])
    ck = Check("C03")
    ck.extra["rule"] = ("generated spectra (multi-modal blobs, identical twin peaks, plateaus, ties, sparse, noisy, monotone, ridges, zero, "
                        "constant) on random grids, through np_ptm1/2/3 (C-contiguous + Fortran/strided variants) and through the accessor on "
                        "multi-dimensional datasets; signature = (nf class, nd class, kind, dtype, stream, path, layout, method, requested-vs-"
                        "detected class, detected-count class, smoothing); non-trivial = spectrum not all-zero and at least one basin detected")
    ck.do_audit()
    setup()
    quick = ck.tier == "quick"
    n_np = 1200 if quick else 24000
    n_acc = 240 if quick else 6000
    corpus = [make_np_case(np_inputs(None, inp["icase"], corpus=inp)) for inp in corpus_cases()]
    todo = [(ck.seed, i, "np") for i in range(n_np)] + [(ck.seed, i, "acc") for i in range(n_acc)]
    # interleave the two paths so that every batch has the same cost; batches bound the memory held by the parent
    todo.sort(key=lambda t: (t[1] * (n_np // max(n_acc, 1)) if t[2] == "acc" else t[1]))
    nbatch = 2500
    nfail = {}
    for b0 in range(0, len(todo), nbatch):
        results = (corpus if b0 == 0 else []) + pmap(make_case, todo[b0:b0 + nbatch])
        reqs, ctxs = [], []
        for res in results:
            for req, ctx in res:
                if req == "CRASH":
                    ck.fail(ctx["case"].get("method", "np_ptm"), "crash: " + ctx["what"], ctx["case"], "crash")
                else:
                    reqs.append(req)
                    ctxs.append(ctx)
        resps = run_driver(reqs)
        for ctx, resp in zip(ctxs, resps):
            d = ctx["desc"]
            op = d["method"]
            st, mo = parse_resp(resp)
            npc = ctx["nparts"]
            sig = gen.signature(d["nf"], d["nd"], d.get("kind") or "/".join(d.get("kinds", [])[:1]), d["dtype"], "exact" if ctx["exact"] else "float",
                                d["path"], d["layout"] if d["layout"] in ("C", "standard") else "variant", op, ctx["cclass"],
                                "0" if npc == 0 else "1" if npc == 1 else "2" if npc == 2 else "3+", d["smooth"])
            ck.case(sig, bool(ctx["E"].any()) and npc > 0, sample=dict(case={k: v for k, v in d.items()}, detected=npc))
            ck.count(f"path:{d['path']}")
            ck.count(f"method:{op}")
            ck.count(f"count:{ctx['cclass']}")
            ck.count(f"layout:{d['layout']}")
            if ctx["label0"]:
                ck.count("label0_bins_present")
            if ctx["noncontig"]:
                ck.count("kernel_input_not_c_contiguous")
            ck.ambiguous += ctx["oamb"]
            for f in ctx["ofails"]:
                kf = (f["clause"], f["trigger"])
                nfail[kf] = nfail.get(kf, 0) + 1
                # full inputs (replayable) for the first failures of each kind, the description only afterwards
                ck.fail(op, f"{f['clause']}: {f['what']}", ctx["case"] if nfail[kf] <= 25 else ctx["desc"], f["trigger"])
            if st != "ok":
                ck.disagree(op, f"model error {mo}", ctx["case"])
                continue
            ws = mo["ws"]
            ck.count("windsea_basins:" + ("none" if not any(ws) else "all" if all(ws) else "some"))
            # how often the hypotheses of the `_partial` conservation theorems hold on generated cases
            if ctx["req"] is None or ctx["req"] >= npc:
                ck.count("sum_exact_hypotheses:" + ("label0_bins" if ctx["label0"] else "no_basin" if npc == 0 else "hold"))
            compare(ck, ctx, mo)
    hist = {}
    for f in ck.oracle_failures:
        k = f"{f['what'].split(':')[0]}|{f['trigger']}"
        hist[k] = hist.get(k, 0) + 1
    ck.extra["oracle_failure_histogram"] = hist
    from ..common import log
    log("[C03] oracle failures by clause|trigger:", json.dumps(hist, sort_keys=True))
    ck.assumptions = ["the label map handed to the model is the one the real C routine returned to the implementation (recorded by a spy)",
                      "wave-age mask from the published rule; cases with a bin within 1e-9 of the boundary are ambiguous",
                      "wind-sea fraction within 1e-9 (float64) / 2e-4 (float32) of wscut: ambiguous; partitions with Hs within 1e-9 / 1e-4: compared as sets",
                      "float32 outputs of the accessor compared at 2e-6 relative"]
    return ck.finish()


if __name__ == "__main__":
    from ..common import main_wrapper

    main_wrapper(run_check)

"""C11 — writing a dataset and reading it back returns the same spectra (DESIGN §3 C11).

Real writer -> real reader for SWAN ASCII, Octopus, JSON, wavespectra netCDF (netCDF3 through scipy), WW3 netCDF and
Funwave on generated datasets; the read-back is compared (i) with the original at the format's numeric resolution
(the property's direct oracle, independent of the Lean model) and (ii) bin for bin with the Lean model's dec(enc x).
"""
import gzip
import json
import math
import os
import shutil
from fractions import Fraction

import numpy as np

from .. import gen
from ..common import (BUILD, Check, case_rng, enc, enc_iv, enc_o, enc_v, fr, import_ws, log, parse_resp, pmap, run_driver)

FORMATS = ["swan", "json", "netcdf", "ww3", "octopus", "funwave"]
EPS = 1e-9          # relative float64 slack
TIE = 1e-6          # near-tie margin (DESIGN §2.4)
PI = math.pi


# ------------------------------------------------------------------------------------------------
# encoding helpers
# ------------------------------------------------------------------------------------------------
def enc_om(a):
    """2-D array with NaN -> `m r c …`"""
    a = np.asarray(a, dtype=float)
    r, c = a.shape
    return ("m %d %d " % (r, c)) + " ".join(enc_o(float(x)) for x in a.ravel())


def tmpdir(tag):
    d = BUILD / "tmp" / f"c11_{os.getpid()}_{tag}"
    d.mkdir(parents=True, exist_ok=True)
    return d


# ------------------------------------------------------------------------------------------------
# generators
# ------------------------------------------------------------------------------------------------
def gen_times(rng, T, whole_minutes=False, min_step=1):
    import pandas as pd

    y = rng.randint(1971, 2035)
    start = pd.Timestamp(year=y, month=rng.randint(1, 12), day=rng.randint(1, 28), hour=rng.randint(0, 23),
                         minute=rng.randint(0, 59), second=0 if whole_minutes else rng.randint(0, 59))
    step = rng.choice([60, 600, 3600, 10800, 86400]) if whole_minutes else rng.choice([s for s in [1, 7, 60, 3600, 3601, 10800, 86400] if s >= min_step])
    return np.array([np.datetime64(start + pd.Timedelta(seconds=step * i), "ns") for i in range(T)])


def gen_spec(rng, nf, nd, kinds, exact, max_scale=4, min_scale=-8):
    """one (nf, nd) spectrum, energy spanning many orders of magnitude; returns (E, kind)"""
    kind = rng.choice(kinds)
    if kind == "nan":
        return np.full((nf, nd), np.nan), "nan"
    if kind == "zero":
        return np.zeros((nf, nd)), "zero"
    if kind == "wide":  # many orders of magnitude inside one spectrum
        E = np.array([[10.0 ** rng.uniform(-12, 0) for _ in range(nd)] for _ in range(nf)])
        k = "wide"
    else:
        E, k = gen.gen_spectrum(rng, nf, nd, kind=kind, exact=exact)
    scale = 10.0 ** rng.randint(min_scale, max_scale) if not exact else 2.0 ** rng.randint(-20, 12)
    E = E * scale
    return E, k


def gen_dataset(rng, fmt):
    """Dataset in the wavespectra convention within the documented scope of `fmt`. Returns (dset, desc)."""
    import xarray as xr

    exact = rng.random() < 0.4
    if fmt == "octopus":
        nf = rng.choice([2, 3, 4, 6, 9])
        nd = rng.choice([2, 3, 4, 6, 8, 12, 24, 36])
    elif fmt == "funwave":
        nf = rng.choice([1, 2, 3, 5, 8])
        nd = rng.choice([2, 3, 4, 8, 12, 16, 24])
    else:
        nf = rng.choice([1, 2, 3, 5, 8, 11])
        nd = rng.choice([1, 2, 3, 4, 8, 12, 16, 24])
    freq, fkind = gen.gen_freq(rng, nf, exact=exact)
    order = rng.choice(["sorted", "sorted", "rotated", "reversed", "seam"] + (["shuffled", "shuffled"] if fmt == "funwave" else []))
    if fmt == "octopus":  # whole-degree directions
        dd = 360 // nd
        start = rng.choice([0, 0, dd // 2, rng.randint(0, dd - 1)])
        base = np.array([float((start + j * dd) % 360) for j in range(nd)])
        base.sort()
        dirs = {"sorted": base, "rotated": np.roll(base, -rng.randint(1, max(1, nd - 2))) if nd > 2 else base,
                "reversed": base[::-1].copy(), "seam": np.roll(base, 1)}[order]
    else:
        dirs, order = gen.gen_dirs(rng, nd, order=order, exact=exact)
    kinds = ["blobs", "blobs", "noisy", "noisy", "sparse", "wide", "const", "zero", "nan", "ties"]
    max_scale = 3 if fmt == "netcdf" else 4
    if fmt == "funwave":
        nf = max(nf, 2)
        if len(freq) < 2:
            freq, fkind = gen.gen_freq(rng, nf, exact=exact)
        E, kind = gen_spec(rng, nf, nd, kinds, exact, max_scale)
        if np.isfinite(E).all() and E.any():  # amplitudes below 100 m: the %12.8f field has no separator
            amax = math.sqrt(2 * float(E.max()) * float(np.gradient(freq).max()) * gen.bin_width(dirs))
            if amax >= 50:
                E = E * (25.0 / amax) ** 2
        lead = rng.choice([(), (), ("time",), ("time", "site")])
        coords = {}
        if "time" in lead:
            coords["time"] = gen_times(rng, 1)
        if "site" in lead:
            coords["site"] = [rng.randint(0, 9)]
        coords["freq"] = freq
        coords["dir"] = dirs
        da = xr.DataArray(E.reshape((1,) * len(lead) + E.shape), dims=lead + ("freq", "dir"), coords=coords, name="efth")
        return da.to_dataset(), dict(fmt=fmt, nf=nf, nd=nd, fkind=fkind, order=order, kinds=[kind], layout="single", lead=list(lead),
                                     exact=exact)
    T = rng.choice([1, 1, 2, 3, 4, 5])
    times = gen_times(rng, T, whole_minutes=(fmt == "octopus" and rng.random() < 0.7), min_step=60 if fmt == "octopus" else 1)
    if fmt == "octopus":
        layout, ns = "station", 1
    elif fmt == "ww3":
        layout, ns = "station", rng.choice([1, 2, 3, 4])
    else:
        layout = rng.choice(["station", "station", "grid", "grid"])
        ns = rng.choice([1, 2, 3, 4, 5])
    dtype = "float64" if rng.random() < 0.8 else "float32"
    if layout == "station":
        style = rng.choice(["random", "random", "random", "column", "lattice"]) if fmt == "swan" else "random"
        if style == "random" or ns == 1:
            west = rng.random() < 0.35   # stations given in the [-180, 180) convention, some of them west of Greenwich
            lon = [round(rng.uniform(-180, 179.9) if west else rng.uniform(0, 359.9), rng.choice([0, 1, 3, 6, 9])) for _ in range(ns)]
            lat = [round(rng.uniform(-80, 80), rng.choice([0, 1, 3, 6, 9])) for _ in range(ns)]
        elif style == "column":  # same longitude, distinct latitudes in any order
            lon = [float(rng.randint(0, 359))] * ns
            lat = rng.sample([float(v) for v in range(-40, 40)], ns)
        else:  # sites that happen to fill a small lattice, listed in any order
            ns = 4
            lo, la = rng.sample([float(v) for v in range(100, 120)], 2), rng.sample([float(v) for v in range(-30, 30)], 2)
            pts = [(a, b) for a in lo for b in la]
            rng.shuffle(pts)
            lon, lat = [p[0] for p in pts], [p[1] for p in pts]
        shape = (T, ns)
        lead = ("time", "site")
    else:
        nlat, nlon = rng.choice([(1, 1), (1, 3), (2, 1), (2, 3), (3, 2), (2, 2), (3, 4), (4, 3), (2, 4)])
        lat = sorted(rng.sample([round(-60 + 0.25 * i, 2) for i in range(400)], nlat))
        lon = sorted(rng.sample([round(0.5 * i, 1) for i in range(700)], nlon))
        if rng.random() < 0.15:
            lat = lat[::-1]
        shape = (T, nlat, nlon)
        lead = ("time", "lat", "lon")
    npos = int(np.prod(shape))
    specs, knds = [], []
    for _ in range(npos):
        E, k = gen_spec(rng, nf, nd, kinds, exact, max_scale)
        specs.append(E)
        knds.append(k)
    arr = np.array(specs).reshape(shape + (nf, nd))
    if fmt == "netcdf" and np.isfinite(arr).any() and np.nanmax(arr) >= 2.0e4:
        arr = arr * (1.0e4 / np.nanmax(arr))  # packed int32 at 1e-5 holds |x| < 2^31 * 1e-5 = 21474.8
    if dtype == "float32":
        arr = arr.astype("float32")
    coords = dict(time=times, freq=freq, dir=dirs)
    if layout == "station":
        coords["site"] = list(range(1, ns + 1)) if rng.random() < 0.7 else [10 * (i + 1) + rng.randint(0, 5) for i in range(ns)]
    else:
        coords["lat"] = lat
        coords["lon"] = lon
    ds = xr.DataArray(arr, dims=lead + ("freq", "dir"), coords=coords, name="efth").to_dataset()
    if layout == "station":
        ds["lon"] = ("site", np.array(lon, dtype=float))
        ds["lat"] = ("site", np.array(lat, dtype=float))
    stored = "standard"
    if rng.random() < 0.25:
        # the same labelled data held with its dimensions in another order (dims are named; writers must not rely on position)
        perm = list(ds.efth.dims)
        while perm == list(ds.efth.dims):
            rng.shuffle(perm)
        ds["efth"] = ds.efth.transpose(*perm)
        stored = "/".join(perm)
    desc = dict(fmt=fmt, nf=nf, nd=nd, T=T, fkind=fkind, order=order, layout=layout, dtype=dtype, exact=exact, stored=stored,
                shape=list(shape), kinds=sorted(set(knds)), lon=[float(v) for v in lon], lat=[float(v) for v in lat])
    return ds, desc


# ------------------------------------------------------------------------------------------------
# canonical views of a dataset
# ------------------------------------------------------------------------------------------------
def positions(ds):
    """[(lon, lat, E[T, nf, nd])] of a dataset in the wavespectra convention, station order or lat-major grid order
    (the order is only used for reporting; every comparison is by position label)."""
    da = ds.efth
    if "site" in da.dims:
        da = da.transpose("time", "site", "freq", "dir")
        lon = np.asarray(ds["lon"].values, dtype=float)
        lat = np.asarray(ds["lat"].values, dtype=float)
        return [(float(lon[k]), float(lat[k]), np.asarray(da.values[:, k], dtype=float)) for k in range(da.sizes["site"])]
    da = da.transpose("time", "lat", "lon", "freq", "dir")
    out = []
    for i, la in enumerate(ds.lat.values):
        for j, lo in enumerate(ds.lon.values):
            out.append((float(lo), float(la), np.asarray(da.values[:, i, j], dtype=float)))
    return out


def match_dirs(d0, d1, tol):
    """index map m with d1[j] == d0[m[j]] on the circle (within tol), a bijection; None if the labels do not match"""
    d0, d1 = np.asarray(d0, dtype=float), np.asarray(d1, dtype=float)
    if len(d0) != len(d1):
        return None
    m, used = [], set()
    for x in d1:
        c = np.abs((d0 - x + 180.0) % 360.0 - 180.0)
        cand = [int(k) for k in np.argsort(c, kind="stable") if int(k) not in used and c[k] <= tol]
        if not cand:
            return None
        m.append(cand[0])
        used.add(cand[0])
    return np.array(m, dtype=int)


def secs(times):
    return np.asarray(times).astype("datetime64[ns]").astype("int64") / 1e9


def spec_class(E):
    if np.isnan(E).all():
        return "nan"
    if np.isnan(E).any():
        return "partnan"
    if not E.any():
        return "zero"
    return "data"


def same_missing(E, R, what, fails, case, op, trig_nan=None):
    """zero -> zero, all-NaN -> all-NaN. Returns True if the bins should still be compared numerically."""
    c = spec_class(E)
    if c == "nan":
        if not np.isnan(R).all():
            fails.append((op, f"{what}: all-missing spectrum came back with numbers (e.g. {R.ravel()[0]!r})", case, trig_nan))
        return False
    if c == "zero":
        if np.isnan(R).any() or R.any():
            fails.append((op, f"{what}: all-zero spectrum came back non-zero (max |x| = {np.nanmax(np.abs(R))!r})", case, None))
        return False
    if np.isnan(R).any():
        fails.append((op, f"{what}: finite spectrum came back with NaN", case, None))
        return False
    return True


def small(ds, limit=600):
    """inline copy of a small dataset for replay files"""
    da = ds.efth
    if da.size > limit:
        return None
    out = dict(dims=list(da.dims), efth=np.where(np.isnan(da.values), None, da.values.astype(object)).tolist())
    for c in ("time", "site", "lat", "lon", "freq", "dir"):
        if c in ds.variables:
            v = ds[c].values
            out[c] = [str(x) for x in v] if c == "time" else [float(x) for x in np.atleast_1d(v)]
    return out


# ------------------------------------------------------------------------------------------------
# SWAN
# ------------------------------------------------------------------------------------------------
def swan_header(path):
    """positions and time stamps as they stand in the file (plain text parse, independent of the reader)"""
    op = gzip.open if str(path).endswith(".gz") else open
    with op(path, "rt") as f:
        lines = f.read().splitlines()
    i = next(k for k, l in enumerate(lines) if l.startswith("LONLAT"))
    n = int(lines[i + 1].split()[0])
    xy = [tuple(float(v) for v in lines[i + 2 + k].split()) for k in range(n)]
    stamps = [l[:15] for l in lines if len(l) >= 15 and l[8] == "." and l[:8].isdigit() and l[9:15].isdigit()]
    return xy, stamps


def lattice_unordered(xs, ys, as_site):
    """the header passes the reader's `nlon*nlat == nloc` test although the blocks are not longitude-major ascending
    (the layout the reader mishandled before fix 1f147c9; now an ordinary case, counted in the evidence)"""
    ux, uy = sorted(set(xs)), sorted(set(ys))
    if as_site or len(ux) * len(uy) != len(xs):
        return False
    nlat = len(uy)
    return any(xs[k] != ux[k // nlat] or ys[k] != uy[k % nlat] for k in range(len(xs)))


def run_swan(rng, ds, desc, d, opts=None):
    from wavespectra import read_swan

    o = opts or dict(gz=rng.random() < 0.3, ntime=rng.choice([None, None, 1, 2, 3, 7]), as_site=rng.random() < 0.12)
    desc["opts"] = o
    path = str(d / ("a.swn.gz" if o["gz"] else "a.swn"))
    kw = {} if o["ntime"] is None else dict(ntime=o["ntime"])
    ds.spec.to_swan(path, **kw)
    r = read_swan(path, as_site=o["as_site"])
    fails, reqs = [], []
    case = desc
    T = ds.sizes["time"]
    f32 = ds.efth.dtype == np.float32
    # ---- oracle: times, frequencies, directions
    if r.sizes.get("time") != T or np.abs(secs(r.time.values) - secs(ds.time.values)).max() > 1e-3:
        fails.append(("swan", f"times written {[str(t) for t in ds.time.values]} read back {[str(t) for t in r.time.values]}", case, None))
        return dict(fails=fails, reqs=reqs)
    f0 = np.asarray(ds.freq.values, dtype=float)
    if r.sizes["freq"] != len(f0) or np.abs(r.freq.values - f0).max() > 0.5e-5 * (1 + 1e-6) + 1e-12:
        fails.append(("swan", f"frequencies {f0.tolist()} read back {r.freq.values.tolist()}", case, None))
        return dict(fails=fails, reqs=reqs)
    d0 = np.asarray(ds.dir.values, dtype=float)
    dmap = match_dirs(d0, r.dir.values, 0.5e-4 * (1 + 1e-6) + 1e-12)
    if dmap is None:
        fails.append(("swan", f"directions {d0.tolist()} read back {r.dir.values.tolist()}", case, None))
        return dict(fails=fails, reqs=reqs)
    pos = positions(ds)
    xy, stamps = swan_header(path)
    xs, ys = [p[0] for p in xy], [p[1] for p in xy]
    trig = None
    unordered = lattice_unordered(xs, ys, o["as_site"])
    # ---- oracle: every spectrum at the position it was written from
    gridded = "lat" in r.efth.dims
    if gridded:
        R = r.efth.transpose("time", "lat", "lon", "freq", "dir").values
        rl, rlo = r.lat.values, r.lon.values
        if len(rl) * len(rlo) != len(pos):
            fails.append(("swan", f"{len(pos)} positions written, {len(rl)}x{len(rlo)} grid read back", case, trig))
    else:
        R = r.efth.transpose("time", "site", "freq", "dir").values
        if r.sizes["site"] != len(pos):
            fails.append(("swan", f"{len(pos)} sites written, {r.sizes['site']} read back", case, trig))
            return dict(fails=fails, reqs=reqs)
    tol_xy = 0.5e-6 * (1 + 1e-6) + 1e-12

    def readback_at(k, lo, la):
        if gridded:
            i = np.where(np.abs(rl - la) <= tol_xy)[0]
            j = np.where(np.abs(rlo - lo) <= tol_xy)[0]
            if len(i) != 1 or len(j) != 1:
                return None
            return R[:, i[0], j[0]]
        if abs(float(r.lon.values[k]) - lo) > tol_xy or abs(float(r.lat.values[k]) - la) > tol_xy:
            return None
        return R[:, k]

    nbad = 0
    for k, (lo, la, E) in enumerate(pos):
        Rk = readback_at(k, lo, la)
        if Rk is None:
            fails.append(("swan", f"position {k} (lon={lo}, lat={la}) not found in the read-back coordinates", case, trig))
            break
        E = E[:, :, dmap]
        for t in range(T):
            if not same_missing(E[t], Rk[t], f"time {t} position {k} (lon={lo}, lat={la})", fails, case, "swan",
                                trig_nan=trig):
                if fails and fails[-1][3] is None and trig:
                    fails[-1] = fails[-1][:3] + (trig,)
                continue
            if spec_class(E[t]) == "partnan":
                continue  # the format has one NODATA flag per spectrum: out of scope
            mx = float(E[t].max())
            fac = mx / 9998.0
            bound = fac * (0.5 + (2e-3 if f32 else 1e-6)) + 9998 * fac * (1e-7 if f32 else 5.1e-9) + 1e-300
            err = float(np.abs(Rk[t] - E[t]).max())
            if err > bound:
                nbad += 1
                if nbad <= 2:
                    fails.append(("swan", f"time {t} position {k} (lon={lo}, lat={la}): max bin error {err:.6g} > format "
                                          f"resolution {bound:.6g} (spectrum max {mx:.6g})", case, trig))
    # ---- model requests
    reqs.append((f"swan_pos {1 if o['as_site'] else 0} {enc_v(xs)} {enc_v(ys)}", "pos"))
    if "lat" in ds.efth.dims:
        reqs.append((f"swan_grid {enc_v(ds.lat.values)} {enc_v(ds.lon.values)}", "grid"))
    reqs.append((f"swan_dirs {enc_v(d0)}", "dirs"))
    reqs.append((f"swan_chunks {T} {o['ntime'] or 0}", "chunks"))
    ks = list(range(len(pos)))
    rng.shuffle(ks)
    sel = [(t, k) for k in ks[:4] for t in rng.sample(range(T), min(T, 2))][:6]
    for t, k in sel:
        reqs.append((f"swan_rt {enc_om(pos[k][2][t])}", ("rt", t, k)))
    ctx = dict(xs=xs, ys=ys, stamps=stamps, times=[f"{str(x)[:19]}" for x in ds.time.values.astype("datetime64[s]")],
               R=R, gridded=gridded, rlat=r.lat.values, rlon=r.lon.values, rdirs=r.dir.values, f32=f32, dmap=dmap, trig=trig,
               wx=[p[0] for p in pos], wy=[p[1] for p in pos], grid_ds="lat" in ds.efth.dims)
    tags = ["swan_read:" + ("station" if not gridded else "grid, blocks lon-major" if not unordered else
                            "grid, blocks in another order (old_swan_grid_fails)")]
    return dict(fails=fails, reqs=reqs, ctx=ctx, tags=tags)


def cmp_swan(ck, res, resps, case):
    ctx = res["ctx"]
    by = {}
    for (line, tag), resp in zip(res["reqs"], resps):
        st, mo = parse_resp(resp)
        if st != "ok":
            ck.disagree("swan", f"model error on {line[:40]}: {mo}", case)
            return
        by[tag if isinstance(tag, str) else tag] = mo
    pos = by["pos"]
    trig = ctx["trig"]
    tol_xy = 0.5e-6 * (1 + 1e-6) + 1e-12
    if "grid" in by:  # header order written for a gridded dataset = lat-major stack
        hx, hy = [float(v) for v in by["grid"]["x"]], [float(v) for v in by["grid"]["y"]]
        if len(hx) != len(ctx["xs"]) or max(abs(a - b) for a, b in zip(hx + hy, ctx["xs"] + ctx["ys"])) > tol_xy:
            ck.disagree("swan_grid", f"header positions in the file {list(zip(ctx['xs'], ctx['ys']))} vs model {list(zip(hx, hy))}", case)
    if (bool(int(pos["grid"])) and not case["opts"]["as_site"]) != ctx["gridded"]:
        ck.disagree("swan_pos", f"model is_grid={pos['grid']} (as_site={case['opts']['as_site']}) but read-back gridded={ctx['gridded']}", case)
    md = [float(v) for v in by["dirs"]["dirs"]]
    if len(md) != len(ctx["rdirs"]) or np.abs(np.array(md) - ctx["rdirs"]).max() > 0.5e-4 * (1 + 1e-6):
        ck.disagree("swan_dirs", f"read-back directions {ctx['rdirs'].tolist()} vs model {md}", case)
    if list(by["dirs"]["map"]) != [int(v) for v in ctx["dmap"]]:
        ck.disagree("swan_dirs", f"direction map model {by['dirs']['map']} vs argsort {ctx['dmap'].tolist()}", case)
    written = [ctx["times"].index(f"{s[:4]}-{s[4:6]}-{s[6:8]}T{s[9:11]}:{s[11:13]}:{s[13:15]}") if
               f"{s[:4]}-{s[4:6]}-{s[6:8]}T{s[9:11]}:{s[11:13]}:{s[13:15]}" in ctx["times"] else -1 for s in ctx["stamps"]]
    if written != list(by["chunks"]["written"]):
        ck.disagree("swan_chunks", f"time steps in the file {written} vs model {by['chunks']['written']}", case)
    lon, lat = [float(v) for v in pos["lon"]], [float(v) for v in pos["lat"]]
    R = ctx["R"]

    def lookup(t, k, lo, la):
        if not ctx["gridded"]:
            return R[t, k]
        i = np.where(np.abs(ctx["rlat"] - la) <= tol_xy)[0]
        j = np.where(np.abs(ctx["rlon"] - lo) <= tol_xy)[0]
        return R[t, i[0], j[0]] if len(i) == 1 and len(j) == 1 else None

    def block_vs_model(Rk, mo):
        """(ok, message, number of ambiguous bins)"""
        dec = np.array([[np.nan if v is None else float(v) for v in row] for row in mo["dec"]], dtype=float)[:, ctx["dmap"]]
        kind = int(mo["kind"])
        if kind < 2:
            ok = np.array_equal(np.isnan(dec), np.isnan(Rk)) and not (kind == 1 and Rk.any())
            return ok, f"block kind {['NODATA', 'ZERO'][kind]}: read-back {Rk.ravel()[:4]} vs model {dec.ravel()[:4]}", 0
        if np.isnan(Rk).any():
            return False, "FACTOR block read back with NaN", 0
        facP = float(mo["facP"])
        amb = np.zeros(dec.size, dtype=bool)
        amb[list(mo["amb"])] = True
        amb = amb.reshape(-1, dec.shape[1])[:, ctx["dmap"]]
        diff = np.abs(Rk - dec)
        if ctx["f32"]:
            # float32 data: fac and spec/fac are float32 operations; compare at that precision, one count of slack
            ok = diff <= facP * (1 + 1e-6) + 3e-7 * np.abs(dec).max()
        else:
            ok = (diff <= 1e-12 * np.abs(dec).max() + 1e-300) | (amb & (diff <= facP * (1 + 1e-9)))
        if ok.all():
            return True, "", int(amb.sum())
        i, j = np.argwhere(~ok)[0]
        return False, f"bin ({i},{j}): read-back {Rk[i, j]!r} vs model dec(enc x) {dec[i, j]!r} (facP={facP!r})", int(amb.sum())

    for tag, mo in by.items():
        if not (isinstance(tag, tuple) and tag[0] == "rt"):
            continue
        _, t, k = tag
        kind = int(mo["kind"])
        ck.count(f"swan_block:{['NODATA', 'ZERO', 'FACTOR'][kind]}")
        if kind == 2 and float(mo["facMargin"]) < TIE:
            ck.ambiguous += 1
            continue
        Rk = lookup(t, k, lon[k], lat[k])  # where the model (as coded) says block k is read back
        if Rk is None:
            ok, msg, namb = False, f"model label ({lon[k]}, {lat[k]}) not in the read-back grid", 0
        else:
            ok, msg, namb = block_vs_model(Rk, mo)
        ck.ambiguous += namb
        if not ok:
            ck.disagree("swan_rt", f"time {t} block {k}: {msg}", case)


# ------------------------------------------------------------------------------------------------
# generic labelled comparison (JSON, netCDF, WW3)
# ------------------------------------------------------------------------------------------------
def compare_labelled(op, ds, r, fails, case, tol_fn, dir_mod=False, time_tol=1e-3, trig_nan=None):
    """Every coordinate and every spectrum of `r` against `ds` by label; `tol_fn(E)` = allowed absolute error per bin."""
    da = ds.efth
    if set(r.efth.dims) != set(da.dims):
        fails.append((op, f"dimensions {da.dims} read back as {r.efth.dims}", case, None))
        return False
    for c in da.dims:
        if r.sizes[c] != ds.sizes[c]:
            fails.append((op, f"{c}: {ds.sizes[c]} values written, {r.sizes[c]} read back", case, None))
            return False
    if "time" in da.dims and np.abs(secs(r.time.values) - secs(ds.time.values)).max() > time_tol:
        fails.append((op, f"times {[str(t) for t in ds.time.values]} read back {[str(t) for t in r.time.values]}", case, None))
        return False
    for c in ("site", "lat", "lon", "freq"):
        if c in da.dims and not np.allclose(np.asarray(r[c].values, dtype=float), np.asarray(ds[c].values, dtype=float), rtol=1e-12, atol=0):
            fails.append((op, f"{c}: {ds[c].values.tolist()} read back {r[c].values.tolist()}", case, None))
            return False
    if "site" in da.dims:
        for c in ("lon", "lat"):
            if c not in r or not np.allclose(np.asarray(r[c].values, dtype=float), np.asarray(ds[c].values, dtype=float), rtol=1e-12, atol=0):
                fails.append((op, f"{c} of the sites {ds[c].values.tolist()} read back {r[c].values.tolist() if c in r else None}", case, None))
                return False
    d0, d1 = np.asarray(ds.dir.values, dtype=float), np.asarray(r.dir.values, dtype=float)
    dd = np.abs((d1 - d0 + 180.0) % 360.0 - 180.0) if dir_mod else np.abs(d1 - d0)
    if dd.max() > 1e-9:
        fails.append((op, f"directions {d0.tolist()} read back {d1.tolist()}", case, None))
        return False
    std = [d for d in da.dims if d not in ("freq", "dir")] + ["freq", "dir"]   # compare in the standard order whatever the storage
    da = da.transpose(*std)
    A = np.asarray(da.values, dtype=float)
    B = np.asarray(r.efth.transpose(*da.dims).values, dtype=float)
    lead = A.shape[:-2]
    nbad = 0
    for idx in np.ndindex(*lead):
        E, Rk = A[idx], B[idx]
        if not same_missing(E, Rk, f"position {dict(zip(da.dims, idx))}", fails, case, op, trig_nan):
            continue
        nanm = np.isnan(E)
        if not np.array_equal(nanm, np.isnan(Rk)):
            fails.append((op, f"position {dict(zip(da.dims, idx))}: missing bins moved", case, None))
            continue
        err = np.abs(np.where(nanm, 0, Rk - E))
        tol = tol_fn(np.where(nanm, 0, E))
        if (err > tol).any():
            nbad += 1
            i, j = np.argwhere(err > tol)[0]
            if nbad <= 2:
                fails.append((op, f"position {dict(zip(da.dims, idx))} bin ({i},{j}): wrote {E[i, j]!r} read {Rk[i, j]!r}", case, None))
    return True


def run_json(rng, ds, desc, d, opts=None):
    from wavespectra import read_json

    desc["opts"] = {}
    path = str(d / "a.json")
    ds.spec.to_json(path)
    r = read_json(path)
    fails = []
    compare_labelled("json", ds, r, fails, desc, lambda E: 0.0 * E)
    return dict(fails=fails, reqs=[], ctx={})


def run_netcdf(rng, ds, desc, d, opts=None):
    from wavespectra import read_netcdf, read_wavespectra

    o = opts or dict(packed=rng.random() < 0.65, reader=rng.choice(["read_netcdf", "read_wavespectra"]))
    desc["opts"] = o
    path = str(d / "a.nc")
    fails, reqs = [], []
    packed = o["packed"]
    ds.spec.to_netcdf(path, ncformat="NETCDF3_64BIT", compress=False, packed=packed)
    rd = read_netcdf if o["reader"] == "read_netcdf" else read_wavespectra
    r0 = rd(path)
    r = r0.load()
    r0.close()
    f32 = ds.efth.dtype == np.float32
    if packed:
        tol = (lambda E: 0.5e-5 * (1 + 1e-6) + (3e-7 if f32 else 1e-12) * np.abs(E))
    else:
        tol = (lambda E: 0.0 * E)
    compare_labelled("netcdf", ds, r, fails, desc, tol)
    ctx = dict(packed=packed, f32=f32)
    if packed and not fails:
        A = np.asarray(ds.efth.values, dtype=float).ravel()
        B = np.asarray(r.efth.transpose(*ds.efth.dims).values, dtype=float).ravel()
        idx = rng.sample(range(A.size), min(A.size, 200))
        reqs.append(("pack_rt v %d %s" % (len(idx), " ".join(enc_o(float(A[i])) for i in idx)), "pack"))
        ctx.update(x=A[idx], y=B[idx])
    return dict(fails=fails, reqs=reqs, ctx=ctx)


def cmp_netcdf(ck, res, resps, case):
    ctx = res["ctx"]
    if not res["reqs"]:
        return
    st, mo = parse_resp(resps[0])
    if st != "ok":
        ck.disagree("pack_rt", f"model error {mo}", case)
        return
    ck.count("pack:values", len(ctx["x"]))
    if not int(mo["inrange"]):
        ck.ambiguous += 1  # outside the int32 range: not in the format's scope
        return
    amb = set(mo["amb"])
    q = 1e-5
    for i, (x, y, m) in enumerate(zip(ctx["x"], ctx["y"], mo["dec"])):
        if m is None:
            ok = math.isnan(y)
        elif math.isnan(y):
            ok = False
        else:
            m = float(m)
            slack = q * (1 + 1e-6) if (i in amb or ctx["f32"]) else 0.0
            ok = abs(y - m) <= slack + (3e-7 if ctx["f32"] else 1e-12) * abs(m)
        if i in amb:
            ck.ambiguous += 1
        if not ok:
            ck.disagree("pack_rt", f"value {x!r} read back {y!r}, model dec(enc x) = {m!r}", case)
            return


def run_ww3(rng, ds, desc, d, opts=None):
    import xarray as xr
    from wavespectra import read_ww3

    desc["opts"] = {}
    path = str(d / "a.nc")
    ds.spec.to_ww3(path)
    r0 = read_ww3(path)
    r = r0.load()
    r0.close()
    fails, reqs = [], []
    f32 = ds.efth.dtype == np.float32
    compare_labelled("ww3", ds, r, fails, desc, lambda E: (3e-7 if f32 else 1e-12) * np.abs(E), dir_mod=True)
    raw0 = xr.open_dataset(path)
    raw = raw0.load()
    raw0.close()
    # the same file held in memory by plain xarray and converted twice with the matching reader: both conversions (and the
    # in-memory native dataset afterwards) must be what the first one was
    try:
        from wavespectra.input.ww3 import from_ww3

        rawm = xr.load_dataset(path)
        before = np.array(rawm.efth.values, copy=True)
        c1 = np.array(from_ww3(rawm).efth.values, dtype=float, copy=True)
        c2 = np.array(from_ww3(rawm).efth.values, dtype=float, copy=True)
        if c1.shape != c2.shape or not np.array_equal(c1, c2, equal_nan=True):
            fails.append(("ww3", "converting the same in-memory native dataset a second time gives other energy densities "
                                 f"(max ratio {np.nanmax(np.abs(c2) / np.where(c1 == 0, np.nan, np.abs(c1))) if c1.shape == c2.shape else 'shape'})",
                          desc, None))
        elif not np.array_equal(before, np.asarray(rawm.efth.values), equal_nan=True):
            fails.append(("ww3", "from_ww3 changed the energy densities of the native dataset it was given", desc, None))
        rawm.close()
    except Exception as e:  # noqa
        fails.append(("ww3", f"second conversion of the in-memory native dataset raised {type(e).__name__}: {e}", desc, None))
    A = np.asarray(ds.efth.transpose("time", "site", "freq", "dir").values, dtype=float)
    F = np.asarray(raw.efth.transpose("time", "station", "frequency", "direction").values, dtype=float)
    flat = [i for i in range(A.size) if not math.isnan(A.ravel()[i])]
    idx = rng.sample(flat, min(len(flat), 40))
    reqs.append((f"ww3_rt {enc(PI)} {enc_v(ds.dir.values)} {enc_v(A.ravel()[idx])}", "ww3"))
    lonT = "time" in raw.longitude.dims and raw.longitude.shape[0] == ds.sizes["time"]
    ctx = dict(x=A.ravel()[idx], file=F.ravel()[idx], fdirs=np.asarray(raw.direction.values, dtype=float),
               rdirs=np.asarray(r.dir.values, dtype=float), f32=f32, lon_over_time=bool(lonT))
    return dict(fails=fails, reqs=reqs, ctx=ctx)


def cmp_ww3(ck, res, resps, case):
    ctx = res["ctx"]
    st, mo = parse_resp(resps[0])
    if st != "ok":
        ck.disagree("ww3_rt", f"model error {mo}", case)
        return
    rel = 3e-7 if ctx["f32"] else 1e-12
    for nm, a, b in (("direction on file", ctx["fdirs"], mo["fdirs"]), ("direction read back", ctx["rdirs"], mo["rdirs"])):
        b = np.array([float(v) for v in b])
        if len(a) != len(b) or np.abs(a - b).max() > 1e-9:
            ck.disagree("ww3_rt", f"{nm}: {a.tolist()} vs model {b.tolist()}", case)
    fm = np.array([float(v) for v in mo["file"]])
    if len(fm) and (np.abs(ctx["file"] - fm) > rel * np.abs(fm) + 1e-300).any():
        ck.disagree("ww3_rt", f"energy density on file {ctx['file'][:3]} vs model x*R2D {fm[:3]}", case)
    if not ctx["lon_over_time"]:
        ck.disagree("ww3_rt", "longitude on file is not expanded over time", case)
    ck.count("ww3:values", len(fm))


# ------------------------------------------------------------------------------------------------
# Octopus
# ------------------------------------------------------------------------------------------------
def oct_records(path):
    op = gzip.open if str(path).endswith(".gz") else open
    with op(path, "rt") as f:
        lines = f.read().splitlines()
    recs = []
    for i, l in enumerate(lines):
        if l.startswith("CCYYMM"):
            p = lines[i + 1].split(",")
            recs.append(p[0] + p[1].lstrip("'"))
    return recs, sum(1 for l in lines if l.startswith("nrecs"))


def run_octopus(rng, ds, desc, d, opts=None):
    from wavespectra import read_octopus

    T = ds.sizes["time"]
    f = np.asarray(ds.freq.values, dtype=float)
    nf = len(f)
    if opts is None:
        mode = rng.choice(["node", "node", "mid", "default"])
        if mode == "default" and f[0] < 0.125 < f[-1]:
            fcut = 0.125
        elif mode == "mid" or nf < 3:
            k = rng.randint(0, nf - 2)
            fcut = float(0.5 * (f[k] + f[k + 1]))
        else:
            fcut = float(f[rng.randint(1, nf - 2)])
        opts = dict(gz=rng.random() < 0.3, ntime=rng.choice([None, None, None, 1, 2, 3, T, T + 2]), fcut=fcut)
    o = opts
    desc["opts"] = o
    path = str(d / ("a.oct.gz" if o["gz"] else "a.oct"))
    kw = dict(fcut=o["fcut"])
    if o["ntime"] is not None:
        kw["ntime"] = o["ntime"]
    ds.spec.to_octopus(path, **kw)
    r = read_octopus(path)
    fails, reqs = [], []
    case = desc
    n = min(o["ntime"] or T, T)
    recs, nblocks = oct_records(path)
    stamps = [str(t.astype("datetime64[m]")).replace("-", "").replace("T", "").replace(":", "") for t in ds.time.values]
    written = [stamps.index(s) if s in stamps else -1 for s in recs]
    # ---- oracle (writer side): every time step is in the file once, in order
    if written != list(range(T)):
        fails.append(("to_octopus", f"{T} time steps, ntime={o['ntime']}: the file holds time steps {written}", case, None))
    # ---- oracle (round trip): times
    rt = secs(r.time.values)
    want = np.floor(secs(ds.time.values) / 60.0) * 60.0
    nread = len(rt)
    if nread != T:
        # known finding F29: more than one header block on file, only the first one is read
        trig = "octopus_multiblock_read" if (n < T and nblocks > 1 and nread == n and list(rt) == list(want[:nread])) else None
        fails.append(("octopus", f"{T} time steps written with ntime={o['ntime']} ({nblocks} header blocks in the file), "
                                 f"{nread} read back", case, trig))
    if nread > T or (np.abs(rt - want[:nread]) > 1e-3).any():
        fails.append(("octopus", f"times {[str(t) for t in ds.time.values]} read back {[str(t) for t in r.time.values]}", case, None))
        return dict(fails=fails, reqs=reqs)
    # ---- coordinates
    d0 = np.asarray(ds.dir.values, dtype=float)
    dmap = match_dirs(d0, r.dir.values, 1e-9)
    if r.sizes["freq"] != nf or np.abs(r.freq.values - f).max() > 0.5e-7 * (1 + 1e-6) + 1e-15:
        fails.append(("octopus", f"frequencies {f.tolist()} read back {r.freq.values.tolist()}", case, None))
        return dict(fails=fails, reqs=reqs)
    if dmap is None:
        fails.append(("octopus", f"directions {d0.tolist()} read back {r.dir.values.tolist()}", case, None))
        return dict(fails=fails, reqs=reqs)
    lon, lat = float(ds.lon.values[0]), float(ds.lat.values[0])
    if r.sizes["site"] != 1 or abs(float(r.lon.values[0]) - lon) > 0.5e-6 * (1 + 1e-6) + 1e-12 or \
            abs(float(r.lat.values[0]) - lat) > 0.5e-6 * (1 + 1e-6) + 1e-12:
        fails.append(("octopus", f"site ({lon}, {lat}) read back ({r.lon.values}, {r.lat.values})", case, None))
    # ---- spectra at the format's resolution
    A = np.asarray(ds.efth.transpose("time", "site", "freq", "dir").values, dtype=float)[:, 0][:, :, dmap]
    R = np.asarray(r.efth.transpose("time", "site", "freq", "dir").values, dtype=float)[:, 0]
    df = np.gradient(f) if nf > 1 else np.array([1.0])
    fr_ = np.asarray(r.freq.values, dtype=float)
    dfr = np.gradient(fr_) if nf > 1 else np.array([1.0])
    w = df[:, None] * gen.bin_width(d0)
    wr = dfr[:, None] * gen.bin_width(np.asarray(r.dir.values, dtype=float))
    f32 = ds.efth.dtype == np.float32
    for t in range(nread):
        if not same_missing(A[t], R[t], f"time {t}", fails, case, "octopus", trig_nan="octopus_missing_not_decoded"):
            continue
        if spec_class(A[t]) == "partnan":
            continue
        bound = 0.5e-7 * (1 + 1e-6) / wr + np.abs(A[t]) * (np.abs(w / wr - 1) + 1e-12)
        err = np.abs(R[t] - A[t])
        if (err > bound).any():
            i, j = np.argwhere(err > bound)[0]
            fails.append(("octopus", f"time {t} bin ({i},{j}): wrote {A[t][i, j]!r} read {R[t][i, j]!r}, format resolution "
                                     f"{bound[i, j]:.3g}", case, None))
            break
    # ---- model requests
    reqs.append((f"oct_chunks {T} {o['ntime'] or 0}", "chunks"))
    A0 = np.asarray(ds.efth.transpose("time", "site", "freq", "dir").values, dtype=float)[:, 0]
    for t in range(min(nread, 2)):
        reqs.append((f"oct_rt {enc_v(f)} {enc_v(d0)} {enc_om(A0[t])}", ("rt", t)))
    ctx = dict(written=written, nread=nread, R=R, rf=fr_, rdirs=np.asarray(r.dir.values, dtype=float), f32=f32, wr=wr,
               nblocks=nblocks)
    tags = ["octopus_ntime:" + ("unchunked (octopus_read_partial)" if n == T else "chunked (octopus_chunked_eq, octopus_read_fails)")]
    return dict(fails=fails, reqs=reqs, ctx=ctx, tags=tags)


def cmp_octopus(ck, res, resps, case):
    ctx = res["ctx"]
    for (line, tag), resp in zip(res["reqs"], resps):
        st, mo = parse_resp(resp)
        if st != "ok":
            ck.disagree("octopus", f"model error on {line[:30]}: {mo}", case)
            return
        if tag == "chunks":
            if list(mo["written"]) != ctx["written"]:
                ck.disagree("oct_chunks", f"time steps in the file {ctx['written']} vs model {mo['written']}", case)
            if len(mo["read"]) != ctx["nread"] or int(mo["nblocks"]) != ctx["nblocks"]:
                ck.disagree("oct_chunks", f"read back {ctx['nread']} steps from {ctx['nblocks']} blocks vs model {mo['read']} / {mo['nblocks']}", case)
            ck.count("oct_blocks:" + ("1" if int(mo["nblocks"]) == 1 else "many"))
            continue
        t = tag[1]
        mf = np.array([float(v) for v in mo["f"]])
        if mo["famb"]:
            ck.ambiguous += 1
            continue
        if np.abs(mf - ctx["rf"]).max() > 1e-15 or [float(v) for v in mo["dirs"]] != ctx["rdirs"].tolist():
            ck.disagree("oct_rt", f"coordinates read back f={ctx['rf'].tolist()} dir={ctx['rdirs'].tolist()} vs model {mf.tolist()} / {mo['dirs']}", case)
            continue
        dec = np.array([[np.nan if v is None else float(v) for v in row] for row in mo["dec"]], dtype=float)
        Rk = ctx["R"][t]
        amb = np.zeros(dec.size, dtype=bool)
        amb[list(mo["amb"])] = True
        amb = amb.reshape(dec.shape)
        ck.ambiguous += int(amb.sum())
        quantum = 1e-7 / ctx["wr"]
        rel = 1e-9
        diff = np.abs(Rk - dec)
        ok = (diff <= rel * np.abs(dec) + 1e-300) | (amb & (diff <= quantum * (1 + 1e-6) + rel * np.abs(dec)))
        if not ok.all():
            i, j = np.argwhere(~ok)[0]
            ck.disagree("oct_rt", f"time {t} bin ({i},{j}): read-back {Rk[i, j]!r} vs model dec(enc x) {dec[i, j]!r}", case)
        ck.count("oct_rt:spectra")


# ------------------------------------------------------------------------------------------------
# Funwave
# ------------------------------------------------------------------------------------------------
def run_funwave(rng, ds, desc, d, opts=None):
    from wavespectra import read_funwave

    desc["opts"] = {}
    path = str(d / "a.txt")
    fails, reqs = [], []
    case = desc
    da = ds.efth
    f = np.asarray(ds.freq.values, dtype=float)
    d0 = np.asarray(ds.dir.values, dtype=float)
    E = np.asarray(da.values, dtype=float).reshape(len(f), len(d0))
    ds.spec.to_funwave(path, clip=False)
    r = read_funwave(path)
    rf = np.asarray(r.freq.values, dtype=float)
    rd = np.asarray(r.dir.values, dtype=float)
    if len(rf) != len(f) or np.abs(rf - f).max() > 0.5e-5 * (1 + 1e-6) + 1e-12:
        fails.append(("funwave", f"frequencies {f.tolist()} read back {rf.tolist()}", case, None))
        return dict(fails=fails, reqs=reqs)
    # directions by label on the circle
    order = match_dirs(d0, rd, 0.5e-3 * (1 + 1e-6) + 1e-9)
    if order is None:
        fails.append(("funwave", f"directions {d0.tolist()} read back {rd.tolist()}", case, None))
        return dict(fails=fails, reqs=reqs)
    A = E[:, order]
    R = np.asarray(r.efth.transpose("freq", "dir").values, dtype=float)
    df = np.gradient(f)
    dfr = np.gradient(rf)
    w = df[:, None] * gen.bin_width(d0)
    wr = dfr[:, None] * gen.bin_width(rd)
    if same_missing(A, R, "spectrum", fails, case, "funwave") and spec_class(A) != "partnan":
        a = np.sqrt(2 * A * w)
        bound = ((a + 0.5e-8 * (1 + 1e-6)) ** 2 - a ** 2) / (2 * wr) + np.abs(A) * (np.abs(w / wr - 1) + 1e-12)
        err = np.abs(R - A)
        if (err > bound).any():
            i, j = np.argwhere(err > bound)[0]
            fails.append(("funwave", f"bin ({i},{j}) dir {rd[j]}: wrote {A[i, j]!r} read {R[i, j]!r}, format resolution {bound[i, j]:.3g}",
                          case, None))
    reqs.append((f"funwave_a2 {enc_v(f)} {enc_v(d0)} {enc_om(E)}", "a2"))
    ctx = dict(f=f, d0=d0, R=R, rf=rf, rd=rd, wr=wr)
    return dict(fails=fails, reqs=reqs, ctx=ctx)


def funwave_second(res, resp):
    """second driver phase: amplitudes = sqrt of the model's squared amplitudes (the square root is outside the model)"""
    st, mo = parse_resp(resp)
    if st != "ok":
        return None
    a2 = np.array([[np.nan if v is None else float(v) for v in row] for row in mo["a2"]], dtype=float)
    a = np.sqrt(a2)
    ctx = res["ctx"]
    return f"funwave_rt {enc_v(ctx['f'])} {enc_v(ctx['d0'])} {enc_om(a)}"


def cmp_funwave(ck, res, resp2, case):
    ctx = res["ctx"]
    st, mo = parse_resp(resp2)
    if st != "ok":
        ck.disagree("funwave_rt", f"model error {mo}", case)
        return
    mf = np.array([float(v) for v in mo["f"]])
    md = np.array([float(v) for v in mo["dirs"]])
    if np.abs(mf - ctx["rf"]).max() > 1e-15 or len(md) != len(ctx["rd"]) or np.abs(md - ctx["rd"]).max() > 1e-9:
        ck.disagree("funwave_rt", f"coordinates read back f={ctx['rf'].tolist()} dir={ctx['rd'].tolist()} vs model {mf.tolist()} / {md.tolist()}", case)
        return
    en = np.array([[np.nan if v is None else float(v) for v in row] for row in mo["en"]], dtype=float)
    R = ctx["R"]
    if int(mo["namb"]):
        ck.ambiguous += 1
        return
    if not np.array_equal(np.isnan(en), np.isnan(R)):
        ck.disagree("funwave_rt", "missing bins differ from the model", case)
        return
    diff = np.abs(np.nan_to_num(R - en))
    ok = diff <= 1e-9 * np.abs(np.nan_to_num(en)) + 1e-300
    if not ok.all():
        i, j = np.argwhere(~ok)[0]
        ck.disagree("funwave_rt", f"bin ({i},{j}): read-back {R[i, j]!r} vs model {en[i, j]!r}", case)
    ck.count("funwave_rt:spectra")


# ------------------------------------------------------------------------------------------------
# cases
# ------------------------------------------------------------------------------------------------
RUNNERS = dict(swan=run_swan, json=run_json, netcdf=run_netcdf, ww3=run_ww3, octopus=run_octopus, funwave=run_funwave)


def dataset_from_witness(w):
    """corpus entry -> Dataset (efth nested lists, null = NaN)"""
    import xarray as xr

    dsd = w["dataset"]
    arr = np.array(dsd["efth"], dtype=float)
    coords = {}
    for c in dsd["dims"]:
        coords[c] = np.array(dsd[c], dtype="datetime64[ns]") if c == "time" else dsd[c]
    ds = xr.DataArray(arr, dims=dsd["dims"], coords=coords, name="efth").to_dataset()
    if "site" in dsd["dims"]:
        ds["lon"] = ("site", np.array(dsd["lon"], dtype=float))
        ds["lat"] = ("site", np.array(dsd["lat"], dtype=float))
    return ds


def nontrivial(ds):
    v = np.asarray(ds.efth.values, dtype=float)
    return bool(np.isfinite(v).any() and np.nanmax(np.abs(np.nan_to_num(v))) > 0)


def make_case(args):
    """One generated (or corpus) case: real write -> real read, oracle in the worker; returns plain data + model requests."""
    seed, icase, fmt, witness = args
    import logging
    import warnings

    warnings.filterwarnings("ignore")
    logging.disable(logging.CRITICAL)
    import_ws()
    rng = case_rng("C11", seed, f"{fmt}-{icase}")
    d = tmpdir(f"{fmt}_{icase}")
    try:
        if witness is not None:
            ds = dataset_from_witness(witness)
            desc = dict(fmt=fmt, corpus=witness["id"], layout="grid" if "lat" in ds.efth.dims else "station",
                        nf=ds.sizes["freq"], nd=ds.sizes["dir"], T=ds.sizes.get("time", 1), order="corpus", kinds=["corpus"])
            opts = witness.get("options")
        else:
            ds, desc = gen_dataset(rng, fmt)
            opts = None
        desc.update(seed=seed, icase=icase)
        inline = small(ds)
        if inline is not None:
            desc["dataset"] = inline
        try:
            res = RUNNERS[fmt](rng, ds, desc, d, opts)
        except Exception as e:  # a writer/reader crash inside the documented scope is an oracle failure
            import traceback

            tb = traceback.format_exc().strip().splitlines()
            res = dict(fails=[(fmt, f"{type(e).__name__}: {e} [{tb[-3].strip() if len(tb) > 2 else ''}]", desc, "crash")], reqs=[])
        res.update(fmt=fmt, icase=icase, desc=desc, nontrivial=nontrivial(ds))
        return res
    finally:
        shutil.rmtree(d, ignore_errors=True)


def load_corpus():
    p = BUILD.parent / "corpus" / "C11"
    out = []
    if p.is_dir():
        for f in sorted(p.glob("*.json")):
            out.append(json.loads(f.read_text()))
    return out


COUNTS = dict(quick=dict(swan=170, json=30, netcdf=50, ww3=30, octopus=70, funwave=50),
              thorough=dict(swan=2600, json=400, netcdf=800, ww3=400, octopus=1000, funwave=800))


def run_check():
    ck = Check("C11")
    ck.extra["rule"] = ("generated datasets per writer/reader pair within its documented scope (station / lat x lon grid, 1-5 times, "
                        "sorted/rotated/reversed/seam direction order, zero / NaN / wide-range spectra, gzip, ntime, float32/64) plus the corpus "
                        "witnesses; signature = (format, layout, grid-shape class, nf class, nd class, direction order, options, spectrum kinds); "
                        "non-trivial = at least one finite non-zero spectrum")
    ck.do_audit()
    import_ws()
    replay = os.environ.get("VERIF_REPLAY")
    jobs = []
    if replay:
        rp = json.loads(open(replay).read())
        seen = set()
        for ent in rp.get("failures", []) + rp.get("disagreements", []):
            c = ent.get("case", {})
            key = (c.get("seed", ck.seed), c.get("icase"), c.get("fmt"), c.get("corpus"))
            if key in seen or c.get("fmt") is None:
                continue
            seen.add(key)
            w = next((w for w in load_corpus() if w["id"] == c.get("corpus")), None) if c.get("corpus") else None
            jobs.append((key[0], key[1], key[2], w))
        log(f"[C11] replaying {len(jobs)} case(s) from {replay}")
    else:
        for i, w in enumerate(load_corpus()):
            jobs.append((ck.seed, f"corpus{i}", w["fmt"], w))
        for fmt in FORMATS:
            for i in range(COUNTS["thorough" if ck.tier == "thorough" else "quick"][fmt]):
                jobs.append((ck.seed, i, fmt, None))
    results = pmap(make_case, jobs)
    # ---- one driver run for every request, a second one for the Funwave amplitudes
    lines, owner = [], []
    for ri, res in enumerate(results):
        for line, tag in res["reqs"]:
            lines.append(line)
            owner.append(ri)
    resps = run_driver(lines) if lines else []
    per = {}
    for ri, resp in zip(owner, resps):
        per.setdefault(ri, []).append(resp)
    second, sown = [], []
    for ri, res in enumerate(results):
        if res["fmt"] == "funwave" and res["reqs"]:
            l2 = funwave_second(res, per[ri][0])
            if l2 is None:
                ck.disagree("funwave_a2", f"model error {per[ri][0][:80]}", res["desc"])
            else:
                second.append(l2)
                sown.append(ri)
    resp2 = dict(zip(sown, run_driver(second))) if second else {}
    cmps = dict(swan=cmp_swan, netcdf=cmp_netcdf, ww3=cmp_ww3, octopus=cmp_octopus)
    for ri, res in enumerate(results):
        desc = res["desc"]
        fmt = res["fmt"]
        for op, what, case, trig in res["fails"]:
            ck.fail(op, what, case, trig)
        o = desc.get("opts", {})
        sig = (fmt, desc.get("layout"), tuple(desc.get("shape", [])[1:]), gen.signature(desc.get("nf", 0), desc.get("nd", 0)),
               desc.get("order"), desc.get("dtype"), tuple(sorted((k, str(v)) for k, v in o.items() if k != "fcut")),
               tuple(desc.get("kinds", [])))
        ck.case(sig, res["nontrivial"], sample={k: v for k, v in desc.items() if k != "dataset"})
        ck.count(f"format:{fmt}")
        ck.count(f"layout:{desc.get('layout')}")
        for k in desc.get("kinds", []):
            ck.count(f"spectrum:{k}")
        if o.get("ntime"):
            ck.count("chunked:ntime")
        if o.get("gz"):
            ck.count("gzip")
        for tg in res.get("tags", []):
            ck.count(tg)
        if res["reqs"] and ri in per:
            if fmt == "funwave":
                if ri in resp2:
                    cmp_funwave(ck, res, resp2[ri], desc)
            elif fmt in cmps:
                cmps[fmt](ck, res, per[ri], desc)
    ck.assumptions = [
        "netCDF runs offline only as NETCDF3_64BIT through scipy with compress=False (no netCDF4/h5netcdf here): zlib-compressed output "
        "and the NETCDF4 default are not exercised",
        "Octopus stores CCYYMM,DDHHmm: times are compared at whole-minute resolution; Octopus scope = one site, whole-degree directions, "
        "fcut inside the frequency range",
        "packed netCDF scope: energy densities below 2^31 * 1e-5 = 21474.8 (int32 at scale 1e-5); generated values are kept below 2e4",
        "Funwave scope = one spectrum, clip=False, at least two frequencies, amplitudes below 100 m (the %12.8f field has no separator)",
        "directions are compared on the circle (Funwave maps 0 to 360 on purpose; WW3 maps 360 to 0)",
        "SWAN has one NODATA flag per spectrum: partially missing spectra are out of scope; SWAN/Octopus negative energies are out of scope",
        "text formatting/parsing, JSON and netCDF encoding are runtime behaviour (DESIGN 1.5-3): models start at numbers, orderings and quantisation",
        "near-tie bins (|frac - 1/2| < 1e-6, scaled by the magnitude) may differ by one quantum and are counted as ambiguous; float32 input is "
        "compared at float32 precision",
    ]
    if os.environ.get("VERIF_DEBUG"):
        import collections

        c = collections.Counter()
        for kind, lst in (("FAIL", ck.oracle_failures), ("DISAGREE", ck.disagreements)):
            for f in lst:
                cs = f["case"]
                c[(kind, f["op"], f.get("trigger"), f["what"][:160])] += 1
                log(kind, f["op"], f.get("trigger"), f["what"][:200], "|", cs.get("fmt"), cs.get("icase"), cs.get("layout"), cs.get("shape"), cs.get("opts"))
    rc = ck.finish()
    shutil.rmtree(BUILD / "tmp", ignore_errors=True) if not any((BUILD / "tmp").glob("c11_*")) else None
    return rc


if __name__ == "__main__":
    from ..common import main_wrapper

    main_wrapper(run_check)

"""C04 — watershed gives one connected basin per spectral peak on the circular grid (DESIGN §3 C04, Appendix C).

What is decided how:
  proved (Lean, all sizes)     neighbour-table theorems, level discretisation, abstract flooding machine `flood_sound`
  tie, exact integer equality  real C (compiled from $VERIF_REPO) vs Lean transliteration: neighbour tables for all
                               mk, mth ≤ 40; label maps on exhaustively enumerated small grids and random larger ones
  checked per input            the Lean transliteration's ghost trace satisfies every guard (`Valid`) and is `Complete`
  direct oracle                the property re-stated in Python on the real extension's output (integers and floats)
"""
import json
import os
import subprocess
import tempfile
from concurrent.futures import ThreadPoolExecutor
from pathlib import Path

import numpy as np

from ..common import BUILD, LEAN, REPO, ROOT, Check, ensure_driver, import_ws, log, main_wrapper, parse_resp

IHS = [1, 2, 3, 5, 100]
CDRV = BUILD / "cdrv"
NCPU = max(1, min(16, os.cpu_count() or 1))


# ------------------------------------------------------------------------------------------------
# builds
# ------------------------------------------------------------------------------------------------
def build_cdrv():
    env = dict(os.environ, VERIF_REPO=str(REPO))
    r = subprocess.run([str(ROOT / "harness" / "cdrv" / "build.sh")], capture_output=True, text=True, env=env, timeout=600)
    if r.returncode != 0:
        raise RuntimeError("C driver build failed:\n" + (r.stdout + r.stderr)[-3000:])


def ensure_enumsp():
    from ..common import lake_build

    ok, out = lake_build(["enumsp"])
    if not ok:
        raise RuntimeError("enumsp build failed:\n" + out[-3000:])
    return LEAN / ".lake" / "build" / "bin" / "enumsp"


def run_lines(exe, lines, timeout=3000, env=None):
    r = subprocess.run([str(exe)], input="\n".join(lines) + "\n", capture_output=True, text=True, timeout=timeout, env=env)
    return r.returncode, r.stdout.splitlines(), r.stderr


def run_driver_par(lines, nproc=NCPU, timeout=3000):
    """The Lean driver on many request lines, split over processes (order preserved)."""
    ensure_driver()
    exe = LEAN / ".lake" / "build" / "bin" / "driver"
    if len(lines) < 64:
        nproc = 1
    chunks = [lines[i::nproc] for i in range(nproc)]

    def one(ch):
        if not ch:
            return []
        rc, out, err = run_lines(exe, ch, timeout=timeout)
        if rc != 0 or len(out) != len(ch):
            raise RuntimeError(f"driver rc={rc} lines={len(out)}/{len(ch)} {err[-500:]}")
        return out

    with ThreadPoolExecutor(nproc) as ex:
        outs = list(ex.map(one, chunks))
    res = [None] * len(lines)
    for k, o in enumerate(outs):
        res[k::nproc] = o
    return res


# ------------------------------------------------------------------------------------------------
# the property, stated directly (independent of the C and of the Lean model)
# ------------------------------------------------------------------------------------------------
def neighbours(nk, nth):
    """8-neighbour adjacency, direction axis (second) circular, frequency axis bounded. Sets of (f,t)."""
    N = {}
    for f in range(nk):
        for t in range(nth):
            s = set()
            for df in (-1, 0, 1):
                for dt in (-1, 0, 1):
                    if df == 0 and dt == 0:
                        continue
                    g = f + df
                    if 0 <= g < nk:
                        s.add((g, (t + dt) % nth))
            s.discard((f, t))
            N[(f, t)] = s
    return N


def levels_float(z32, ihmax):
    """Discretisation as the property states it: round((zmax-z)(ihmax-1)/(zmax-zmin)) clamped, on the float32 input.
    Returns (levels or None if constant, ambiguous flag)."""
    z = np.asarray(z32, dtype=np.float32)
    zmin, zmax = float(z.min()), float(z.max())
    if zmax - zmin < 1e-9:
        return None, False
    zp = (np.float64(zmax) - z.astype(np.float64)).astype(np.float32).astype(np.float64)
    x = zp * ((ihmax - 1.0) / (zmax - zmin))
    amb = bool(np.any(np.abs(x - np.floor(x) - 0.5) < 1e-9))
    # C's round(): half away from zero, decided on the double product itself (floor(x + 0.5) would round a product that is one
    # ulp below .5 up, because the addition rounds)
    fl = np.floor(x)
    lev = np.clip(np.where(x - fl >= 0.5, fl + 1, fl), 0, ihmax - 1).astype(int)
    return lev, amb


def levels_exact(zi, ihmax):
    """Exact-integer levels (what the Lean model computes)."""
    zi = np.asarray(zi).astype(object)
    zmin, zmax = min(zi.ravel()), max(zi.ravel())
    den = zmax - zmin
    out = np.zeros(zi.shape, dtype=int)
    for idx, v in np.ndenumerate(zi):
        num = (zmax - v) * (ihmax - 1)
        out[idx] = min(max(ihmax - 1, 0), (2 * num + den) // (2 * den)) if num >= 0 else 0
    return out


def components(cells, N, same):
    """Connected components of the set `cells` under adjacency N restricted by same(a,b)."""
    cells = set(cells)
    comps = []
    while cells:
        a = cells.pop()
        comp = {a}
        stack = [a]
        while stack:
            x = stack.pop()
            for y in N[x]:
                if y in cells and same(x, y):
                    cells.discard(y)
                    comp.add(y)
                    stack.append(y)
        comps.append(comp)
    return comps


def regional_minima(lev, N):
    """Plateaus (connected sets of equal level) all of whose outside neighbours are strictly higher."""
    nk, nth = lev.shape
    allc = [(f, t) for f in range(nk) for t in range(nth)]
    plats = components(allc, N, lambda a, b: lev[a] == lev[b])
    return [P for P in plats if all(lev[y] > lev[x] for x in P for y in N[x] if y not in P)]


def canon(lab):
    """Partition of the bin set as a canonical relabelling (first occurrence order, row-major); 0 stays 0."""
    m = {}
    out = np.zeros(lab.shape, dtype=int)
    for idx, v in np.ndenumerate(lab):
        if v == 0:
            continue
        if v not in m:
            m[v] = len(m) + 1
        out[idx] = m[v]
    return out


def oracle(z32, ihmax, lab, N=None):
    """Returns list of (clause, message). Empty = property holds on this output. Also returns ambiguous flag."""
    z32 = np.asarray(z32, dtype=np.float32)
    lab = np.asarray(lab)
    nk, nth = z32.shape
    lev, amb = levels_float(z32, ihmax)
    fails = []
    if lev is None:
        if lab.any():
            fails.append(("constant", "constant spectrum but non-zero labels"))
        return fails, amb, 0
    N = N or neighbours(nk, nth)
    if (lab < 1).any():
        fails.append(("unlabelled", f"{int((lab < 1).sum())} bins without a partition (label < 1)"))
    mins = regional_minima(lev, N)
    labels = sorted(set(int(v) for v in lab.ravel() if v > 0))
    if not amb:
        if labels != list(range(1, len(mins) + 1)):
            fails.append(("count", f"labels {labels[:12]}… vs {len(mins)} regional maxima of the discretised spectrum"))
        seen = {}
        for P in mins:
            ls = set(int(lab[x]) for x in P)
            if len(ls) != 1:
                fails.append(("peak-split", f"regional-maximum plateau {sorted(P)[:4]} carries labels {sorted(ls)}"))
            else:
                l = ls.pop()
                if l in seen and l > 0:
                    fails.append(("two-peaks", f"partition {l} contains two regional maxima {sorted(P)[:2]} {seen[l][:2]}"))
                seen[l] = sorted(P)
    for l in labels:
        cells = [tuple(x) for x in np.argwhere(lab == l)]
        if len(components(cells, N, lambda a, b: True)) != 1:
            fails.append(("disconnected", f"partition {l} is not connected"))
    return fails, amb, len(mins)


def continue_sweeps_ok(lab, N):
    """Known-finding predicate for float inputs: do further clean-up sweeps label every bin?"""
    lab = np.array(lab)
    while (lab == 0).any():
        upd = {}
        for idx in map(tuple, np.argwhere(lab == 0)):
            ls = [int(lab[y]) for y in N[idx] if lab[y] > 0]
            if ls:
                upd[idx] = ls[0]
        if not upd:
            return False
        for idx, v in upd.items():
            lab[idx] = v
    return True


def shift_check(part, z32, ihmax, lab, shifts):
    """C(shift x) = shift(C x) as partitions of the bin set. Returns list of (shift, n differing bins)."""
    bad = []
    base = canon(np.asarray(lab))
    for s in shifts:
        zs = np.ascontiguousarray(np.roll(z32, s, axis=1), dtype=np.float32)
        ls = np.asarray(part(zs, ihmax))
        back = canon(np.roll(ls, -s, axis=1))
        if not np.array_equal(back, base):
            # canonical numbering can differ just because of zeros/first occurrence: compare as partitions
            bad.append((s, int((back != base).sum())))
    return bad


# ------------------------------------------------------------------------------------------------
# generators
# ------------------------------------------------------------------------------------------------
def gen_int_grid(rng, nk, nth):
    kind = rng.choice(["ties", "ties2", "sparse", "plateau", "blobs", "ridge", "steps", "corridor"])
    if kind == "ties":
        a = rng.choice([2, 3, 4, 5, 9])
        z = np.array([[rng.randrange(a) for _ in range(nth)] for _ in range(nk)])
    elif kind == "ties2":
        z = np.array([[rng.choice([0, 0, 0, 1, 2, 8]) for _ in range(nth)] for _ in range(nk)])
    elif kind == "sparse":
        z = np.zeros((nk, nth), dtype=int)
        for _ in range(rng.randint(1, 5)):
            z[rng.randrange(nk), rng.randrange(nth)] = rng.randint(1, 8)
    elif kind == "plateau":
        z = np.full((nk, nth), rng.randint(0, 2))
        for _ in range(rng.randint(1, 3)):
            i0, i1 = sorted((rng.randrange(nk), rng.randrange(nk)))
            j0 = rng.randrange(nth); w = rng.randint(1, max(1, nth // 2))
            cols = [(j0 + k) % nth for k in range(w)]
            z[i0:i1 + 1, cols] = rng.randint(1, 6)
    elif kind == "blobs":
        z = np.zeros((nk, nth))
        for _ in range(rng.randint(1, 4)):
            i0, j0 = rng.randrange(nk), rng.randrange(nth)
            sf, sd = rng.uniform(0.7, 3.0), rng.uniform(0.7, max(1.0, nth / 5))
            amp = rng.choice([4, 16, 64])
            for i in range(nk):
                for j in range(nth):
                    dj = min(abs(j - j0), nth - abs(j - j0))
                    z[i, j] += amp * np.exp(-((i - i0) / sf) ** 2 - (dj / sd) ** 2)
        z = np.round(z).astype(int)
    elif kind == "ridge":
        z = np.array([[min(abs(j - nth // 2), 6) + (i % 2) * rng.randint(0, 1) for j in range(nth)] for i in range(nk)])
    elif kind == "steps":
        z = np.array([[(i // rng.randint(1, 3)) + (j // rng.randint(1, 3)) for j in range(nth)] for i in range(nk)])
    else:  # corridor: thin low-level paths in a high plateau (thick watershed zones)
        H = rng.randint(8, 64)
        z = np.zeros((nk, nth), dtype=int)
        for _ in range(rng.randint(1, 3)):
            i, j = rng.randrange(nk), rng.randrange(nth)
            v = H
            for _ in range(rng.randint(1, nk + nth)):
                z[i, j] = max(z[i, j], v)
                v = max(1, v - rng.randint(0, 2))
                di, dj = rng.choice([(1, 0), (-1, 0), (0, 1), (0, -1), (1, 1), (1, -1)])
                i = min(nk - 1, max(0, i + di)); j = (j + dj) % nth
    return np.asarray(z, dtype=np.int64), kind


def gen_float_grid(rng, nk, nth):
    kind = rng.choice(["smooth", "smooth", "smooth", "noisy", "smooth+noise"])
    z = np.zeros((nk, nth))
    if kind != "noisy":
        for _ in range(rng.randint(1, 4)):
            i0, j0 = rng.uniform(0, nk - 1), rng.uniform(0, nth)
            sf, sd = rng.uniform(0.8, max(1.0, nk / 4)), rng.uniform(0.8, max(1.0, nth / 5))
            amp = rng.uniform(0.1, 30)
            ii = np.arange(nk)[:, None]; jj = np.arange(nth)[None, :]
            dj = np.minimum(np.abs(jj - j0), nth - np.abs(jj - j0))
            z += amp * np.exp(-((ii - i0) / sf) ** 2 - (dj / sd) ** 2)
    if kind != "smooth":
        z += np.array([[rng.random() for _ in range(nth)] for _ in range(nk)]) * (z.max() * 0.05 if kind == "smooth+noise" else 1.0)
    return np.ascontiguousarray(z, dtype=np.float32), kind


def shape_class(n):
    return "1" if n == 1 else "2" if n == 2 else "3-5" if n <= 5 else "6-16" if n <= 16 else "17+"


# ------------------------------------------------------------------------------------------------
# exhaustive enumeration: C stream vs Lean stream
# ------------------------------------------------------------------------------------------------
def run_group(cmd, timeout, env=None):
    """Run a shell command in its own process group; kill the whole group on timeout. Returns (rc, out, timed_out)."""
    import signal

    p = subprocess.Popen(["bash", "-c", cmd], stdout=subprocess.PIPE, stderr=subprocess.STDOUT, text=True,
                         start_new_session=True, env=env)
    try:
        out, _ = p.communicate(timeout=timeout)
        return p.returncode, out, False
    except subprocess.TimeoutExpired:
        try:
            os.killpg(p.pid, signal.SIGKILL)
        except ProcessLookupError:
            pass
        out, _ = p.communicate()
        return -9, out or "", True


def locate_hang(cexe, nk, nth, a, ih, budget=20):
    """Which grid makes the C enumerator hang/crash: count the lines it prints with line-buffered output."""
    with tempfile.NamedTemporaryFile("r", suffix=".out", delete=False) as tf:
        outf = tf.name
    env = dict(os.environ, CENUM_LINEBUF="1")
    rc, _, tmo = run_group(f"'{cexe}' {nk} {nth} {a} {ih} > '{outf}'", budget, env=env)
    n = sum(1 for _ in open(outf))
    os.unlink(outf)
    return n, rc, tmo


def enum_job(args):
    nk, nth, a, ih, stride, cexe, lexe = args
    with tempfile.NamedTemporaryFile("r", suffix=".sum", delete=False) as tf:
        sumf = tf.name
    total = a ** (nk * nth)
    tmo = 120 + total / 300.0
    cmd = (f"cmp <('{cexe}' {nk} {nth} {a} {ih}) <('{lexe}' {nk} {nth} {a} {ih} check {stride} 2>'{sumf}')")
    rc, out, timed_out = run_group(cmd, tmo)
    summ = Path(sumf).read_text().strip()
    os.unlink(sumf)
    return (nk, nth, a, ih), rc, out.strip(), summ, timed_out


def decode_grid(code, nk, nth, a):
    v = []
    for _ in range(nk * nth):
        v.append(code % a)
        code //= a
    return np.array(v).reshape(nk, nth)


def exhaustive(ck, spaces, stride_of, cexe, lexe, tag):
    jobs = []
    for (maxcells, a) in spaces:
        for nk in range(1, maxcells + 1):
            for nth in range(1, maxcells // nk + 1):
                for ih in IHS:
                    jobs.append((nk, nth, a, ih, stride_of(nk * nth), str(cexe), str(lexe)))
    jobs.sort(key=lambda j: -(j[2] ** (j[0] * j[1])) * (3 if j[3] == 100 else 1))
    tot = dict(grids=0, checked=0)
    with ThreadPoolExecutor(NCPU) as ex:
        for key, rc, msg, summ, timed_out in ex.map(enum_job, jobs):
            nk, nth, a, ih = key
            if timed_out:
                # the C enumerator (or, never observed, the Lean one) does not finish: find the grid
                n, rc2, tmo2 = locate_hang(cexe, nk, nth, a, ih)
                if tmo2 or rc2 != 0:
                    ck.fail("native", f"specpart.c does not terminate / crashes (rc={rc2}) on grid code {n} of space {key}",
                            dict(nk=nk, nth=nth, alphabet=a, ihmax=ih, code=n, grid=decode_grid(n, nk, nth, a).tolist()),
                            "native_memory_or_termination")
                else:
                    raise RuntimeError(f"enumeration of {key} timed out but the C enumerator alone finishes")
                continue
            if rc != 0:
                import re
                m = re.search(r"line (\d+)", msg)
                code = int(m.group(1)) - 1 if m else None
                grid = decode_grid(code, nk, nth, a).tolist() if code is not None else None
                ck.disagree("enum", f"C and Lean label-map streams differ on space {key}: {msg[-200:]}",
                            dict(nk=nk, nth=nth, alphabet=a, ihmax=ih, code=code, grid=grid))
                ck.evaluations += (code or 0) + 1
                continue
            parts = summ.split()
            if len(parts) != 10 or parts[0] != "SUMMARY":
                raise RuntimeError(f"enumsp failed on {key}: {summ!r} {msg!r}")
            total, checked, invalid, incomplete, oob, fuel, indbad, labbad, firstbad = map(int, parts[1:])
            tot["grids"] += total
            tot["checked"] += checked
            ck.evaluations += total
            ck.count(f"enum:{tag}:a{a}:ih{ih}", total)
            if invalid or incomplete or oob or fuel or indbad or labbad:
                grid = decode_grid(firstbad, nk, nth, a).tolist() if firstbad >= 0 else None
                ck.disagree("trace", f"space {key}: invalid={invalid} incomplete={incomplete} oob={oob} fuel={fuel} "
                            f"ptsort≠spec={indbad} abstract-labels≠concrete={labbad}",
                            dict(nk=nk, nth=nth, alphabet=a, ihmax=ih, code=firstbad, grid=grid))
    return tot


# ------------------------------------------------------------------------------------------------
def run_check():
    ck = Check("C04")
    ck.extra["rule"] = ("distinct (nk class, nth class, ihmax, generator kind, #labels class, has-plateau-peak, seam-touching) of "
                        "random non-constant grids; exhaustive spaces are counted separately in `exhaustive_spaces`")
    ck.do_audit()
    build_cdrv()
    lexe = ensure_enumsp()
    ws = import_ws()
    from wavespectra.partition import specpart

    def part(z, ih):
        return np.asarray(specpart.partition(np.ascontiguousarray(z, dtype=np.float32), int(ih)))

    thorough = ck.tier == "thorough"
    # the C text differs from the one the transliteration was validated against (Props/C04ctext.lean no longer checks):
    # search as deeply as the thorough tier does, whatever tier was asked for
    escalate = any("c_text" in b for b in (ck.audit or {}).get("broken", []))
    if escalate and not thorough:
        ck.extra["escalated"] = "specpart.c changed (C04.specpart_c_text broken): thorough-tier search used to look for a failing input"
        thorough = True
    rng = ck.rng

    # ---- (i) neighbour tables, real C vs Lean, all mk, mth ≤ 40
    reqs = [f"neigh {mk} {mth}" for mk in range(1, 41) for mth in range(1, 41)]
    rc, cout, cerr = run_lines(CDRV / "cdrv", reqs)
    if rc != 0 or len(cout) != len(reqs):
        raise RuntimeError(f"cdrv neigh failed rc={rc} {cerr[-500:]}")
    lout = run_driver_par(reqs)
    nbad = 0
    for rq, c, l in zip(reqs, cout, lout):
        st, mo = parse_resp(l)
        cl = [int(x) for x in c.split()]
        if st != "ok" or mo["rows"] != cl:
            nbad += 1
            if nbad <= 3:
                ck.disagree("neigh", f"neighbour table differs for {rq}", dict(req=rq, c=cl[:40], lean=(mo.get('rows') if st == 'ok' else mo)[:40] if st == 'ok' else mo))
    ck.evaluations += len(reqs)
    ck.extra["neigh_tables_compared"] = dict(shapes=len(reqs), rule="all mk, mth in 1..40", differing=nbad)

    # ---- (i') int_minval (decides whether another clean-up sweep runs), real C vs its specification, every list over
    # {-1, 0, 1, 2, 7} of length 1..6 (the Lean transliteration uses the specification `all (· > 0)` directly)
    import itertools

    mv = [list(t) for n in range(1, 7) for t in itertools.product([-1, 0, 1, 2, 7], repeat=n)]
    rc, cout, cerr = run_lines(CDRV / "cdrv", [f"minval {len(t)} " + " ".join(map(str, t)) for t in mv])
    if rc != 0 or len(cout) != len(mv):
        raise RuntimeError(f"cdrv minval failed rc={rc} {cerr[-300:]}")
    nbadmv = 0
    for t, c in zip(mv, cout):
        if int(c) != min(t):
            nbadmv += 1
            if nbadmv <= 3:
                ck.disagree("int_minval", f"int_minval({t}) = {c}, the minimum is {min(t)}", dict(data=t, c=int(c)))
    ck.evaluations += len(mv)
    ck.extra["int_minval_compared"] = dict(lists=len(mv), rule="all lists over {-1,0,1,2,7} of length 1..6", differing=nbadmv)

    # ---- corpus (witnesses of findings first)
    corpus_cases = []
    for p in sorted((ROOT / "corpus" / "C04").glob("*.json")):
        d = json.loads(p.read_text())
        corpus_cases.append((np.array(d["grid"], dtype=np.int64), int(d["ihmax"]), "corpus:" + p.stem))

    # ---- replay of a recorded violation: only the recorded grids
    replay = os.environ.get("VERIF_REPLAY")
    replay_float = []
    if replay:
        rp = Path(replay) if os.path.isabs(replay) else ROOT / replay
        d = json.loads(rp.read_text())
        for ent in d.get("failures", []) + d.get("disagreements", []):
            c = ent.get("case", {})
            if c.get("grid") is None or c.get("ihmax") is None:
                continue
            arr = np.array(c["grid"], dtype=float)
            if np.all(arr == np.round(arr)):
                corpus_cases.append((arr.astype(np.int64), int(c["ihmax"]), "replay"))
            else:
                replay_float.append((np.ascontiguousarray(arr, dtype=np.float32), int(c["ihmax"]), "replay"))

    # ---- (ii)+(iii) exhaustive small grids: streams C vs Lean, every Lean trace validated
    if replay:
        spaces = []
        stride_of = lambda cells: 1
    elif thorough:
        spaces = [(12, 3), (16, 2)]
        stride_of = lambda cells: 1 if cells <= 10 else 3
    else:
        spaces = [(9, 3)]
        stride_of = lambda cells: 1
    tot = exhaustive(ck, spaces, stride_of, CDRV / "cenum", lexe, "x")
    ck.extra["exhaustive_spaces"] = [dict(max_cells=m, alphabet=a, ihmax=IHS, every_shape=True) for m, a in spaces]
    ck.extra["exhaustive_grids"] = tot["grids"]

    # ---- random grids: real extension vs Lean (exact ints) + oracle; float grids: oracle
    nint = 400 if not thorough else 6000
    nflt = 150 if not thorough else 2500
    if replay:
        nint = nflt = 0
    cases = list(corpus_cases)
    for k in range(nint):
        if rng.random() < 0.55:
            nk, nth = rng.randint(1, 8), rng.randint(1, 10)
        else:
            nk, nth = rng.randint(1, 40), rng.randint(1, 72)
        z, kind = gen_int_grid(rng, nk, nth)
        ih = rng.choice(IHS + [4, 7, 20, 50])
        cases.append((z, ih, kind))
    fcases = []
    for k in range(nflt):
        if rng.random() < 0.4:
            nk, nth = rng.randint(1, 8), rng.randint(1, 10)
        else:
            nk, nth = rng.randint(2, 40), rng.randint(2, 72)
        z32, kind = gen_float_grid(rng, nk, nth)
        if rng.random() < 0.25:
            # calm-sea magnitudes: the same shape scaled by an exact power of two down to ranges of 1e-9..1e-6
            z32 = (z32 * np.float32(2.0 ** -rng.randint(18, 32))).astype(np.float32)
            kind += ":tiny"
        fcases.append((z32, rng.choice([2, 3, 5, 20, 50, 100, 100, 100, 250]), kind))
    fcases += replay_float
    # pre-pass: the same C routine in a child process (a hang or crash of the native code must not take the harness down)
    allc = [(np.asarray(z, dtype=np.float32), ih) for z, ih, _ in cases] + [(z, ih) for z, ih, _ in fcases]
    plines = [f"part {z.shape[0]} {z.shape[1]} {ih} " + " ".join(repr(float(v)) for v in z.ravel()) for z, ih in allc]
    outf = tempfile.NamedTemporaryFile("w", suffix=".in", delete=False)
    outf.write("\n".join(plines) + "\n"); outf.close()
    env = dict(os.environ, CENUM_LINEBUF="1")
    rc, pout, ptmo = run_group(f"'{CDRV / 'cdrv'}' < '{outf.name}'", 120 + 0.05 * len(plines), env=env)
    os.unlink(outf.name)
    pre = pout.splitlines()
    if ptmo or rc != 0 or len(pre) != len(plines) or ck.oracle_failures and any(f["trigger"] == "native_memory_or_termination" for f in ck.oracle_failures):
        if ptmo or rc != 0 or len(pre) != len(plines):
            z, ih = allc[min(len(pre), len(allc) - 1)]
            ck.fail("native", f"specpart.c {'does not terminate' if ptmo else f'crashes (rc={rc})'} on this grid (run in a child process)",
                    dict(nk=z.shape[0], nth=z.shape[1], ihmax=ih, grid=z.tolist()), "native_memory_or_termination")
        ck.extra["random_cases"] = "skipped: the native routine hangs/crashes; not calling it in-process"
        return ck.finish()
    pre_int, pre_flt = pre[:len(cases)], pre[len(cases):]
    # ---- the Python layer in front of the C routine (np_ptm3): the basins it returns for a spectrum stored Fortran-ordered,
    # as a transposed float32 view or as a strided view are the label regions of the logical array
    from wavespectra.partition.partition import np_ptm3

    nlay = 0
    for (z, ih, kind) in cases:
        nk, nth = z.shape
        if nk < 2 or nth < 2 or nlay >= (60 if not thorough else 600):
            continue
        zp = np.asarray(z, dtype=float) + 1.0
        if float(zp.max()) == float(zp.min()) or float(zp.max()) >= 2 ** 24:
            continue
        nlay += 1
        ref = part(zp, ih)
        want = {frozenset(map(tuple, np.argwhere(ref == k))) for k in range(1, int(ref.max()) + 1)}
        want.discard(frozenset())
        fq, dr = np.linspace(0.05, 0.4, nk), np.linspace(0.0, 360.0, nth, endpoint=False)
        for tag, v in (("fortran_f64", np.asfortranarray(zp)), ("transposed_view_f32", np.ascontiguousarray(zp.T, dtype=np.float32).T),
                       ("strided_f32", np.repeat(zp.astype(np.float32), 2, axis=1)[:, ::2])):
            ck.evaluations += 1
            ck.count("python_layer:" + tag)
            try:
                got = {frozenset(map(tuple, np.argwhere(np.asarray(q) > 0))) for q in np_ptm3(v, v, fq, dr, parts=None, ihmax=ih)}
            except Exception as e:
                ck.fail("np_ptm3", f"raised {type(e).__name__}: {e} for a {tag} input", dict(nk=nk, nth=nth, ihmax=ih, grid=zp.tolist(), layout=tag), "crash")
                continue
            got.discard(frozenset())
            if got != want:
                ck.fail("np_ptm3", f"basins returned for a {tag} input are not the label regions of the same logical array "
                                   f"({len(got)} partitions vs {len(want)} basins)", dict(nk=nk, nth=nth, ihmax=ih, grid=zp.tolist(), layout=tag),
                        "python_layer_layout")
    reqs, ctx = [], []
    n_traces = tot["checked"]
    shift_diff_cases = 0
    shift_diff_bins = 0
    shift_total = 0
    for (z, ih, kind), pl in zip(cases, pre_int):
        nk, nth = z.shape
        z32 = np.ascontiguousarray(z, dtype=np.float32)
        lab = part(z32, ih)
        if [int(v) for v in pl.split()] != [int(v) for v in lab.ravel()]:
            ck.fail("wrapper", "label map returned by the extension differs from the C routine driven directly with the documented layout",
                    dict(nk=nk, nth=nth, ihmax=ih, grid=z.tolist(), ext=lab.tolist(), direct=pl), None)
        N = neighbours(nk, nth)
        fails, amb, nmin = oracle(z32, ih, lab, N)
        lev, _ = levels_float(z32, ih)
        exact_ok = lev is None or np.array_equal(lev, levels_exact(z, ih))
        nsh = nth if nth <= 6 else 3
        shifts = list(range(1, nth)) if nth <= 6 else sorted(set(rng.randrange(1, nth) for _ in range(nsh)))
        sb = shift_check(part, z32, ih, lab, shifts) if lev is not None else []
        shift_total += len(shifts)
        if sb:
            shift_diff_cases += 1
            shift_diff_bins += sum(n for _, n in sb)
        ctx.append(dict(z=z, ih=ih, kind=kind, lab=lab, fails=fails, amb=amb, nmin=nmin, exact_ok=exact_ok, shift_bad=sb,
                        const=lev is None))
        reqs.append(f"specpart {nk} {nth} {ih} {rng.choice([0, 7777, -100])} im {nk} {nth} " + " ".join(str(int(v)) for v in z.ravel()))
    resps = run_driver_par(reqs)
    for c, resp in zip(ctx, resps):
        z, ih, lab = c["z"], c["ih"], c["lab"]
        nk, nth = z.shape
        case = dict(nk=nk, nth=nth, ihmax=ih, kind=c["kind"], grid=z.tolist())
        st, mo = parse_resp(resp)
        seam = bool((lab[:, 0][:, None] == lab[:, -1][None, :]).any()) if nth > 2 and not c["const"] else False
        sig = (shape_class(nk), shape_class(nth), ih, c["kind"], shape_class(max(1, int(lab.max()))), seam)
        ck.case(sig, nontrivial=not c["const"], sample=dict(nk=nk, nth=nth, ihmax=ih, kind=c["kind"], labels=int(lab.max())))
        model_agrees = False
        incomplete = False
        if st != "ok":
            ck.disagree("specpart", f"model error: {mo}", case)
        elif not c["exact_ok"]:
            # the float level computation (C's double product and round(), emulated exactly) differs from the exact rational one,
            # e.g. 49·(1/98) is one ulp below .5: not comparable with the exact-integer model
            ck.ambiguous += 1
        else:
            n_traces += 1
            ml = np.array(mo["labels"])
            model_agrees = np.array_equal(ml, lab)
            if not model_agrees:
                ck.disagree("specpart", "label maps differ (real extension vs Lean transliteration)",
                            dict(case, impl=lab.tolist(), model=ml.tolist()))
            if mo["oob"] or mo["fuel"]:
                ck.disagree("specpart", f"Lean transliteration: oob={mo['oob']} fuelOut={mo['fuel']}", case)
            if not mo["valid"]:
                ck.disagree("trace", f"ghost trace violates a guard of the abstract machine at step {mo['info']}", case)
            elif not mo["indok"] or not mo["labelsok"]:
                ck.disagree("trace", f"ptsort=spec {mo['indok']}, abstract labels=concrete {mo['labelsok']}", case)
            incomplete = bool(mo["valid"]) and not mo["complete"]
            ck.count("trace:incomplete" if incomplete else "trace:valid+complete")
        for clause, msg in c["fails"]:
            trig = None
            if clause == "unlabelled" and model_agrees and incomplete:
                # the model (which mirrors the code) agrees and all guards hold: only the 5-sweep clean-up fell short
                trig = "wshed_thicker_than_5_sweeps"
            ck.fail("partition", f"{clause}: {msg}", dict(case, labels=lab.tolist()), trig)
        for s, nb in c["shift_bad"][:1]:
            ck.fail("partition", f"shift: circular shift by {s} along direction changes the partition on {nb} bins",
                    dict(case, shift=s, labels=lab.tolist()), "shift_equivariance")
    # float grids: oracle only (levels recomputed in float; near-tie roundings counted as ambiguous inside oracle)
    for (z32, ih, kind), pl in zip(fcases, pre_flt):
        nk, nth = z32.shape
        lab = part(z32, ih)
        if [int(v) for v in pl.split()] != [int(v) for v in lab.ravel()]:
            ck.fail("wrapper", "label map returned by the extension differs from the C routine driven directly with the documented layout",
                    dict(nk=nk, nth=nth, ihmax=ih, grid=z32.tolist(), ext=lab.tolist(), direct=pl), None)
        N = neighbours(nk, nth)
        fails, amb, nmin = oracle(z32, ih, lab, N)
        if amb:
            ck.ambiguous += 1
        case = dict(nk=nk, nth=nth, ihmax=ih, kind="float:" + kind, grid=[[float(v) for v in r] for r in z32])
        ck.case((shape_class(nk), shape_class(nth), ih, "float:" + kind, shape_class(max(1, int(lab.max())))), nontrivial=True)
        for clause, msg in fails:
            trig = None
            if clause == "unlabelled" and len(fails) == 1 and (lab >= 0).all() and continue_sweeps_ok(lab, N):
                trig = "wshed_thicker_than_5_sweeps"
            ck.fail("partition", f"{clause}: {msg}", dict(case, labels=lab.tolist()), trig)
        shifts = sorted(set(rng.randrange(1, nth) for _ in range(2))) if nth > 1 else []
        sb = shift_check(part, z32, ih, lab, shifts)
        shift_total += len(shifts)
        if sb:
            shift_diff_cases += 1
            shift_diff_bins += sum(n for _, n in sb)
            ck.fail("partition", f"shift: circular shift by {sb[0][0]} changes the partition on {sb[0][1]} bins",
                    dict(case, shift=sb[0][0], labels=lab.tolist()), "shift_equivariance")
    ck.extra["traces_validated_against_impl"] = n_traces
    ck.extra["random_cases"] = dict(integer=len(cases), float=len(fcases), max_shape="40x72")
    ck.extra["shift_relation"] = dict(shifted_runs=shift_total, cases_with_any_difference=shift_diff_cases,
                                      differing_bins=shift_diff_bins,
                                      note="compared as partitions of the bin set (labels renamed by first occurrence)")
    ck.assumptions = [
        "flood_sound is a theorem about every valid complete trace of the abstract machine; that the transliteration of pt_fld emits a "
        "valid trace, and that five clean-up sweeps suffice (Complete), is evaluated per input by the compiled Lean checker (exploration)",
        "C-vs-Lean tie is exact integer equality on integer-valued spectra whose float level computation is exact (others counted ambiguous)",
        "float spectra: oracle only; level ties within 1e-9 of a half integer counted ambiguous",
    ]
    return ck.finish()


if __name__ == "__main__":
    main_wrapper(run_check)

"""C01 — integrated parameters equal their defining integrals (DESIGN §3 C01)."""
import math

import numpy as np

from .. import gen
from ..common import Check, ang_close, close, enc, enc_m, enc_optv, enc_v, fr, import_ws, parse_resp, run_driver

R2D = 180.0 / math.pi
PI = math.pi
THR, QUARTER, DEEP, HMAXK = 0.333, 0.25, 1.56, 1.86  # constants of the property statement


def wavenuma_ref(freq, depth):
    """Chen & Thomson (as published): k0h(1 + 1/(k0h·P(k0h)))^½ / h."""
    w = 2 * PI * np.asarray(freq, dtype=float)
    k0h = 0.10194 * w * w * depth
    D = [0, 0.6522, 0.4622, 0, 0.0864, 0.0675]
    a = 1.0 + sum(D[i] * k0h ** i for i in range(1, 6))
    return (k0h * (1 + 1.0 / (k0h * a)) ** 0.5) / depth


def k_table(freq, depth):
    if depth is None:
        L = DEEP / np.asarray(freq, dtype=float) ** 2
        return 2 * PI / L
    return wavenuma_ref(freq, depth)


def oracle(freq, dirs, E, tail=True):
    """Published definitions evaluated bin by bin with plain loops (independent of xarray and of the model)."""
    nf = len(freq)
    f = [float(x) for x in freq]
    if nf > 1:
        df = [f[1] - f[0]] + [(f[i + 1] - f[i - 1]) / 2 for i in range(1, nf - 1)] + [f[-1] - f[-2]]
    else:
        df = [1.0]
    E = np.asarray(E, dtype=float)
    if dirs is None:
        dd = 1.0
        S = [float(E[i, 0]) for i in range(nf)]
    else:
        dd = gen.bin_width(dirs)
        S = [dd * math.fsum(E[i, :]) for i in range(nf)]
    out = {}
    m = [math.fsum(S[i] * df[i] * f[i] ** k for i in range(nf)) for k in range(5)]
    out["m"] = m
    e0 = m[0]
    if tail and f[-1] > THR:
        e0 = e0 + QUARTER * S[-1] * f[-1]
    out["hsE"] = e0
    if dirs is not None:
        s, c = gen.trig_tables(dirs)
        out["dmS"] = math.fsum(dd * E[i, j] * s[j] for i in range(nf) for j in range(len(dirs)))
        out["dmC"] = math.fsum(dd * E[i, j] * c[j] for i in range(nf) for j in range(len(dirs)))
        out["a"] = math.fsum(dd * E[i, j] * s[j] * df[i] for i in range(nf) for j in range(len(dirs)))
        out["b"] = math.fsum(dd * E[i, j] * c[j] * df[i] for i in range(nf) for j in range(len(dirs)))
    out["goda_num"] = math.fsum(S[i] ** 2 * f[i] * df[i] for i in range(nf))
    return out


def dm_from(S, C):
    return (270.0 - R2D * math.atan2(S, C)) % 360.0


def _at(v, pos):
    if hasattr(v, "data_vars"):
        v = v[list(v.data_vars)[0]]
    v = v.isel({k: i for k, i in pos.items() if k in v.dims})
    return v.compute() if hasattr(v, "compute") else v


def make_case(args):
    seed, icase = args
    from ..common import case_rng

    rng = case_rng("C01", seed, icase)
    reqs, ctxs = [], []
    exact = rng.random() < 0.5
    nf = rng.choice([1, 2, 3, 4, 5, 8, 12, 25, 32]) if rng.random() < 0.8 else rng.randint(1, 40)
    oned = rng.random() < 0.12
    nd = None if oned else (rng.choice(gen.EXACT_ND) if exact or rng.random() < 0.5 else rng.randint(1, 50))
    freq, fkind = gen.gen_freq(rng, nf, exact=exact)
    if oned:
        dirs, order = None, "1d"
    else:
        dirs, order = gen.gen_dirs(rng, nd, order=rng.choice(["sorted", "sorted", "rotated", "reversed", "seam"]), exact=exact)
    dtype = rng.choice(["float64", "float64", "float32"])
    extra = []
    nextra = rng.choice([0, 0, 1, 2])
    names = rng.sample(["time", "site", "lat", "lon"], nextra)
    shape = []
    for nme in names:
        n = rng.randint(1, 3)
        shape.append(n)
        if nme == "time":
            dt = rng.choice([1800, 3600, 10800])
            vals = np.array(["2020-01-01T00:00:00"], dtype="datetime64[s]") + np.arange(n) * np.timedelta64(dt, "s")
            extra.append((nme, vals.astype("datetime64[ns]")))
        else:
            extra.append((nme, np.arange(n, dtype=float)))
    npos = int(np.prod(shape)) if shape else 1
    kinds = []
    Es = []
    for _ in range(npos):
        E, kind = gen.gen_spectrum(rng, nf, nd or 1, exact=exact)
        if not exact and kind not in ("zero",):
            E = E * rng.choice([1e-3, 1.0, 37.5])
        Es.append(E)
        kinds.append(kind)
    arr = np.array(Es).reshape(tuple(shape) + (nf, nd or 1))
    if oned:
        arr = arr[..., 0]
    da = gen.make_da(freq, dirs, arr, dtype=dtype, extra=extra)
    if rng.random() < 0.3 and da.ndim > 1:
        perm = list(da.dims)
        rng.shuffle(perm)
        da = da.transpose(*perm)
    use_ds = rng.random() < 0.3
    obj = da.to_dataset(name="efth") if use_ds else da
    depth = rng.choice([None, None, 5.0, 30.0, 200.0])
    tail = rng.random() < 0.8
    # ---------------- implementation
    import zlib
    hsh = zlib.crc32(np.ascontiguousarray(da.values).tobytes())
    if hsh % 3 == 0:
        # the object has a history: the same Python object held other axes / other energy when its accessor first served these
        # calls and was then edited in place (coords[...] = / ds["efth"] = ) into what it holds now (gen.primed)
        def _prime(o):
            for nm in ("hs", "tm01", "tm02", "swe", "goda", "oned", "mss") + (() if oned else ("dm", "dspr", "uss")):
                getattr(o.spec, nm)()
        obj = gen.primed(obj, _prime, variant=(hsh // 3) % 3 if use_ds else 0)
        da = obj["efth"] if use_ds else obj
    sp = obj.spec
    impl = {}
    if rng.random() < 0.2:
        # the object held another spectrum when it was first asked for its parameters; its values were then overwritten in
        # place — the integrals below are those of the contents it has now
        real = np.array(da.values, copy=True)
        try:
            da.values[...] = np.flip(real, axis=da.get_axis_num("freq")) * 0.25
            for nm in ("hs", "tm01", "tm02", "swe", "goda", "oned") + (() if oned else ("dm", "dspr", "uss")):
                getattr(sp, nm)()
        except Exception:
            pass
        da.values[...] = real
    try:
        impl["hs"] = sp.hs(tail=tail)
        impl["hrms"] = sp.hrms(tail=tail)
        for k in range(5):
            impl[f"m{k}"] = sp.momf(k)
        impl["tm01"] = sp.tm01()
        impl["tm02"] = sp.tm02()
        impl["swe"] = sp.swe()
        impl["sw"] = sp.sw()
        impl["gw"] = sp.gw()
        impl["goda"] = sp.goda()
        impl["mss"] = sp.mss(depth=depth)
        impl["oned"] = sp.oned()
        impl["energy"] = sp.to_energy()
        impl["hmax"] = sp.hmax()
        if not oned:
            ms, mc = sp.momd(1)
            impl["msin"], impl["mcos"] = ms, mc
            impl["dm"] = sp.dm()
            impl["dspr"] = sp.dspr()
            impl["uss"] = sp.uss(depth=depth)
            impl["ussx"] = sp.uss_x(depth=depth)
            impl["ussy"] = sp.uss_y(depth=depth)
    except Exception as e:  # C20 territory, but a crash on valid input is reported here too
        return [("CRASH", dict(what=f"{type(e).__name__}: {e}", case=dict(case=icase, nf=nf, nd=nd, kinds=kinds)))]
    rel = 1e-9 if dtype == "float64" else 8e-6
    lead = [d for d in da.dims if d not in ("freq", "dir")]
    positions = [dict(zip(lead, idx)) for idx in np.ndindex(*[da.sizes[d] for d in lead])]
    rng.shuffle(positions)
    for pos in positions[:3]:
        sub = da.isel(pos)
        E2 = sub.transpose("freq", "dir").values if not oned else sub.values[:, None]
        E2 = np.asarray(E2)
        kt = k_table(freq, depth)
        fk = 4 * PI * freq * kt
        if oned:
            s = c = []
        else:
            s, c = gen.trig_tables(dirs)
        reqs.append(" ".join(["stats", "1" if tail else "0", enc_v(freq), enc_optv(dirs), enc_m(E2, E2.shape[1]),
                              enc_v(s), enc_v(c), enc_v(fk), enc_v(kt ** 2)]))
        kind = kinds[0] if npos == 1 else "multi"
        ctxs.append(dict(icase=icase, pos=pos, impl={k: _at(v, pos) for k, v in impl.items()}, freq=freq, dirs=dirs, E=E2, tail=tail, depth=depth, rel=rel,
                         dtype=dtype, oned=oned, has_time=("time" in da.dims and da.sizes["time"] > 1),
                         dt=(float((extra[[n for n, _ in extra].index("time")][1][1] - extra[[n for n, _ in extra].index("time")][1][0]) / np.timedelta64(1, "s")) if ("time" in da.dims and da.sizes["time"] > 1) else None),
                         sig=gen.signature(nf, nd or 0, fkind, order, kind, dtype, len(lead), "ds" if use_ds else "da"),
                         nontrivial=bool(E2.any()) and nf >= 2,
                         desc=dict(nf=nf, nd=nd, fkind=fkind, order=order, kinds=kinds[:3], dtype=dtype, dims=list(da.dims),
                                   tail=tail, depth=depth)))
    return list(zip(reqs, ctxs))


def run_check():
    ck = Check("C01")
    ck.extra["rule"] = ("cases = (grid, spectrum kind, dtype, container) drawn from the shared generators; signature = "
                        "(nf class, nd class, freq kind/tail side, dir order, spectrum kind, dtype, ndims); non-trivial = "
                        "not all-zero and nf ≥ 2")
    ck.do_audit()
    import_ws()
    import xarray as xr
    from wavespectra.core import npstats, utils

    from ..common import pmap

    ncases = 220 if ck.tier == "quick" else 3000
    reqs, ctxs = [], []
    from ..common import replay_ids

    for res in pmap(make_case, [(ck.seed, i) for i in replay_ids(ck, ncases)]):
        for req, ctx in res:
            if req == "CRASH":
                ck.fail("stats", ctx["what"], ctx["case"], None)
            else:
                reqs.append(req)
                ctxs.append(ctx)
    resps = run_driver(reqs)
    for req, ctx, resp in zip(reqs, ctxs, resps):
        st, mo = parse_resp(resp)
        case = dict(ctx["desc"], icase=ctx["icase"], pos={k: int(v) for k, v in ctx["pos"].items()}, freq=[float(x) for x in ctx["freq"]],
                    dirs=None if ctx["dirs"] is None else [float(x) for x in ctx["dirs"]], E=np.asarray(ctx["E"]).tolist())
        ck.case(ctx["sig"], ctx["nontrivial"], sample=dict(case=ctx["desc"], model={k: str(v)[:40] for k, v in list(mo.items())[:6]} if st == "ok" else resp))
        if st != "ok":
            ck.disagree("stats", f"model error {mo}", case)
            continue
        impl = ctx["impl"]
        rel = ctx["rel"]
        pos = ctx["pos"]

        def at(name):
            return impl[name]

        def cmp(name, implv, modelv, scale=None, relx=None, abs_=1e-300):
            if not close(implv, modelv, rel=relx or rel, scale=scale, abs_=abs_):
                ck.disagree("stats:" + name, f"impl={implv!r} model={None if modelv is None else float(modelv)!r}", case)
                return False
            return True

        E = ctx["E"]
        tot = float(np.abs(E).sum()) or 1.0
        orc = oracle(ctx["freq"], ctx["dirs"], E, tail=ctx["tail"])
        hsE = mo["hsE"]
        hs_i = float(at("hs"))
        cmp("hs", hs_i, 4 * math.sqrt(hsE))
        cmp("hrms", float(at("hrms")), math.sqrt(8 * hsE))
        # property oracle on the implementation: hs² /16 equals the published integral (+ tail)
        if not close(hs_i, 4 * math.sqrt(orc["hsE"]), rel=rel):
            ck.fail("hs", f"hs={hs_i} but 4·sqrt(defining integral)={4 * math.sqrt(orc['hsE'])}", case)
        ddv = float(mo["dd"])
        mscale = [ddv * tot * float(max(ctx["freq"])) ** k * float(max(ctx["freq"])) for k in range(5)]
        for k in range(5):
            cmp(f"m{k}", float(at(f"m{k}")), mo[f"m{k}"], scale=None)
            if not close(float(at(f"m{k}")), orc["m"][k], rel=rel):
                ck.fail(f"momf{k}", f"impl={float(at(f'm{k}'))} defining={orc['m'][k]}", case)
        cmp("tm01", float(at("tm01")), mo["tm01"])
        t2 = mo["tm02Sq"]
        cmp("tm02", float(at("tm02")), None if t2 is None else math.sqrt(t2))
        # widths: compare radicands with an absolute tolerance (cancellation)
        atol = 1e-9 if ctx["dtype"] == "float64" else 3e-5
        swe_i = float(at("swe"))
        r = mo["sweSq"]
        if r is None or r < 0:
            exp = 1.0
        else:
            exp = math.sqrt(r)
            if abs(exp - 0.001) < 1e-6:
                ck.ambiguous += 1
                exp = None
            elif exp < 0.001:
                exp = 1.0
        if exp is not None and not (abs(swe_i ** 2 - exp ** 2) <= atol or (r is not None and abs(float(r)) < atol and swe_i == 1.0)):
            ck.disagree("stats:swe", f"impl={swe_i} model={exp}", case)
        sw_i = float(at("sw"))
        r = mo["swSq"]
        if hs_i < 0.001 or r is None:
            okk = math.isnan(sw_i)
        elif r < -atol:
            okk = math.isnan(sw_i)
        elif abs(float(r)) <= atol:
            okk = math.isnan(sw_i) or sw_i ** 2 <= 2 * atol
        else:
            okk = (not math.isnan(sw_i)) and abs(sw_i ** 2 - float(r)) <= atol * max(1.0, float(r))
        if abs(hs_i - 0.001) < 1e-7:
            ck.ambiguous += 1
        elif not okk:
            ck.disagree("stats:sw", f"impl={sw_i} modelSq={None if r is None else float(r)}", case)
        gw_i = float(at("gw"))
        r = mo["gwSq"]
        if r is None:
            okk = math.isnan(gw_i)
        else:
            sc = max(abs(float(r)), float(hsE) * float(max(ctx["freq"])) ** 2, 1e-300)
            if abs(float(r)) <= (1e-9 if ctx["dtype"] == "float64" else 3e-5) * sc:
                okk = True
                ck.ambiguous += 1
            elif r < 0:
                okk = math.isnan(gw_i)
            else:
                okk = (not math.isnan(gw_i)) and abs(gw_i ** 2 - float(r)) <= (1e-8 if ctx["dtype"] == "float64" else 3e-5) * sc
        if not okk:
            ck.disagree("stats:gw", f"impl={gw_i} modelSq={None if r is None else float(r)}", case)
        cmp("goda", float(at("goda")), mo["goda"])
        if mo["goda"] is not None and orc["m"][0] != 0:
            if not close(float(at("goda")), 2 * orc["goda_num"] / orc["m"][0] ** 2, rel=rel):
                ck.fail("goda", f"impl={float(at('goda'))} defining={2 * orc['goda_num'] / orc['m'][0] ** 2}", case)
        cmp("mss", float(at("mss")), mo["mss"])
        on = np.asarray(at("oned").values, dtype=float).ravel()
        for i, (a, b) in enumerate(zip(on, mo["oned"])):
            if not close(a, b, rel=rel):
                ck.disagree("stats:oned", f"i={i} impl={a} model={float(b)}", case)
                break
        if len(on) != len(mo["oned"]):
            ck.disagree("stats:oned", "length", case)
        # hmax
        hm = float(at("hmax"))
        if ctx["has_time"]:
            if t2 is None or t2 <= 0:
                exp_h = None
            else:
                x = ctx["dt"] / math.sqrt(t2)
                if abs(x - math.floor(x) - 0.5) < 1e-6:
                    exp_h = "amb"
                else:
                    N = round(x)
                    exp_h = math.sqrt(0.5 * math.log(N)) * 4 * math.sqrt(hsE_tail(mo, ctx)) if N >= 1 else None
        else:
            exp_h = HMAXK * 4 * math.sqrt(hsE_tail(mo, ctx))
        if exp_h == "amb":
            ck.ambiguous += 1
        elif not close(hm, exp_h, rel=max(rel, 1e-7)):
            ck.disagree("stats:hmax", f"impl={hm} model={exp_h}", case)
        if not ctx["oned"]:
            en = at("energy").transpose("freq", "dir").values
            me = mo["energy"]
            bad = False
            for i in range(en.shape[0]):
                for j in range(en.shape[1]):
                    if not close(float(en[i, j]), me[i][j], rel=rel):
                        bad = True
            if bad:
                ck.disagree("stats:energy", "to_energy differs", case)
            sc = ddv * tot
            ms_i = np.asarray(at("msin").values, dtype=float)
            mc_i = np.asarray(at("mcos").values, dtype=float)
            for i in range(len(ms_i)):
                rs = ddv * float(np.abs(E[i]).sum()) or 1.0
                cmp("msin", float(ms_i[i]), mo["msin"][i], scale=rs)
                cmp("mcos", float(mc_i[i]), mo["mcos"][i], scale=rs)
            S_, C_ = float(mo["dmS"]), float(mo["dmC"])
            dm_i = float(at("dm"))
            if math.hypot(S_, C_) <= 1e-6 * sc:
                ck.ambiguous += 1
            else:
                if not ang_close(dm_i, dm_from(S_, C_), tol=1e-6 if ctx["dtype"] == "float64" else 1e-2):
                    ck.disagree("stats:dm", f"impl={dm_i} model={dm_from(S_, C_)}", case)
                if not (0.0 <= dm_i < 360.0 + 1e-9):
                    ck.fail("dm", f"dm={dm_i} outside [0,360)", case)
            a, b, e = float(mo["dsA"]), float(mo["dsB"]), float(mo["dsE"])
            ds_i = float(at("dspr"))
            if e == 0:
                if not math.isnan(ds_i):
                    ck.disagree("stats:dspr", f"impl={ds_i} model=nan", case)
            else:
                x = 1 - math.hypot(a, b) / e
                xi = ds_i ** 2 / (2 * R2D ** 2) if not math.isnan(ds_i) else None
                tolx = 1e-9 if ctx["dtype"] == "float64" else 2e-5
                if xi is None:
                    if x > tolx:
                        ck.disagree("stats:dspr", f"impl=nan model x={x}", case)
                elif abs(xi - x) > tolx:
                    ck.disagree("stats:dspr", f"impl x={xi} model x={x}", case)
                # oracle: published a, b
                xo = 1 - math.hypot(orc["a"], orc["b"]) / orc["m"][0] if orc["m"][0] else None
                if xo is not None and xi is not None and abs(xi - xo) > tolx:
                    ck.fail("dspr", f"impl x={xi} defining x={xo}", case)
            for nm in ("uss", "ussx", "ussy"):
                kmax = float(np.max(4 * PI * ctx["freq"] * k_table(ctx["freq"], ctx["depth"])))
                cmp(nm, float(at(nm)), mo[nm], scale=sc * kmax * float(max(gen_df(ctx["freq"]))))
    # dispersion sweep (exploration; not a theorem — DESIGN §1.5-4)
    from wavespectra.core.utils import celerity, wavelen, wavenuma

    worst = 0.0
    nsw = 0
    for h in [0.5, 1, 2, 5, 10, 30, 100, 500, 4000]:
        for f in np.geomspace(0.02, 2.0, 60):
            k = float(wavenuma(f, h))
            w2 = (2 * PI * f) ** 2
            err = abs(9.81 * k * math.tanh(k * h) / w2 - 1)
            worst = max(worst, err)
            nsw += 1
            c = float(celerity(f, h)); L = float(wavelen(f, h))
            if err > 1.5e-3:
                ck.fail("wavenuma", f"dispersion residual {err:.2e} at f={f}, h={h}", dict(f=float(f), h=h))
            if not close(c, 2 * PI * f / k, rel=1e-12) or not close(L, 2 * PI / k, rel=1e-12):
                ck.fail("celerity", f"celerity/wavelen inconsistent with wavenuma at f={f}, h={h}", dict(f=float(f), h=h))
    for f in [0.04, 0.1, 0.25, 1.0]:
        if not close(float(celerity(f)), DEEP / f, rel=1e-15) or not close(float(wavelen(f)), DEEP / f ** 2, rel=1e-15):
            ck.fail("celerity", f"deep-water celerity/wavelen at f={f}", dict(f=f))
    # the accessor forms (da.spec.celerity / wavelen, with and without depth) are the utils functions of the frequency coordinate
    import xarray as xr

    for h in [None, 3.0, 40.0]:
        fq = np.geomspace(0.03, 0.8, 11)
        da0 = xr.DataArray(np.ones((11, 4)), dims=("freq", "dir"), coords={"freq": fq, "dir": np.arange(4) * 90.0}, name="efth")
        ca, la = da0.spec.celerity(depth=h), da0.spec.wavelen(depth=h)
        cu, lu = celerity(da0.freq, h), wavelen(da0.freq, h)
        if not (np.array_equal(ca.values, np.asarray(cu)) and np.array_equal(la.values, np.asarray(lu)) and ca.dims == ("freq",) and la.dims == ("freq",)):
            ck.fail("celerity", f"SpecArray.celerity/wavelen(depth={h}) differ from utils.celerity/wavelen of the frequency coordinate", dict(depth=h))
    ck.extra["dispersion_sweep"] = dict(points=nsw, worst_residual=worst, note="exploration, not a theorem")
    twins(ck, npstats)
    ck.assumptions = ["exact-arithmetic model; float rounding absorbed by tolerances (1e-9 f64, 8e-6 f32)",
                      "sqrt/atan2/log applied by the harness to model radicands/vectors",
                      "dispersion accuracy (0.1 %) explored numerically, not proved"]
    return ck.finish()


def hsE_tail(mo, ctx):
    """hmax uses hs(tail=True): recompute the radicand with the tail from the model's pieces."""
    e = float(mo["m0"])
    f = ctx["freq"]
    if float(f[-1]) > THR:
        e += QUARTER * float(mo["oned"][-1]) * float(f[-1])
    return e


def gen_df(freq):
    f = np.asarray(freq, dtype=float)
    return np.gradient(f) if len(f) > 1 else np.array([1.0])


def twins(ck, npstats):
    """numpy twins used by the partitioning code vs the Lean twin model (sorted directions)."""
    rng = ck.rng
    reqs, ctxs = [], []
    for _ in range(60 if ck.tier == "quick" else 600):
        nf = rng.randint(2, 20)
        nd = rng.choice(gen.EXACT_ND[2:])
        freq, _ = gen.gen_freq(rng, nf)
        # hs: any rotation of the stored sequence, the 0/360 wrap between the first two included (bin width taken the
        # short way); mom1/dm use the signed difference of the first two labels and are compared for sorted storage only
        dorder = rng.choice(["sorted", "sorted", "rotated", "seam"])
        dirs, _ = gen.gen_dirs(rng, nd, order=dorder)
        E, kind = gen.gen_spectrum(rng, nf, nd)
        tail = rng.random() < 0.7
        s, c = gen.trig_tables(dirs)
        z = [0] * nf
        reqs.append(" ".join(["stats", "1" if tail else "0", enc_v(freq), enc_optv(dirs), enc_m(E, nd), enc_v(s), enc_v(c),
                              enc_v(z), enc_v(z)]))
        ctxs.append((freq, dirs, E, tail, kind + ":" + dorder))
    for (freq, dirs, E, tail, kind), resp in zip(ctxs, run_driver(reqs)):
        st, mo = parse_resp(resp)
        case = dict(freq=freq.tolist(), dirs=dirs.tolist(), E=E.tolist(), tail=tail)
        ck.case(("twin", kind, len(freq) > 5, len(dirs) > 8), bool(E.any()))
        if st != "ok":
            ck.disagree("twin", str(mo), case)
            continue
        h = float(npstats.hs(E, freq, dirs, tail=tail))
        if not close(h, 4 * math.sqrt(mo["npHsE"]), rel=1e-9):
            ck.disagree("twin:hs", f"impl={h} model={4 * math.sqrt(mo['npHsE'])}", case)
        if not kind.endswith(":sorted"):
            continue
        S_, C_ = float(mo["npDmS"]), float(mo["npDmC"])
        if math.hypot(S_, C_) > 1e-6 * float(np.abs(E).sum() + 1e-300):
            d = float(npstats.dm(E, dirs))
            if not ang_close(d, dm_from(S_, C_), tol=1e-6):
                ck.disagree("twin:dm", f"impl={d} model={dm_from(S_, C_)}", case)
        ms, mc = npstats.mom1(E, dirs)
        sgn = 1.0 if dirs[1] > dirs[0] else -1.0
        for i in range(len(freq)):
            sc = float(np.abs(E[i]).sum()) * abs(float(dirs[1] - dirs[0])) or 1.0
            if not close(float(ms[i]), sgn * float(mo["msin"][i]), rel=1e-9, scale=sc) or \
               not close(float(mc[i]), sgn * float(mo["mcos"][i]), rel=1e-9, scale=sc):
                ck.disagree("twin:mom1", f"row {i}", case)
                break


if __name__ == "__main__":
    from ..common import main_wrapper

    main_wrapper(run_check)

"""C20 — valid spectra never crash the library, down to the native code (DESIGN §3 C20)."""
import math

import numpy as np

from .. import gen, opcat
from ..common import Check, PmapTimeout, case_rng, import_ws, parse_resp, pmap, run_driver


def degenerate_specs(rng, nf, nd):
    out = []
    z = np.zeros((nf, nd))
    out.append(("zero", z.copy()))
    out.append(("const", z + 2.0))
    s = z.copy(); s[rng.randrange(nf), rng.randrange(nd)] = 3.0
    out.append(("single_bin", s))
    s = z.copy(); s[0, :] = 5.0; s[1:, :] = 1.0 / (1 + np.arange(1, nf))[:, None] if nf > 1 else 0
    out.append(("peak_first", s))
    s = z.copy() + 0.5; s[-1, :] = 5.0
    out.append(("peak_last", s))
    if nf >= 3:
        s = z.copy() + 0.25; s[nf - 2, :] = 4.0
        out.append(("peak_penultimate", s))
        s = z.copy() + 0.25; s[1, :] = 4.0
        out.append(("peak_second", s))
    E, k = gen.gen_spectrum(rng, nf, nd, kind=rng.choice(["blobs", "noisy", "ties", "plateau", "sparse"]))
    out.append((k, E))
    return out


def alpha_one_in_window(rng):
    """frequency grid with exactly one frequency in (1.35 fp, 2 fp) for a peak at index 1"""
    f = np.array([0.05, 0.1, 0.12, 0.16, 0.3, 0.5])
    S = np.array([0.5, 4.0, 1.0, 0.7, 0.3, 0.1])
    return f, S


def make_case(args):
    seed, icase = args
    rng = case_rng("C20", seed, icase)
    import_ws()
    import xarray as xr

    nf = rng.choice([1, 2, 3, 4, 6, 9])
    nd = rng.choice([1, 2, 2, 3, 8, 12])
    if icase % 9 == 0:
        freq, S1 = alpha_one_in_window(rng)
        nf = len(freq)
        fk = "alpha_one"
    else:
        freq, fk = gen.gen_freq(rng, nf, kind=rng.choice(["log", "irregular", "uniform"]))
    dirs, _ = gen.gen_dirs(rng, nd, order="sorted")
    C = opcat.catalogue()
    # extra valid calls named by the property: band inside one frequency cell, cut-off on a grid node, windows as large as the grid
    C["split_one_cell"] = lambda da, aux: da.spec.split(fmin=float(da.freq[1]) * 1.01, fmax=float(da.freq[1]) * 1.02)
    C["split_on_nodes"] = lambda da, aux: da.spec.split(fmin=float(da.freq[1]), fmax=float(da.freq[-1]))
    C["ptm5_on_node"] = lambda da, aux: da.spec.partition.ptm5(float(da.freq[1]))
    C["smooth_full"] = lambda da, aux: da.spec.smooth(da.sizes["freq"] | 1, da.sizes["dir"] | 1)
    C["interp_same"] = lambda da, aux: da.spec.interp(freq=da.freq.values, dir=da.dir.values)
    C["hmax"] = lambda da, aux: da.spec.hmax()
    # two boxes that are apart along BOTH axes (a swell box and a wind-sea box placed diagonally in the (freq, dir) plane)
    C["bbox_diagonal"] = lambda da, aux: da.spec.partition.bbox(
        [dict(fmin=float(da.freq[0]), fmax=float(da.freq[1]), dmin=10.0, dmax=90.0),
         dict(fmin=float(da.freq[3]), fmax=float(da.freq[-1]), dmin=180.0, dmax=270.0)])
    out = []
    specs = degenerate_specs(rng, nf, nd)
    if fk == "alpha_one":
        specs.append(("alpha_one_in_window", np.outer(S1, np.ones(nd))))
    nextra = rng.choice([0, 0, 1])
    for kind, E in specs:
        if nextra:
            arr = np.array([E, E * 0.5])
            extra = [("time", np.array(["2020-01-01T00", "2020-01-01T01"], dtype="datetime64[ns]"))]
        else:
            arr, extra = E, []
        da = gen.make_da(freq, dirs, arr, extra=extra)
        lead = [d for d in da.dims if d not in ("freq", "dir")]
        shp = tuple(da.sizes[d] for d in lead)
        aux = {k: xr.DataArray(np.full(shp, v), dims=lead, coords={d: da[d] for d in lead}) for k, v in
               (("wspd", 10.0), ("wdir", 45.0), ("dpt", 40.0))}
        for op in sorted(C):
            rec = dict(icase=icase, op=op, kind=kind, nf=nf, nd=nd, fk=fk, extra=nextra, freq=freq.tolist(), dirs=dirs.tolist(), E=E.tolist())
            # operations whose own parameters need a minimum grid size (they use the 2nd/3rd frequency as a cut-off)
            need = {"stats_split": 4, "split": 4, "ptm5": 3, "bbox": 5, "bbox_diagonal": 5, "interp": 2, "interp_nom0": 2, "split_one_cell": 3,
                    "split_on_nodes": 3, "ptm5_on_node": 3}
            if nf < need.get(op, 1):
                continue
            if op in ("rotate",) and nd < 2:
                continue
            try:
                r = C[op](da, aux)
                opcat.canon(r)
                rec["ok"] = True
            except Exception as e:
                rec["exc"] = f"{type(e).__name__}: {str(e)[:200]}"
                rec["exc_type"] = type(e).__name__
            out.append(rec)
    # an ordinary spectrum (one interior peak, energy everywhere) — alone, with a time axis of ONE record and with two records:
    # every operation returns finite numbers throughout (NaN is reserved for the documented degenerate cases)
    nfo, ndo = rng.choice([6, 9]), rng.choice([8, 12])
    fo, _ = gen.gen_freq(rng, nfo, kind="log")
    do, _ = gen.gen_dirs(rng, ndo, order="sorted")
    ipk, jpk = rng.randrange(2, nfo - 2), rng.randrange(ndo)
    Eo = np.array([[1.0 / (1 + (i - ipk) ** 2) / (1 + min(abs(j - jpk), ndo - abs(j - jpk))) + 0.03125 for j in range(ndo)] for i in range(nfo)])
    for ntime in (0, 1, 2):
        if ntime:
            tv = np.array(["2020-01-01T00", "2020-01-01T03"][:ntime], dtype="datetime64[ns]")
            dao = gen.make_da(fo, do, np.array([Eo * (1 + 0.5 * k) for k in range(ntime)]), extra=[("time", tv)])
        else:
            dao = gen.make_da(fo, do, Eo)
        leado = [d for d in dao.dims if d not in ("freq", "dir")]
        shpo = tuple(dao.sizes[d] for d in leado)
        auxo = {k: xr.DataArray(np.full(shpo, v), dims=leado, coords={d: dao[d] for d in leado}) for k, v in
                (("wspd", 10.0), ("wdir", 45.0), ("dpt", 40.0))}
        for op in sorted(C):
            rec = dict(icase=icase, op=op, kind=f"ordinary:time{ntime}", nf=nfo, nd=ndo, fk="log", extra=ntime, freq=fo.tolist(), dirs=do.tolist(),
                       E=Eo.tolist())
            try:
                can = opcat.canon(C[op](dao, auxo))
                bad = [c["name"] for c in can if np.isnan(c["vals"]).any()]
                if bad:
                    rec["nan"] = bad
                    if op == "gw":
                        m0 = (dao.spec.hs() / 4) ** 2
                        rad = m0 / dao.spec.tm02() ** 2 - m0 ** 2 / dao.spec.tm01() ** 2
                        rec["gw_pred"] = bool(np.array_equal(np.isnan(np.atleast_1d(can[0]["vals"])).ravel(), (np.atleast_1d(rad.values) < 0).ravel()))
                else:
                    rec["ok"] = True
            except Exception as e:
                rec["exc"] = f"{type(e).__name__}: {str(e)[:200]}"
                rec["exc_type"] = type(e).__name__
            out.append(rec)
    # the same ordinary spectrum held by dask with BOTH spectral dimensions split into chunks: the statistics that go through
    # apply_ufunc over a core dimension must still return (a dropped or conditional rechunk raises ValueError inside dask)
    try:
        import dask  # noqa

        daoc = dao.chunk({"freq": 2, "dir": 3})
        for op in ("tp", "fp", "dp", "dpm", "dpspr", "alpha", "gamma", "stats", "tp_discrete"):
            if op not in C:
                continue
            rec = dict(icase=icase, op=op, kind="ordinary:dask(freq=2,dir=3)", nf=nfo, nd=ndo, fk="log", extra="dask", freq=fo.tolist(),
                       dirs=do.tolist(), E=Eo.tolist())
            try:
                r = C[op](daoc, auxo)
                r = r.compute(scheduler="synchronous") if hasattr(r, "compute") else r
                rec["ok"] = True
            except Exception as e:
                rec["exc"] = f"{type(e).__name__}: {str(e)[:200]}"
                rec["exc_type"] = type(e).__name__
            out.append(rec)
    except ImportError:
        pass
    # contract of the native entry point: specpart_wrap.c takes the data pointer and reads nk*nth floats forward, whatever
    # the strides — so every array handed to it must be a C-contiguous float32 block of exactly that size, also when the
    # caller's spectrum is a float32 view with negative / non-unit strides or transposed storage
    import wavespectra.partition.partition as PP

    class _Spy:
        def __init__(self, real):
            self.real, self.bad = real, []

        def partition(self, arr, ihmax):
            a = np.asarray(arr)
            if not (a.flags.c_contiguous and a.dtype == np.float32 and a.ndim == 2):
                self.bad.append(f"dtype={a.dtype} shape={a.shape} strides={a.strides} c_contiguous={bool(a.flags.c_contiguous)}")
                arr = np.ascontiguousarray(a, dtype=np.float32)  # never let the native code read outside the buffer here
            return self.real.partition(arr, ihmax)

    real = PP.specpart.real if isinstance(PP.specpart, _Spy) or hasattr(PP.specpart, "real") else PP.specpart
    spy = _Spy(real)
    PP.specpart = spy
    try:
        nfv, ndv = rng.choice([4, 6, 9]), rng.choice([6, 8, 12])
        fv, _ = gen.gen_freq(rng, nfv, kind="log")
        dv, _ = gen.gen_dirs(rng, ndv, order="sorted")
        Ev = gen.gen_spectrum(rng, nfv, ndv, kind="blobs")[0] + 0.03125
        for dt in ("float32", "float64"):
            base = gen.make_da(fv, dv, np.array([Ev, Ev * 0.5]), dtype=dt,
                               extra=[("time", np.array(["2020-01-01T00", "2020-01-01T01"], dtype="datetime64[ns]"))])
            views = {"dir_reversed": base.isel(dir=slice(None, None, -1)), "freq_reversed": base.isel(freq=slice(None, None, -1)),
                     "dir_strided": base.isel(dir=slice(None, None, 2)), "dir_major": base.transpose("time", "dir", "freq"),
                     "fortran": base.copy(data=np.asfortranarray(base.values))}
            auxv = {k: xr.DataArray(np.full((2,), v), dims=["time"], coords={"time": base.time}) for k, v in
                    (("wspd", 10.0), ("wdir", 45.0), ("dpt", 40.0))}
            for vname, v in views.items():
                for op in ("ptm1", "ptm2", "ptm3", "hp01"):
                    spy.bad = []
                    rec = dict(icase=icase, op=f"native_input:{op}", kind=f"{dt}:{vname}", nf=nfv, nd=ndv, fk="log", extra=1,
                               freq=fv.tolist(), dirs=dv.tolist(), E=Ev.tolist())
                    try:
                        if op == "ptm3":
                            v.spec.partition.ptm3(parts=2)
                        elif op == "hp01":
                            v.spec.partition.hp01(auxv["wspd"], auxv["wdir"], auxv["dpt"], swells=2)
                        else:
                            getattr(v.spec.partition, op)(auxv["wspd"], auxv["wdir"], auxv["dpt"], swells=2)
                        rec["ok"] = True
                    except Exception as e:
                        if op == "hp01":
                            rec["ok"] = True  # experimental method: only the buffer contract is looked at
                        else:
                            rec["exc"] = f"{type(e).__name__}: {str(e)[:200]}"
                            rec["exc_type"] = type(e).__name__
                    if spy.bad:
                        rec.pop("ok", None)
                        rec["contract"] = spy.bad[0]
                    out.append(rec)
    finally:
        PP.specpart = real
    # invalid arguments must be rejected with ValueError
    E, _ = gen.gen_spectrum(rng, 6, 8, kind="blobs")
    f6, _ = gen.gen_freq(rng, 6, kind="log")
    d8, _ = gen.gen_dirs(rng, 8, order="sorted")
    da = gen.make_da(f6, d8, E + 0.1)
    bad = {
        "smooth(even freq)": lambda: da.spec.smooth(2, 3),
        "smooth(even dir)": lambda: da.spec.smooth(3, 4),
        "split(fmax<=fmin)": lambda: da.spec.split(fmin=float(f6[3]), fmax=float(f6[2])),
        "split(fmax==fmin)": lambda: da.spec.split(fmin=float(f6[3]), fmax=float(f6[3])),
        "split(dmax<=dmin)": lambda: da.spec.split(dmin=200.0, dmax=100.0),
        "stats(unknown)": lambda: da.spec.stats(["hs", "nope"]),
        "stats(not callable)": lambda: da.spec.stats(["freq"]),
        "stats(names length)": lambda: da.spec.stats(["hs", "tp"], names=["a"]),
        "stats(not a container)": lambda: da.spec.stats(3),
        "bbox(overlap)": lambda: da.spec.partition.bbox([dict(fmin=float(f6[0]), fmax=float(f6[3]), dmin=0, dmax=200),
                                                          dict(fmin=float(f6[2]), fmax=float(f6[5]), dmin=100, dmax=300)]),
        "dm(1d)": lambda: da.spec.oned().spec.dm(),
        "dspr(1d)": lambda: da.spec.oned().spec.dspr(),
        "momd(1d)": lambda: da.spec.oned().spec.momd(1),
        "fit_jonswap(nothing)": lambda: da.spec.fit_jonswap(spectra=False, params=False),
        "sel(method)": lambda: da.to_dataset(name="efth").assign(lon=0.0, lat=0.0).expand_dims("site").spec.sel([0], [0], method="cubic"),
    }
    for nm, f in bad.items():
        rec = dict(icase=icase, op="invalid:" + nm, kind="invalid", nf=6, nd=8)
        try:
            f()
            rec["noexc"] = True
        except ValueError:
            rec["ok"] = True
        except Exception as e:
            rec["exc"] = f"{type(e).__name__}: {str(e)[:200]}"
            rec["exc_type"] = type(e).__name__
        out.append(rec)
    return out


def run_check():
    ck = Check("C20")
    ck.extra["rule"] = ("every catalogue operation on degenerate spectra (all zero, constant, single bin, peak on the first / last / second / "
                        "penultimate frequency, exactly one frequency in the alpha window) on grids from 1×1 upward, plus a table of invalid "
                        "arguments that must raise ValueError; native part: see native_* keys; signature = (operation, spectrum kind, nf class, "
                        "nd class); non-trivial = every case (degenerate input is the point)")
    ck.do_audit()
    import_ws()
    n = 27 if ck.tier == "quick" else 300
    try:
        from ..common import replay_ids

        res = pmap(make_case, [(ck.seed, i) for i in replay_ids(ck, n)], timeout=900 if ck.tier == "quick" else 2400)
    except PmapTimeout as e:
        # the property is also about termination: a public call that never returns on valid input is a violation
        ck.fail("python_level", f"{e}: some public call on a degenerate spectrum did not return (hang inside the library or its "
                                "native extension); the native sub-check below looks for the responsible grid", dict(seed=ck.seed), "hang")
        res = []
    # model side: the totality theorems are about these model calls; run them on the same degenerate inputs
    reqs, keys = [], []
    for recs in res:
        seen = set()
        for r in recs:
            if "E" not in r or (r["kind"], r["nf"], r["nd"]) in seen:
                continue
            seen.add((r["kind"], r["nf"], r["nd"]))
            freq, dirs, E = np.array(r["freq"]), np.array(r["dirs"]), np.array(r["E"])
            from ..common import enc, enc_m, enc_optv, enc_v
            s, c = gen.trig_tables(dirs)
            reqs.append(" ".join(["peakstats", enc_v(freq), enc_optv(dirs), enc_m(E, E.shape[1]), enc_v(s), enc_v(c), enc(1.0),
                                  enc_v([1.0] * len(freq)), enc_v([1.0] * len(freq))]))
            keys.append((r["kind"], r["nf"], r["nd"]))
    resps = run_driver(reqs) if reqs else []
    for k, resp in zip(keys, resps):
        st, mo = parse_resp(resp)
        ck.count("model_total:" + ("ok" if st == "ok" else "err"))
        if st != "ok":
            ck.disagree("peakstats", f"model not total on degenerate input {k}: {mo}", dict(key=k))
    for recs in res:
        for r in recs:
            def cls(x):
                return "1" if x == 1 else "2" if x == 2 else "3+"
            ck.case((r["op"], r["kind"], cls(r["nf"]), cls(r["nd"])), True, sample={k: r[k] for k in ("op", "kind", "nf", "nd")})
            if r.get("nan"):
                ck.fail(r["op"], f"NaN in {r['nan']} for an ordinary spectrum (one interior peak, energy in every bin; {r['kind']})", r,
                        "gw_unnormalised" if r.get("gw_pred") else "nan_on_ordinary_spectrum")
            elif r.get("contract"):
                ck.fail(r["op"], f"the native routine was handed an array that is not a C-contiguous float32 block ({r['contract']}); the "
                                 f"wrapper ignores strides and reads nk*nth floats from the data pointer: out-of-bounds / wrong memory", r,
                        "native_input_contract")
            elif r.get("noexc"):
                ck.fail(r["op"], "invalid argument accepted (no exception)", r, "invalid_arg_accepted")
            elif "exc" in r:
                if r["op"].startswith("invalid:"):
                    ck.fail(r["op"], f"invalid argument rejected with {r['exc']} instead of ValueError", r, "invalid_arg_wrong_exception")
                else:
                    ck.fail(r["op"], f"raised on valid input ({r['kind']}, nf={r['nf']}, nd={r['nd']}): {r['exc']}", r, classify(r))
    # native half (driver under sanitizers etc.) if available
    try:
        from .c20_native import run_native

        run_native(ck)
    except ImportError:
        ck.extra["native"] = "native sub-check not installed"
    ck.assumptions = ["degenerate cases enumerated from the property text; NaN / empty results are accepted, exceptions are not",
                      "experimental partition method hp01 is excluded by the property"]
    return ck.finish()


def classify(r):
    op, nf, nd = r["op"], r["nf"], r["nd"]
    if op == "split_one_cell":
        return "split_band_within_one_cell"
    if nf == 1:
        return f"single_frequency_grid:{op}"
    if nd == 1:
        return f"single_direction_grid:{op}"
    if nd == 2:
        return f"two_direction_grid:{op}"
    if nf == 2:
        return f"two_frequency_grid:{op}"
    return None


if __name__ == "__main__":
    from ..common import main_wrapper

    main_wrapper(run_check)

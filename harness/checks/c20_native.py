"""C20, native half — the watershed routine stays inside its buffers, has no undefined behaviour and terminates.

`run_native(ck)` is called by the C20 check (and can be run alone: `python -m harness.checks.c20_native`).
Exploration, labelled as such: the real `specpart.c` (from $VERIF_REPO) runs under AddressSanitizer + UBSan
(`-fno-sanitize-recover`) on exhaustively enumerated small grids and on random larger ones, `ihmax` from 1 upward;
any sanitizer report, crash or timeout is an oracle failure with the grid as replay.  On the same inputs the Lean
transliteration (every array access bounds-checked) must not raise its `oob`/`fuelOut` flags and must produce the
same label maps.  The theorems of `Props/C20.lean` (namespace WS.C20) cover the loop-simple routines for all sizes.
"""
import os
import re
import subprocess
import tempfile
from concurrent.futures import ThreadPoolExecutor
from pathlib import Path

import numpy as np

from ..common import Check, main_wrapper
from .c04 import (CDRV, IHS, NCPU, build_cdrv, decode_grid, ensure_enumsp, levels_exact, levels_float, parse_resp,
                  run_driver_par)

SAN_ENV = dict(ASAN_OPTIONS="detect_leaks=0:abort_on_error=0:exitcode=99", UBSAN_OPTIONS="print_stacktrace=1:halt_on_error=1:exitcode=98",
               CENUM_LINEBUF="1")


def san_enum_job(args):
    nk, nth, a, ih, fill, lexe, tmo = args
    with tempfile.TemporaryDirectory() as td:
        cf, lf, ef, sf = (os.path.join(td, n) for n in ("c.out", "l.out", "c.err", "l.sum"))
        env = dict(os.environ, **SAN_ENV)
        timed_out = False
        with open(cf, "w") as fo, open(ef, "w") as fe:
            try:
                rc = subprocess.run([str(CDRV / "cenum_san"), str(nk), str(nth), str(a), str(ih)], stdout=fo, stderr=fe, env=env,
                                    timeout=tmo).returncode
            except subprocess.TimeoutExpired:
                rc, timed_out = -1, True
        with open(lf, "w") as fo, open(sf, "w") as fe:
            subprocess.run([str(lexe), str(nk), str(nth), str(a), str(ih), "check", "1", str(fill)], stdout=fo, stderr=fe, timeout=7000)
        nlines = sum(1 for _ in open(cf))
        err = Path(ef).read_text()[:1500]
        summ = Path(sf).read_text().strip()
        same = subprocess.run(["cmp", "-s", cf, lf]).returncode == 0
    return (nk, nth, a, ih), rc, timed_out, nlines, err, summ, same


def run_native(ck):
    build_cdrv()
    lexe = ensure_enumsp()
    thorough = ck.tier == "thorough"
    rng = ck.rng
    jobs = []
    for nk in range(1, 5):
        for nth in range(1, 5):
            for ih in IHS:
                jobs.append((nk, nth, 2, ih, rng.choice([0, 7777]), lexe, 3000))
                if nk <= 3 and nth <= 3:
                    jobs.append((nk, nth, 3, ih, rng.choice([0, -100]), lexe, 3000))
    jobs.sort(key=lambda j: -(j[2] ** (j[0] * j[1])))
    ncalls = 0
    with ThreadPoolExecutor(NCPU) as ex:
        for key, rc, tmo, nlines, err, summ, same in ex.map(san_enum_job, jobs):
            nk, nth, a, ih = key
            total = a ** (nk * nth)
            ncalls += total
            ck.evaluations += total
            ck.count(f"san-enum:a{a}:ih{ih}", total)
            if rc != 0 or nlines != total:
                grid = decode_grid(nlines, nk, nth, a).tolist()
                what = "does not terminate (timeout)" if tmo else f"sanitizer report / crash (exit {rc})"
                ck.fail("native", f"specpart.c {what} on grid code {nlines} of space {key}: {err[:700]}",
                        dict(nk=nk, nth=nth, alphabet=a, ihmax=ih, grid=grid), "native_memory_or_termination")
            parts = summ.split()
            if len(parts) != 10:
                raise RuntimeError(f"enumsp failed on {key}: {summ!r}")
            total_l, checked, invalid, incomplete, oob, fuel, indbad, labbad, firstbad = map(int, parts[1:])
            if oob or fuel:
                ck.disagree("native-model", f"Lean transliteration out-of-range access ({oob}) / fuel exhausted ({fuel}) in space {key}",
                            dict(nk=nk, nth=nth, alphabet=a, ihmax=ih, code=firstbad,
                                 grid=decode_grid(firstbad, nk, nth, a).tolist() if firstbad >= 0 else None))
            if rc == 0 and nlines == total and not same:
                ck.disagree("native-model", f"sanitized C and Lean label-map streams differ in space {key}",
                            dict(nk=nk, nth=nth, alphabet=a, ihmax=ih))
    ck.extra["native_exhaustive_under_sanitizers"] = dict(
        spaces="every shape ≤ 4×4 over {0,1}; every shape ≤ 3×3 over {0,1,2}", ihmax=IHS, calls=ncalls,
        sanitizers="clang -fsanitize=address,undefined -fno-sanitize-recover=all", level="exploration, not proof")
    # ---- random shapes (thorough: many; quick: a few hundred) through the sanitized line driver
    nrand = 400 if not thorough else 150000
    lines, grids = [], []
    for k in range(nrand):
        r = rng.random()
        if r < 0.7:
            nk, nth = rng.randint(1, 8), rng.randint(1, 8)
        elif r < 0.97:
            nk, nth = rng.randint(1, 20), rng.randint(1, 24)
        else:
            nk, nth = rng.randint(1, 40), rng.randint(1, 72)
        a = rng.choice([2, 2, 3, 4, 9])
        ih = rng.choice([1, 1, 2, 3, 4, 5, 7, 10, 33, 100, 101, 250])
        vals = [rng.randrange(a) for _ in range(nk * nth)]
        if rng.random() < 0.15:  # single spike / plateau-heavy
            vals = [0] * (nk * nth)
            for _ in range(rng.randint(1, 3)):
                vals[rng.randrange(nk * nth)] = rng.randint(1, 8)
        body = " ".join(map(str, vals))
        lines.append(f"part {nk} {nth} {ih} {body}")
        grids.append((nk, nth, ih, vals))
    nproc = NCPU if nrand > 2000 else 1
    chunks = [list(range(i, nrand, nproc)) for i in range(nproc)]

    def san_chunk(idx):
        if not idx:
            return idx, 0, [], ""
        env = dict(os.environ, **SAN_ENV)
        inp = "\n".join(lines[i] for i in idx) + "\n"
        try:
            r = subprocess.run([str(CDRV / "cdrv_san")], input=inp, capture_output=True, text=True, env=env,
                               timeout=120 + 0.05 * len(idx))
            return idx, r.returncode, r.stdout.splitlines(), r.stderr[:1500]
        except subprocess.TimeoutExpired as e:
            out = (e.stdout or b"")
            out = out.decode() if isinstance(out, bytes) else out
            return idx, -1, out.splitlines(), "timeout"

    cout = [None] * nrand
    with ThreadPoolExecutor(nproc) as ex:
        for idx, rc, out, err in ex.map(san_chunk, chunks):
            for i, l in zip(idx, out):
                cout[i] = l
            if rc != 0 or len(out) != len(idx):
                i = idx[min(len(out), len(idx) - 1)]
                nk, nth, ih, vals = grids[i]
                what = "does not terminate (timeout)" if err == "timeout" else f"sanitizer report / crash (exit {rc})"
                ck.fail("native", f"specpart.c {what}: {err[:700]}",
                        dict(nk=nk, nth=nth, ihmax=ih, grid=np.array(vals).reshape(nk, nth).tolist()), "native_memory_or_termination")
    reqs = [f"specpart {nk} {nth} {ih} {rng.choice([0, 7777])} im {nk} {nth} " + " ".join(map(str, vals)) for nk, nth, ih, vals in grids]
    resps = run_driver_par(reqs)
    nmodel = 0
    for (nk, nth, ih, vals), c, resp in zip(grids, cout, resps):
        ck.evaluations += 1
        st, mo = parse_resp(resp)
        case = dict(nk=nk, nth=nth, ihmax=ih, grid=np.array(vals).reshape(nk, nth).tolist())
        if st != "ok":
            ck.disagree("native-model", f"model error {mo}", case)
            continue
        if mo["oob"] or mo["fuel"]:
            ck.disagree("native-model", f"Lean transliteration: out-of-range access={mo['oob']} fuel exhausted={mo['fuel']}", case)
        if c is not None:
            nmodel += 1
            ml = [x for r in mo["labels"] for x in r]
            if [int(x) for x in c.split()] != ml:
                # compare only where the C's float level computation provably equals the model's exact one
                z = np.array(vals, dtype=np.int64).reshape(nk, nth)
                lf, amb = levels_float(z.astype(np.float32), ih)
                if lf is not None and not amb and np.array_equal(lf, levels_exact(z, ih)):
                    ck.disagree("native-model", "label maps differ (sanitized C vs Lean)", dict(case, c=c, model=ml))
                else:
                    ck.ambiguous += 1
    ck.extra["native_random_under_sanitizers"] = dict(cases=nrand, compared_with_model=nmodel, shapes="70 % ≤ 8×8, up to 40×72",
                                                      ihmax="1 … 250", level="exploration, not proof")
    ck.assumptions.append("memory safety and termination of the Lean transliteration of partition/ptsort/pt_fld are PROVED for all inputs "
                          "(Props/C20fld.lean: partition_memory_safe, partition_terminates); that the real C behaves like the "
                          "transliteration is carried by the exact stream comparison of C04 and by ASan/UBSan runs of the real C here "
                          "(exploration)")


def run_check():
    ck = Check("C20")
    ck.pid_native = True
    run_native(ck)
    return ck.finish()


if __name__ == "__main__":
    main_wrapper(run_check)

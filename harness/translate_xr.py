"""T-tier, labelled-array grammar: the xarray-level accessor methods of `SpecArray` (wavespectra/specarray.py)
→ Lean definitions for ONE spectrum, written to `lean/WsVerif/Gen/XrKernels.lean` (only if changed).

Called from `translate.generate()`.  Every generated definition is identified with the hand-written model
(`Model/Stats.lean`, `Model/XrTwins.lean`) by a theorem `genxr_<method>_eq` in `Props/C01xr.lean`, for all inputs, so a
change of the arithmetic, of a reduction dimension, of a comparison, of a literal or of the staging in the repository
breaks an obligation of C01 on the next run.

One spectrum = `freq dir : List Rat` (coordinates), `obj : List (List Rat)` (`self._obj`, rows = frequencies),
`df : List Rat` (`self.df`), `dd : Rat` (`self.dd`).  Every method kernel has the same leading signature
`[pi] [sqrt] freq dir obj df dd <method arguments> <oracle tables>`; the properties `df` / `dd` are translated on their
own (`xrDf freq`, `xrDd dir`) and the bridges instantiate the parameters with them.

Types tracked by the translator (labelled by dimension NAME, as xarray broadcasts): scalar `S`, possibly-NaN scalar
`OS` (`Option Rat`), `(freq)`-vector `F`, `(dir)`-vector `D`, `(freq, dir)`-matrix `M`, `Bool`, `Nat`.

Grammar (anything else raises `Untranslatable` = the method is reported untranslatable, never guessed):

* `self.freq`, `self.dir`, `self.df`, `self.dd`, `self._obj`; `x.freq` / `x.dir` (coordinate of a labelled value);
  `self.<method>(args…)` for methods translated earlier (defaults taken from the callee's signature; a tuple result
  can be unpacked); numeric literals (floats = exact rational of the double), `R2D`, `D2R` (checked to be imported
  from `core/utils.py`, emitted as terms in `pi`);
* `+ - * /` with broadcasting by dimension name: scalar∘anything, `F∘F`, `D∘D`, `M∘F` (per row), `M∘D` (per column),
  `M∘M`; `F∘D` (outer product) is outside the grammar.  Division by a literal/constant is plain; division of scalars
  by a computed scalar is `WS.divOpt` (`none` = numpy's nan/inf) and `Option` is propagated through later arithmetic;
  `**` with a literal natural exponent or an integer method argument; unary minus; `%` (→ `WS.pmod`);
  comparisons (`NaN` compares false), `and / or / not`;
* reductions `.sum(dim=attrs.FREQNAME | attrs.DIRNAME [, skipna=…])` or `.sum(attrs.X)` (`skipna` never changes the value
  of finite data); `M.sum(freq)` = column sums over `dir.length` columns;
* `x[{attrs.FREQNAME: -1}]`, `x[{attrs.DIRNAME: n}]`, `x[-1]`, `x[n]`; `.values`, `.drop_vars(…)`, `.rename(…)`,
  `.copy(…)`, `float(·)` (identity on the value); `abs`, `min`, `max`, `len`, `.size`;
  `xr.DataArray(v, coords=self.freq.coords)`, `np.array((c,))`, `np.gradient(v)` (→ `WS.XrT.npGradient`);
* `.where(cond, other)` / `.where(cond)` on scalars;
* statements: assignments, tuple unpacking of a method result, `+=` …, `if c:` assigning one variable,
  returning `if / else`, `return`; `if self.dir is None: raise …` and `if self.dir is not None: A else: B` are resolved
  for a spectrum WITH a direction dimension (the test and the dead branch are emitted as strings `<k>_guards` and
  bridged); metadata-only statements (`set_spec_attributes(x)`, `x.attrs.update(…)`) are no-ops for the value;
* signatures: `self` + the expected argument names; every default is emitted as a constant `<k>_<arg>_default`
  (used by callers of `self.<method>()` and bridged); an argument that only feeds `skipna=` is dropped;
* `freq`, `dir` (coordinate look-ups) and `dp`, `dpm` (pure delegations to `xrstats`) are emitted as source strings
  (`xr…_src`) and bridged by `decide`;
* transcendental calls only in fixed shapes:
  - the method's value ends in `c * np.sqrt(X)`, `np.sqrt(X)` or `X ** 0.5` (last value statement, returned as is):
    the kernel `<k>Rad` is the radicand `X`, `<k>Factor` the literal `c`, and the full value
    `<k> sqrt … = c * sqrt (<k>Rad …)` (what callers use) is emitted over the oracle function `sqrt : Rat → Rat`;
  - any other `np.sqrt(·)` / `· ** 0.5` on a scalar: the oracle function parameter `sqrt`;
  - `np.cos/np.sin(np.radians(A))` and `np.cos/np.sin(D2R * A)` on a `(dir)`-vector: ORACLE TABLE parameters; `A` is
    emitted as the scalar function `<k>_<table>_arg` and the call chain as the string `<k>_<table>_fn`;
  - `v = np.arctan2(A, B)`: the kernel is split in `<k>Vec` (returns `(A, B)`) and `<k>Post` (the statements after it
    as a function of the oracle angle).
"""
import ast

from .translate import Untranslatable, _module, body_stmts, find_func, rat, write_if_changed

SPECARRAY = "wavespectra/specarray.py"
UTILS = "wavespectra/core/utils.py"

S, OS, B, F, D, M, NAT, LIT, SKIP = "S", "OS", "Bool", "F", "D", "M", "Nat", "Lit", "Skip"
LEAN_TY = {S: "Rat", OS: "Option Rat", B: "Bool", F: "List Rat", D: "List Rat", M: "List (List Rat)", NAT: "Nat"}
ARITH = {ast.Add: "+", ast.Sub: "-", ast.Mult: "*", ast.Div: "/"}
CMP = {ast.Lt: "<", ast.LtE: "≤", ast.Gt: ">", ast.GtE: "≥", ast.Eq: "=", ast.NotEq: "≠"}
BASE = ["freq", "dir", "obj", "df", "dd"]
BASE_TY = {"freq": F, "dir": D, "obj": M, "df": F, "dd": S}
SELF_ATTR = {"freq": "freq", "dir": "dir", "_obj": "obj", "df": "df", "dd": "dd"}
RESERVED = set(BASE) | {"pi", "sqrt", "at", "fun", "do", "then", "end", "have", "show", "let", "match", "with", "by", "open",
                        "def", "theorem", "where", "from", "in", "if", "else", "instance", "structure", "class", "mut",
                        "for", "return", "namespace", "section", "variable", "example", "axiom", "deriving", "private"}


def lean_ty(t):
    if isinstance(t, tuple):
        return " × ".join(lean_ty(x) for x in t)
    return LEAN_TY[t]


class V:
    """translated value: Lean term, type, `const` = built from literals / module constants only"""
    __slots__ = ("t", "ty", "const")

    def __init__(self, t, ty, const=False):
        self.t, self.ty, self.const = t, ty, const


class Sig:
    def __init__(self, lean_name, lead, base, params, tables, ret):
        self.lean_name, self.lead, self.base, self.params, self.tables, self.ret = lean_name, lead, base, params, tables, ret


_SIGS = {}


def _call_name(e):
    return ast.unparse(e.func) if isinstance(e, ast.Call) else None


def _is_self_attr(e, name=None):
    return (isinstance(e, ast.Attribute) and isinstance(e.value, ast.Name) and e.value.id == "self"
            and (name is None or e.attr == name))


def _dim(e):
    if isinstance(e, ast.Attribute) and isinstance(e.value, ast.Name) and e.value.id == "attrs":
        if e.attr == "FREQNAME":
            return "freq"
        if e.attr == "DIRNAME":
            return "dir"
    raise Untranslatable("dimension name " + ast.unparse(e))


def _neg1(s):
    return isinstance(s, ast.UnaryOp) and isinstance(s.op, ast.USub) and isinstance(s.operand, ast.Constant) and s.operand.value == 1


def _utils_const(name):
    """`R2D` / `D2R` as visible in specarray.py: must be imported from core/utils.py; Lean term in `pi`"""
    from .translate_native import _imports, _module_const

    if _imports(SPECARRAY).get(name) != "wavespectra.core.utils":
        raise Untranslatable(f"{name} is not imported from wavespectra.core.utils")
    return _module_const(UTILS, name)


class Ctx:
    """Translation context of one accessor method."""

    def __init__(self, py, lean, ptypes, tables=(), avail=BASE):
        self.py, self.lean = py, lean
        self.fn = find_func(SPECARRAY, "SpecArray." + py)
        fa = self.fn.args
        if fa.vararg or fa.kwarg or fa.kwonlyargs or fa.posonlyargs:
            raise Untranslatable(f"{py}: *args / **kwargs / keyword-only arguments")
        names = [a.arg for a in fa.args]
        if names[:1] != ["self"] or names[1:] != list(ptypes):
            raise Untranslatable(f"{py}: signature {names} (expected self + {list(ptypes)})")
        self.ptypes = dict(ptypes)
        self.defaults = {}
        for a, dv in zip(fa.args[len(fa.args) - len(fa.defaults):], fa.defaults):
            self.defaults[a.arg] = dv
        self.avail = list(avail)
        self.used_lead = []
        self.table_names = list(tables)
        self.tables = []           # (name, type, chain)
        self.table_cache = {}
        self.extra = []            # (name, text)
        self.guards = []           # (test source, dead branch source)
        self.rename = {}

    # ---- naming
    def local(self, name):
        """Lean identifier of a python local / argument (renamed when it would shadow a parameter or a keyword)"""
        return name + "_1" if name in RESERVED else name

    def lead(self, name):
        if name not in self.used_lead:
            self.used_lead.append(name)

    def lead_args(self):
        return [p for p in ("pi", "sqrt") if p in self.used_lead]

    def lead_params(self):
        s = ""
        if "pi" in self.used_lead:
            s += "(pi : Rat) "
        if "sqrt" in self.used_lead:
            s += "(sqrt : Rat → Rat) "
        return s

    def base_params(self):
        return " ".join(f"({a} : {LEAN_TY[BASE_TY[a]]})" for a in self.avail)

    def arg_params(self):
        return " ".join(f"({self.local(a)} : {LEAN_TY[t]})" for a, t in self.ptypes.items() if t != SKIP)

    def table_params(self):
        return " ".join(f"({n} : {LEAN_TY[t]})" for n, t, _ in self.tables)

    def all_params(self):
        return " ".join(x for x in (self.lead_params().strip(), self.base_params(), self.arg_params(), self.table_params()) if x)

    def env0(self):
        return {a: V(self.local(a), t) for a, t in self.ptypes.items()}

    def default_terms(self):
        """the python defaults as Lean constants `<k>_<arg>_default` (used by callers, bridged in Props/C01xr.lean)"""
        out = {}
        for a, t in self.ptypes.items():
            dv = self.defaults.get(a)
            if dv is None or t == SKIP:
                continue
            nm = f"{self.lean}_{a}_default"
            if t == B and isinstance(dv, ast.Constant) and isinstance(dv.value, bool):
                self.extra.append((nm, f"def {nm} : Bool := {'true' if dv.value else 'false'}"))
            elif t == NAT and isinstance(dv, ast.Constant) and isinstance(dv.value, int) and not isinstance(dv.value, bool) and dv.value >= 0:
                self.extra.append((nm, f"def {nm} : Nat := {dv.value}"))
            elif t == S and isinstance(dv, ast.Constant) and isinstance(dv.value, (int, float)) and not isinstance(dv.value, bool):
                self.extra.append((nm, f"def {nm} : Rat := {rat(dv.value)}"))
            else:
                raise Untranslatable(f"{self.py}: default of {a}: {ast.unparse(dv)}")
            out[a] = nm
        return out


# ------------------------------------------------------------------------------------------------
# expressions
# ------------------------------------------------------------------------------------------------
def _opt2(a, b, body):
    """both operands optional"""
    return f"(Option.bind {a} fun x => Option.bind {b} fun y => {body})"


class Tr:
    def __init__(self, k, env, scalar_dir=False):
        self.k = k
        self.env = env
        self.scalar_dir = scalar_dir    # inside a table-argument function: `self.dir` is one direction (a scalar)

    def rat(self, v):
        if v.ty == LIT:
            return rat(v.t)
        if v.ty == S:
            return v.t
        raise Untranslatable(f"expected a scalar, got {v.ty}: {v.t[:60]}")

    def nat(self, v):
        if v.ty == LIT and isinstance(v.t, int) and v.t >= 0:
            return str(v.t)
        if v.ty == NAT:
            return v.t
        raise Untranslatable(f"expected a natural number, got {v.ty}")

    # ---- main
    def tr(self, e):
        k = self.k
        if isinstance(e, ast.Constant):
            if isinstance(e.value, bool) or not isinstance(e.value, (int, float)):
                raise Untranslatable("literal " + repr(e.value))
            if isinstance(e.value, int):
                return V(e.value, LIT, True)
            return V(rat(e.value), S, True)
        if isinstance(e, ast.Name):
            if e.id in self.env:
                v = self.env[e.id]
                if v.ty == SKIP:
                    raise Untranslatable(f"`{e.id}` used as a value (only allowed as `skipna=`)")
                return v
            if e.id in ("R2D", "D2R"):
                k.lead("pi")
                return V(_utils_const(e.id), S, True)
            raise Untranslatable("free name " + e.id)
        if isinstance(e, ast.Attribute):
            return self.attribute(e)
        if isinstance(e, ast.UnaryOp):
            if isinstance(e.op, ast.USub):
                v = self.tr(e.operand)
                if v.ty == LIT:
                    return V(-v.t, LIT, True) if isinstance(v.t, int) else V(rat(-v.t), S, True)
                if v.ty == S:
                    return V(f"(-{v.t})", S, v.const)
                if v.ty == OS:
                    return V(f"(Option.map (fun t => -t) {v.t})", OS)
                if v.ty in (F, D):
                    return V(f"(List.map (fun t => -t) {v.t})", v.ty)
                raise Untranslatable("unary minus on " + v.ty)
            if isinstance(e.op, ast.Not):
                v = self.tr(e.operand)
                if v.ty == B:
                    return V(f"(!{v.t})", B)
                raise Untranslatable("not on " + v.ty)
            raise Untranslatable("unary " + type(e.op).__name__)
        if isinstance(e, ast.BoolOp):
            vs = [self.tr(x) for x in e.values]
            if not all(v.ty == B for v in vs):
                raise Untranslatable("and/or on non-booleans: " + ast.unparse(e))
            op = " || " if isinstance(e.op, ast.Or) else " && "
            return V("(" + op.join(v.t for v in vs) + ")", B)
        if isinstance(e, ast.Compare):
            return self.compare(e)
        if isinstance(e, ast.BinOp):
            return self.binop(e)
        if isinstance(e, ast.Subscript):
            return self.subscript(e)
        if isinstance(e, ast.Tuple):
            vs = [self.tr(x) for x in e.elts]
            for v in vs:
                if v.ty == LIT:
                    v.t, v.ty = rat(v.t), S
            return V("(" + ", ".join(v.t for v in vs) + ")", tuple(v.ty for v in vs))
        if isinstance(e, ast.Call):
            return self.call(e)
        raise Untranslatable("expr: " + ast.unparse(e)[:120])

    def attribute(self, e):
        k = self.k
        if _is_self_attr(e):
            if e.attr in SELF_ATTR:
                nm = SELF_ATTR[e.attr]
                if nm not in k.avail:
                    raise Untranslatable(f"self.{e.attr} is not available in {k.py}")
                if nm == "dir" and self.scalar_dir:
                    return V("dir", S)
                return V(nm, BASE_TY[nm])
            raise Untranslatable("attribute " + ast.unparse(e))
        if ast.unparse(e) == "np.pi":
            k.lead("pi")
            return V("pi", S, True)
        if e.attr == "values":
            return self.tr(e.value)
        if e.attr in ("freq", "dir"):
            v = self.tr(e.value)
            if e.attr == "freq" and v.ty in (F, M) and "freq" in k.avail:
                return V("freq", F)
            if e.attr == "dir" and v.ty in (D, M) and "dir" in k.avail:
                return V("dir", D)
            raise Untranslatable(f"coordinate .{e.attr} of a value of type {v.ty}")
        if e.attr == "size":
            v = self.tr(e.value)
            if v.ty in (F, D):
                return V(f"{v.t}.length", NAT)
            raise Untranslatable(".size of " + str(v.ty))
        raise Untranslatable("attribute " + ast.unparse(e))

    def compare(self, e):
        if len(e.ops) != 1 or type(e.ops[0]) not in CMP:
            raise Untranslatable("comparison " + ast.unparse(e))
        op = CMP[type(e.ops[0])]
        l, r = self.tr(e.left), self.tr(e.comparators[0])
        if l.ty in (NAT, LIT) and r.ty in (NAT, LIT) and NAT in (l.ty, r.ty):
            return V(f"decide ({self.nat(l)} {op} {self.nat(r)})", B)
        if l.ty in (S, LIT) and r.ty in (S, LIT):
            return V(f"decide ({self.rat(l)} {op} {self.rat(r)})", B)
        if op in ("=", "≠"):
            raise Untranslatable("(in)equality test on a possibly-NaN value: " + ast.unparse(e))
        if l.ty == OS and r.ty in (S, LIT):      # NaN compares false
            return V(f"(Option.any (fun t => decide (t {op} {self.rat(r)})) {l.t})", B)
        if l.ty in (S, LIT) and r.ty == OS:
            return V(f"(Option.any (fun t => decide ({self.rat(l)} {op} t)) {r.t})", B)
        raise Untranslatable(f"comparison of {l.ty} with {r.ty}: " + ast.unparse(e))

    # ---- arithmetic with broadcasting by dimension name
    def arith(self, op, l, r, src=""):
        sc = (S, LIT)
        lt, rt = l.ty, r.ty
        if lt == LIT and rt == LIT:
            if op == "/":
                if r.t == 0:
                    raise Untranslatable("division by the literal 0")
                return V(rat(l.t / r.t) if l.t % r.t else rat(l.t // r.t), S, True)
            return V({"+": l.t + r.t, "-": l.t - r.t, "*": l.t * r.t}[op], LIT, True)
        if NAT in (lt, rt):
            raise Untranslatable("integer arithmetic: " + src)
        if op == "/":
            if rt == LIT and r.t == 0:
                raise Untranslatable("division by the literal 0")
            if rt in sc and r.const:                       # plain division by a literal / module constant
                pass
            elif lt in sc and rt in sc:
                return V(f"(WS.divOpt {self.rat(l)} {self.rat(r)})", OS)
            elif lt == OS and rt in sc:
                return V(f"(Option.bind {l.t} fun x => WS.divOpt x {self.rat(r)})", OS)
            elif lt in sc and rt == OS:
                return V(f"(Option.bind {r.t} fun y => WS.divOpt {self.rat(l)} y)", OS)
            elif lt == OS and rt == OS:
                return V(_opt2(l.t, r.t, "WS.divOpt x y"), OS)
            else:
                raise Untranslatable(f"division {lt} / {rt} by a computed array: " + src)
        if lt in sc and rt in sc:
            return V(f"({self.rat(l)} {op} {self.rat(r)})", S, l.const and r.const)
        if lt == OS and rt in sc:
            return V(f"(Option.map (fun t => t {op} {self.rat(r)}) {l.t})", OS)
        if lt in sc and rt == OS:
            return V(f"(Option.map (fun t => {self.rat(l)} {op} t) {r.t})", OS)
        if lt == OS and rt == OS:
            return V(f"(Option.bind {l.t} fun x => Option.map (fun y => x {op} y) {r.t})", OS)
        if OS in (lt, rt):
            raise Untranslatable(f"arithmetic {lt} {op} {rt}: " + src)
        if lt in sc and rt in (F, D):
            return V(f"(List.map (fun t => {self.rat(l)} {op} t) {r.t})", rt)
        if lt in (F, D) and rt in sc:
            return V(f"(List.map (fun t => t {op} {self.rat(r)}) {l.t})", lt)
        if lt in (F, D) and lt == rt:
            return V(f"(List.zipWith (fun a b => a {op} b) {l.t} {r.t})", lt)
        if lt in sc and rt == M:
            return V(f"(List.map (fun row => List.map (fun t => {self.rat(l)} {op} t) row) {r.t})", M)
        if lt == M and rt in sc:
            return V(f"(List.map (fun row => List.map (fun t => t {op} {self.rat(r)}) row) {l.t})", M)
        if lt == M and rt == D:
            return V(f"(List.map (fun row => List.zipWith (fun a b => a {op} b) row {r.t}) {l.t})", M)
        if lt == D and rt == M:
            return V(f"(List.map (fun row => List.zipWith (fun a b => a {op} b) {l.t} row) {r.t})", M)
        if lt == M and rt == F:
            return V(f"(List.zipWith (fun row w => List.map (fun t => t {op} w) row) {l.t} {r.t})", M)
        if lt == F and rt == M:
            return V(f"(List.zipWith (fun w row => List.map (fun t => w {op} t) row) {l.t} {r.t})", M)
        if lt == M and rt == M:
            return V(f"(List.zipWith (fun r1 r2 => List.zipWith (fun a b => a {op} b) r1 r2) {l.t} {r.t})", M)
        raise Untranslatable(f"arithmetic {lt} {op} {rt} (outer product / unsupported broadcast): " + src)

    def power(self, b, n, src):
        if b.ty in (S, LIT):
            return V(f"({self.rat(b)} ^ {n})", S, b.const)
        if b.ty == OS:
            return V(f"(Option.map (fun t => t ^ {n}) {b.t})", OS)
        if b.ty in (F, D):
            return V(f"(List.map (fun t => t ^ {n}) {b.t})", b.ty)
        if b.ty == M:
            return V(f"(List.map (fun row => List.map (fun t => t ^ {n}) row) {b.t})", M)
        raise Untranslatable("power " + src)

    def sqrt(self, v, src):
        self.k.lead("sqrt")
        if v.ty in (S, LIT):
            return V(f"(sqrt {self.rat(v)})", S)
        if v.ty == OS:
            return V(f"(Option.map sqrt {v.t})", OS)
        raise Untranslatable("square root of an array: " + src)

    def binop(self, e):
        if isinstance(e.op, ast.Pow):
            x = e.right
            if isinstance(x, ast.Constant) and isinstance(x.value, int) and not isinstance(x.value, bool) and x.value >= 0:
                return self.power(self.tr(e.left), x.value, ast.unparse(e))
            if isinstance(x, ast.Name) and x.id in self.env and self.env[x.id].ty == NAT:
                return self.power(self.tr(e.left), self.env[x.id].t, ast.unparse(e))
            if isinstance(x, ast.Constant) and isinstance(x.value, float) and x.value == 0.5:
                return self.sqrt(self.tr(e.left), ast.unparse(e))
            raise Untranslatable("power " + ast.unparse(e))
        if isinstance(e.op, ast.Mod):
            l, r = self.tr(e.left), self.tr(e.right)
            if l.ty == OS and r.ty in (S, LIT):
                return V(f"(Option.map (fun t => WS.pmod t {self.rat(r)}) {l.t})", OS)
            return V(f"(WS.pmod {self.rat(l)} {self.rat(r)})", S)
        if type(e.op) not in ARITH:
            raise Untranslatable("operator " + type(e.op).__name__)
        return self.arith(ARITH[type(e.op)], self.tr(e.left), self.tr(e.right), ast.unparse(e)[:80])

    def subscript(self, e):
        base = self.tr(e.value)
        s = e.slice
        if isinstance(s, ast.Dict):
            if len(s.keys) != 1:
                raise Untranslatable("subscript " + ast.unparse(e))
            dim, ix = _dim(s.keys[0]), s.values[0]
        else:
            dim, ix = None, s
        if _neg1(ix):
            pos = None
        elif isinstance(ix, ast.Constant) and isinstance(ix.value, int) and not isinstance(ix.value, bool) and ix.value >= 0:
            pos = ix.value
        else:
            raise Untranslatable("index " + ast.unparse(e))
        if base.ty in (F, D):
            if dim is not None and dim != {F: "freq", D: "dir"}[base.ty]:
                raise Untranslatable(f"dimension {dim} not present: " + ast.unparse(e))
            return V(f"(WS.lastD {base.t})" if pos is None else f"(WS.getR {base.t} {pos})", S)
        if base.ty == M and dim == "freq":
            return V(f"(List.getLastD {base.t} [])" if pos is None else f"(List.getD {base.t} {pos} [])", D)
        if base.ty == M and dim == "dir":
            return V(f"(List.map (fun row => WS.lastD row) {base.t})" if pos is None
                     else f"(List.map (fun row => WS.getR row {pos}) {base.t})", F)
        raise Untranslatable("subscript of " + str(base.ty) + ": " + ast.unparse(e))

    def skipna_ok(self, q):
        if isinstance(q, ast.Constant) and isinstance(q.value, bool):
            return True
        return isinstance(q, ast.Name) and q.id in self.env and self.env[q.id].ty == SKIP

    def call(self, e):
        k = self.k
        fn = _call_name(e)
        kw = {q.arg: q.value for q in e.keywords}
        if None in kw:
            raise Untranslatable("** in a call: " + ast.unparse(e)[:80])
        if fn == "float" and len(e.args) == 1 and not kw:
            v = self.tr(e.args[0])
            if v.ty in (S, LIT, OS):
                return v
            raise Untranslatable("float of " + str(v.ty))
        if fn in ("abs", "np.abs", "np.absolute") and len(e.args) == 1 and not kw:
            v = self.tr(e.args[0])
            if v.ty in (S, LIT):
                return V(f"(WS.absR {self.rat(v)})", S, v.const)
            if v.ty in (F, D):
                return V(f"(List.map (fun t => WS.absR t) {v.t})", v.ty)
            raise Untranslatable("abs of " + str(v.ty))
        if fn in ("min", "max") and len(e.args) == 2 and not kw:
            a, b = self.tr(e.args[0]), self.tr(e.args[1])
            return V(f"({'WS.minR' if fn == 'min' else 'WS.maxR'} {self.rat(a)} {self.rat(b)})", S)
        if fn == "len" and len(e.args) == 1 and not kw:
            v = self.tr(e.args[0])
            if v.ty in (F, D):
                return V(f"{v.t}.length", NAT)
            raise Untranslatable("len of " + str(v.ty))
        if fn == "np.sqrt" and len(e.args) == 1 and not kw:
            return self.sqrt(self.tr(e.args[0]), ast.unparse(e)[:80])
        if fn == "np.gradient" and len(e.args) == 1 and not kw:
            v = self.tr(e.args[0])
            if v.ty in (F, D):
                return V(f"(WS.XrT.npGradient {v.t})", v.ty)
            raise Untranslatable("np.gradient of " + str(v.ty))
        if fn == "np.array" and len(e.args) == 1 and not kw and isinstance(e.args[0], (ast.Tuple, ast.List)):
            vs = [self.tr(x) for x in e.args[0].elts]
            return V("[" + ", ".join(self.rat(v) for v in vs) + "]", "RAW")
        if fn == "xr.DataArray":
            data = e.args[0] if len(e.args) == 1 else kw.get("data")
            if data is None or len(e.args) > 1 or set(kw) - {"data", "coords"} or "coords" not in kw or (e.args and "data" in kw):
                raise Untranslatable("xr.DataArray form " + ast.unparse(e)[:80])
            co = ast.unparse(kw["coords"])
            if co not in ("self.freq.coords", "self.dir.coords"):
                raise Untranslatable("xr.DataArray coords " + co)
            want = F if co == "self.freq.coords" else D
            self.tr(kw["coords"].value)     # availability of self.freq / self.dir
            v = self.tr(data)
            if v.ty not in (want, "RAW"):
                raise Untranslatable(f"xr.DataArray of {v.ty} on {co}")
            return V(v.t, want)
        if fn in ("np.cos", "np.sin") and len(e.args) == 1 and not kw:
            return self.table(e)
        if isinstance(e.func, ast.Attribute):
            at = e.func.attr
            if _is_self_attr(e.func):
                if at in _SIGS:
                    return self.method_call(e, _SIGS[at])
                raise Untranslatable(f"call of self.{at} (not a translated method)")
            if at == "sum":
                v = self.tr(e.func.value)
                if len(e.args) == 1 and "dim" not in kw:
                    dim = _dim(e.args[0])
                elif not e.args and "dim" in kw:
                    dim = _dim(kw["dim"])
                else:
                    raise Untranslatable("sum without one named dimension: " + ast.unparse(e)[:80])
                if set(kw) - {"dim", "skipna"} or ("skipna" in kw and not self.skipna_ok(kw["skipna"])):
                    raise Untranslatable("sum arguments " + ast.unparse(e)[:80])
                if (v.ty, dim) in ((F, "freq"), (D, "dir")):
                    return V(f"(List.sum {v.t})", S)
                if (v.ty, dim) == (M, "dir"):
                    return V(f"(List.map List.sum {v.t})", F)
                if (v.ty, dim) == (M, "freq"):
                    if "dir" not in k.avail:
                        raise Untranslatable("column sums need self.dir")
                    return V(f"(WS.colSums dir.length {v.t})", D)
                raise Untranslatable(f"sum of {v.ty} over {dim}: " + ast.unparse(e)[:80])
            if at in ("drop_vars", "rename", "copy"):
                # the value is unchanged (the array's name / a scalar coordinate only); a dict would rename dimensions
                if at != "copy" and (len(e.args) != 1 or kw or isinstance(e.args[0], (ast.Dict, ast.DictComp))):
                    raise Untranslatable(f".{at} with other than one name: " + ast.unparse(e)[:80])
                return self.tr(e.func.value)
            if at == "where":
                return self.where(e, kw)
        raise Untranslatable("call " + ast.unparse(e)[:100])

    def where(self, e, kw):
        x = self.tr(e.func.value)
        args = list(e.args)
        if "cond" in kw:
            args.insert(0, kw.pop("cond"))
        if "other" in kw:
            args.append(kw.pop("other"))
        if kw or not 1 <= len(args) <= 2:
            raise Untranslatable("where arguments " + ast.unparse(e)[:80])
        c = self.tr(args[0])
        if c.ty != B:
            raise Untranslatable("where condition of type " + str(c.ty))
        if x.ty not in (S, OS):
            raise Untranslatable("where on " + str(x.ty))
        if len(args) == 2:
            o = self.tr(args[1])
            if x.ty == S:
                return V(f"(if {c.t} then {x.t} else {self.rat(o)})", S)
            return V(f"(if {c.t} then {x.t} else some {self.rat(o)})", OS)
        xs = x.t if x.ty == OS else f"some {x.t}"
        return V(f"(if {c.t} then {xs} else none)", OS)

    # ---- oracle tables
    def table(self, e):
        k = self.k
        if id(e) in k.table_cache:
            return k.table_cache[id(e)]
        fn = _call_name(e)
        arg = e.args[0]
        if _call_name(arg) == "np.radians" and len(arg.args) == 1 and not arg.keywords:
            chain, inner = fn + "(np.radians(·))", arg.args[0]
        elif isinstance(arg, ast.BinOp) and isinstance(arg.op, ast.Mult) and isinstance(arg.left, ast.Name) and arg.left.id == "D2R":
            _utils_const("D2R")
            chain, inner = fn + "(D2R * ·)", arg.right
            if "xr_D2R" not in [n for n, _ in k.extra]:
                k.extra.append(("xr_D2R", "def xr_D2R (pi : Rat) : Rat := " + _utils_const("D2R")))
        else:
            raise Untranslatable("trigonometric call is not np.cos/np.sin(np.radians(·)) or (D2R * ·): " + ast.unparse(e)[:80])
        if len(k.tables) >= len(k.table_names):
            raise Untranslatable("unexpected transcendental call " + ast.unparse(e)[:80])
        name = k.table_names[len(k.tables)]
        ty = self.tr(inner).ty
        if ty != D:
            raise Untranslatable("table argument of type " + str(ty))
        free = []
        for n in sorted((n for n in ast.walk(inner) if isinstance(n, ast.Name) and n.id in self.env),
                        key=lambda n: (n.lineno, n.col_offset)):
            if n.id not in free:
                free.append(n.id)
        for n in free:
            if self.env[n].ty != S:
                raise Untranslatable(f"table argument depends on {n} : {self.env[n].ty}")
        import copy

        k3 = copy.copy(k)
        k3.used_lead, k3.tables, k3.extra, k3.table_cache, k3.table_names = [], [], [], {}, []
        sub = Tr(k3, {n: V(k.local(n), S) for n in free}, scalar_dir=True)
        body = sub.rat(sub.tr(inner))
        fparams = " ".join(k.local(n) for n in free)
        k.extra.append((f"{k.lean}_{name}_fn", f"def {k.lean}_{name}_fn : String := \"{chain}\""))
        k.extra.append((f"{k.lean}_{name}_arg",
                        f"def {k.lean}_{name}_arg {k3.lead_params()}({fparams + ' ' if fparams else ''}dir : Rat) : Rat := {body}"))
        k.tables.append((name, D, chain))
        v = V(name, D)
        k.table_cache[id(e)] = v
        return v

    # ---- self.<method>(…)
    def method_call(self, e, sig):
        k = self.k
        names = [n for n, _, _ in sig.params]
        given = {}
        if len(e.args) > len(names):
            raise Untranslatable("call arity " + ast.unparse(e)[:80])
        for n, a in zip(names, e.args):
            given[n] = a
        for q in e.keywords:
            if q.arg not in names or q.arg in given:
                raise Untranslatable("call keyword " + ast.unparse(e)[:80])
            given[q.arg] = q.value
        out = []
        for n, want, dflt in sig.params:
            if want == SKIP:
                if n in given and not self.skipna_ok(given[n]):
                    raise Untranslatable("skipna argument " + ast.unparse(given[n]))
                continue
            if n in given:
                if want == B and isinstance(given[n], ast.Constant) and isinstance(given[n].value, bool):
                    out.append("true" if given[n].value else "false")
                    continue
                v = self.tr(given[n])
                if want == S:
                    out.append(self.rat(v))
                elif want == NAT:
                    out.append(self.nat(v))
                elif v.ty == want:
                    out.append(v.t)
                else:
                    raise Untranslatable(f"call argument {n}: {v.ty} for {want}")
            elif dflt is not None:
                out.append(dflt)
            else:
                raise Untranslatable("missing argument " + n)
        for b in sig.base:
            if b not in k.avail:
                raise Untranslatable(f"{sig.lean_name} needs self.{b}")
        for p in sig.lead:
            k.lead(p)
        for (tn, tt, ch) in sig.tables:
            if tn not in [t[0] for t in k.tables]:
                k.tables.append((tn, tt, ch))
        args = list(sig.lead) + list(sig.base) + out + [t[0] for t in sig.tables]
        return V("(" + " ".join([sig.lean_name] + args) + ")", sig.ret)


# ------------------------------------------------------------------------------------------------
# statements
# ------------------------------------------------------------------------------------------------
def _metadata(st):
    """statements that only touch names / attributes / coordinate metadata"""
    if not isinstance(st, ast.Expr) or not isinstance(st.value, ast.Call):
        return False
    c = st.value
    if _call_name(c) == "set_spec_attributes" and len(c.args) == 1 and isinstance(c.args[0], ast.Name) and not c.keywords:
        return True
    f = c.func
    return (isinstance(f, ast.Attribute) and f.attr == "update" and isinstance(f.value, ast.Attribute)
            and f.value.attr == "attrs" and isinstance(f.value.value, ast.Name))


def _dir_guard(test):
    """`self.dir is None` → 'none'; `self.dir is not None [and REST]` → ('some', REST)"""
    def one(t):
        if (isinstance(t, ast.Compare) and len(t.ops) == 1 and _is_self_attr(t.left, "dir")
                and isinstance(t.comparators[0], ast.Constant) and t.comparators[0].value is None):
            if isinstance(t.ops[0], ast.Is):
                return "none"
            if isinstance(t.ops[0], ast.IsNot):
                return "some"
        return None
    g = one(test)
    if g:
        return g, None
    if isinstance(test, ast.BoolOp) and isinstance(test.op, ast.And) and one(test.values[0]) == "some":
        rest = test.values[1] if len(test.values) == 2 else ast.BoolOp(op=ast.And(), values=test.values[1:])
        return "some", rest
    return None, None


def _assigned(stmts):
    out = []
    for st in stmts:
        if isinstance(st, ast.Assign) and len(st.targets) == 1:
            tg = st.targets[0]
            n = [tg.id] if isinstance(tg, ast.Name) else [x.id for x in tg.elts if isinstance(x, ast.Name)] if isinstance(tg, ast.Tuple) else []
        elif isinstance(st, ast.AugAssign) and isinstance(st.target, ast.Name):
            n = [st.target.id]
        elif isinstance(st, ast.If):
            n = _assigned(st.body) + _assigned(st.orelse)
        else:
            n = []
        for x in n:
            if x not in out:
                out.append(x)
    return out


def _returns(stmts):
    if not stmts:
        return False
    last = stmts[-1]
    if isinstance(last, ast.Return):
        return True
    if isinstance(last, ast.If):
        return _returns(last.body) and _returns(last.orelse)
    return False


class Block:
    def __init__(self, k):
        self.k = k

    def value(self, v):
        if v.ty == LIT:
            return V(rat(v.t), S, True)
        if v.ty == "RAW":
            raise Untranslatable("array literal without coordinates")
        return v

    def block(self, stmts, env, ind, finish=None):
        """→ (Lean text ending in the result term, type).  `finish(env)` gives the result when no `return` is reached."""
        k = self.k
        env = dict(env)
        pad = " " * ind
        out = []
        stmts = list(stmts)
        i = 0
        while i < len(stmts):
            st = stmts[i]
            i += 1
            tr = Tr(k, env)
            if _metadata(st):
                tgt = st.value.args[0].id if _call_name(st.value) == "set_spec_attributes" else st.value.func.value.value.id
                if tgt not in env:
                    raise Untranslatable("metadata call on an unknown name: " + ast.unparse(st)[:60])
                continue
            if isinstance(st, ast.Assign):
                if len(st.targets) != 1:
                    raise Untranslatable("chained assignment")
                tg = st.targets[0]
                if isinstance(tg, ast.Name):
                    v = self.value(tr.tr(st.value))
                    if isinstance(v.ty, tuple):
                        raise Untranslatable("tuple bound to one name")
                    nm = k.local(tg.id)
                    out.append(f"{pad}let {nm} := {v.t}")
                    env[tg.id] = V(nm, v.ty, v.const)
                    continue
                if isinstance(tg, ast.Tuple) and all(isinstance(x, ast.Name) for x in tg.elts):
                    v = tr.tr(st.value)
                    if not (isinstance(v.ty, tuple) and len(v.ty) == len(tg.elts) == 2):
                        raise Untranslatable("tuple assignment " + ast.unparse(st)[:80])
                    tmp = "_".join(x.id for x in tg.elts)
                    out.append(f"{pad}let {tmp} := {v.t}")
                    for j, x in enumerate(tg.elts):
                        nm = k.local(x.id)
                        out.append(f"{pad}let {nm} := {tmp}.{j + 1}")
                        env[x.id] = V(nm, v.ty[j])
                    continue
                raise Untranslatable("assignment target " + ast.unparse(tg))
            if isinstance(st, ast.AugAssign):
                if not (isinstance(st.target, ast.Name) and st.target.id in env and type(st.op) in ARITH):
                    raise Untranslatable("augmented assignment " + ast.unparse(st)[:80])
                v = tr.arith(ARITH[type(st.op)], tr.tr(st.target), tr.tr(st.value), ast.unparse(st)[:80])
                nm = k.local(st.target.id)
                out.append(f"{pad}let {nm} := {v.t}")
                env[st.target.id] = V(nm, v.ty)
                continue
            if isinstance(st, ast.If):
                g, rest_test = _dir_guard(st.test)
                if g == "none":
                    # the spectrum has a direction dimension: the test is false
                    if not (len(st.body) == 1 and isinstance(st.body[0], ast.Raise)) or st.orelse:
                        raise Untranslatable("`self.dir is None` guard that does not just raise")
                    if "dir" not in k.avail:
                        raise Untranslatable("self.dir is not available")
                    k.guards.append((ast.unparse(st.test), ast.unparse(st.body[0])))
                    continue
                if g == "some" and rest_test is None:
                    # the test is true: the body is inlined, the other branch recorded
                    k.guards.append((ast.unparse(st.test), "; ".join(ast.unparse(s) for s in st.orelse)))
                    stmts[i:i] = st.body
                    continue
                if g == "some":
                    k.guards.append((ast.unparse(st.test.values[0]), "and"))
                    st = ast.If(test=rest_test, body=st.body, orelse=st.orelse)
                rest = stmts[i:]
                if _returns([st]):
                    if rest:
                        raise Untranslatable("statements after a returning if")
                    t, ty = self.ifexpr(st, env, ind, None)
                    out.append(t)
                    return "\n".join(out), ty
                if _returns(st.body) and not st.orelse:
                    st2 = ast.If(test=st.test, body=st.body, orelse=rest)
                    t, ty = self.ifexpr(st2, env, ind, finish)
                    out.append(t)
                    return "\n".join(out), ty
                live = [n for n in _assigned([st]) if (n in _assigned(st.body) and n in _assigned(st.orelse)) or n in env]
                if len(live) != 1 or len(_assigned([st])) != 1:
                    raise Untranslatable(f"conditional assigning {_assigned([st])}")
                n = live[0]
                nm = k.local(n)
                t, ty = self.ifexpr(st, env, ind + 2, lambda env2, n=n: env2[n])
                out.append(f"{pad}let {nm} :=\n{t}")
                env[n] = V(nm, ty)
                continue
            if isinstance(st, ast.Return):
                if i != len(stmts):
                    raise Untranslatable("statements after return")
                if st.value is None:
                    raise Untranslatable("bare return")
                v = self.value(tr.tr(st.value))
                out.append(pad + v.t)
                return "\n".join(out), v.ty
            raise Untranslatable("statement " + ast.unparse(st)[:80])
        if finish is None:
            raise Untranslatable("block without return")
        v = self.value(finish(env))
        out.append(pad + v.t)
        return "\n".join(out), v.ty

    def ifexpr(self, st, env, ind, finish):
        pad = " " * ind
        c = Tr(self.k, env).tr(st.test)
        if c.ty != B:
            raise Untranslatable("condition " + ast.unparse(st.test)[:80])
        thn, t1 = self.block(st.body, env, ind + 4, finish)
        els, t2 = self.block(st.orelse, env, ind + 4, finish)
        if t1 != t2:
            raise Untranslatable(f"branches of different types {t1} / {t2}")
        return f"{pad}(if {c.t} then\n{thn}\n{pad}  else\n{els})", t1


def _strip_rename(e):
    while (isinstance(e, ast.Call) and isinstance(e.func, ast.Attribute) and e.func.attr == "rename" and len(e.args) == 1
           and not e.keywords and not isinstance(e.args[0], (ast.Dict, ast.DictComp))):
        e = e.func.value
    return e


def _sqrt_shape(e):
    """`c * np.sqrt(X)` → (c, X); `np.sqrt(X)` / `X ** 0.5` → (None, X); else None"""
    def plain(x):
        if _call_name(x) == "np.sqrt" and len(x.args) == 1 and not x.keywords:
            return x.args[0]
        if isinstance(x, ast.BinOp) and isinstance(x.op, ast.Pow) and isinstance(x.right, ast.Constant) \
                and isinstance(x.right.value, float) and x.right.value == 0.5:
            return x.left
        return None
    p = plain(e)
    if p is not None:
        return None, p
    if (isinstance(e, ast.BinOp) and isinstance(e.op, ast.Mult) and isinstance(e.left, ast.Constant)
            and isinstance(e.left.value, (int, float)) and not isinstance(e.left.value, bool) and plain(e.right) is not None):
        return e.left.value, plain(e.right)
    return None


def _final_sqrt(stmts):
    """index of the statement `r = <sqrt shape>` when it is the last value statement and `r` is what is returned"""
    vs = [(i, s) for i, s in enumerate(stmts) if not _metadata(s)]
    if len(vs) < 2 or not isinstance(vs[-1][1], ast.Return) or vs[-1][1].value is None:
        return None
    rv = _strip_rename(vs[-1][1].value)
    i, st = vs[-2]
    if (isinstance(rv, ast.Name) and isinstance(st, ast.Assign) and len(st.targets) == 1 and isinstance(st.targets[0], ast.Name)
            and st.targets[0].id == rv.id and _sqrt_shape(st.value) is not None):
        # everything after it must be metadata about the same name
        return i
    return None


def _doc(s):
    return s.replace("-/", "- /")


def define(k, name, ret, body, doc):
    return f"/-- {_doc(doc)} -/\ndef {name} {k.all_params()} : {ret} :=\n{body}\n"


def _guards_def(k):
    if not k.guards:
        return []
    def q(x):
        return '"' + x.replace("\\", "\\\\").replace('"', '\\"').replace("\n", " ") + '"'
    body = ", ".join(f"({q(a)}, {q(b)})" for a, b in k.guards)
    return [(f"{k.lean}_guards", f"/-- tests on `self.dir` resolved for a spectrum with a direction dimension, with the branch not taken -/\n"
             f"def {k.lean}_guards : List (String × String) := [{body}]\n")]


def method(py, lean, ptypes, tables=(), avail=BASE, register=True):
    """Translate one accessor method.  Emits `<lean>` (full value) and, when the value ends in a square root,
    `<lean>Rad` (+ `<lean>Factor`).  Registers the signature for later `self.<py>(…)` calls."""
    k = Ctx(py, lean, ptypes, tables, avail)
    stmts = body_stmts(k.fn)
    dflt = k.default_terms()
    out = []
    fs = _final_sqrt(stmts)
    if fs is not None:
        c, X = _sqrt_shape(stmts[fs].value)
        body, ty = Block(k).block(stmts[:fs], k.env0(), 2, finish=lambda env: Tr(k, env).tr(X))
        if ty not in (S, OS):
            raise Untranslatable(f"{py}: square root of {ty}")
        rad_params, rad_lead = k.all_params(), k.lead_args()
        rad_args = rad_lead + list(k.avail) + [k.local(a) for a, t in k.ptypes.items() if t != SKIP] + [t[0] for t in k.tables]
        out += [(n, t + "\n") for n, t in k.extra]
        out += _guards_def(k)
        out.append((lean + "Rad", f"/-- radicand of `SpecArray.{py}` (the final square root stripped) -/\n"
                    f"def {lean}Rad {rad_params} : {LEAN_TY[ty]} :=\n{body}\n"))
        k.lead("sqrt")
        call = "(" + " ".join([lean + "Rad"] + rad_args) + ")"
        if c is not None:
            out.append((lean + "Factor", f"/-- `{py} = {lean}Factor * sqrt({lean}Rad)` -/\ndef {lean}Factor : Rat := {rat(c)}\n"))
            full = f"  {lean}Factor * sqrt {call}" if ty == S else f"  Option.map (fun t => {lean}Factor * sqrt t) {call}"
        else:
            full = f"  sqrt {call}" if ty == S else f"  Option.map sqrt {call}"
        out.append((lean, define(k, lean, LEAN_TY[ty], full, f"`SpecArray.{py}` over the oracle function `sqrt`")))
    else:
        body, ty = Block(k).block(stmts, k.env0(), 2)
        out += [(n, t + "\n") for n, t in k.extra]
        out += _guards_def(k)
        out.append((lean, define(k, lean, lean_ty(ty), body, f"`SpecArray.{py}`")))
    if register:
        _SIGS[py] = Sig(lean, k.lead_args(), list(k.avail), [(a, t, dflt.get(a)) for a, t in k.ptypes.items()], list(k.tables), ty)
    return out


def method_atan2(py, lean, ptypes, tables=(), angle="a"):
    """`v = np.arctan2(A, B)` splits the method in `<lean>Vec` (→ `(A, B)`) and `<lean>Post` (the rest, of the angle)."""
    k = Ctx(py, lean, ptypes, tables)
    stmts = body_stmts(k.fn)
    hits = [i for i, st in enumerate(stmts) if isinstance(st, ast.Assign) and _call_name(st.value) == "np.arctan2"]
    if len(hits) != 1:
        raise Untranslatable(f"{py}: {len(hits)} top-level arctan2 assignments")
    i = hits[0]
    st = stmts[i]
    if not (len(st.targets) == 1 and isinstance(st.targets[0], ast.Name) and len(st.value.args) == 2 and not st.value.keywords):
        raise Untranslatable(f"{py}: arctan2 form")

    def fin(env):
        tr = Tr(k, env)
        a, b = tr.tr(st.value.args[0]), tr.tr(st.value.args[1])
        return V(f"({tr.rat(a)}, {tr.rat(b)})", (S, S))
    body, ty = Block(k).block(stmts[:i], k.env0(), 2, finish=fin)
    out = [(n, t + "\n") for n, t in k.extra] + _guards_def(k)
    out.append((lean + "Vec", define(k, lean + "Vec", "Rat × Rat", body, f"`SpecArray.{py}`: the arguments `(y, x)` of `np.arctan2`")))
    k2 = Ctx(py, lean, ptypes, (), avail=[])
    post, ty2 = Block(k2).block(stmts[i + 1:], {st.targets[0].id: V(angle, S)}, 2)
    if ty2 != S:
        raise Untranslatable(f"{py}: value after arctan2 has type {ty2}")
    out.append((lean + "Post", f"/-- `SpecArray.{py}`: the arithmetic after `np.arctan2` (`{angle}` = its value, radians) -/\n"
                f"def {lean}Post {k2.lead_params()}({angle} : Rat) : Rat :=\n{post}\n"))
    return out


def source_fact(py, lean):
    """the whole body of a small accessor (a delegation / a coordinate lookup) as one string"""
    fn = find_func(SPECARRAY, "SpecArray." + py)
    src = "; ".join(ast.unparse(s) for s in body_stmts(fn)).replace("\\", "\\\\").replace('"', '\\"').replace("\n", " ")
    args = ", ".join(a.arg for a in fn.args.args)
    return [(lean, f"/-- source of `SpecArray.{py}` -/\ndef {lean} : String := \"({args}) {src}\"\n")]


# ------------------------------------------------------------------------------------------------
# the accessor methods, in dependency order
# ------------------------------------------------------------------------------------------------
def _m(py, lean, ptypes=None, **kw):
    def f():
        return method(py, lean, ptypes or {}, **kw)
    f.__name__ = "xr_" + py
    return f


def _a(py, lean, ptypes=None, **kw):
    def f():
        return method_atan2(py, lean, ptypes or {}, **kw)
    f.__name__ = "xr_" + py
    return f


def _s(py, lean):
    def f():
        return source_fact(py, lean)
    f.__name__ = "xr_" + py + "_src"
    return f


XR_KERNELS = [
    _s("freq", "xrFreq_src"), _s("dir", "xrDir_src"),
    _m("dd", "xrDd", avail=["dir"], register=False),
    _m("df", "xrDf", avail=["freq"], register=False),
    _m("oned", "xrOned", {"skipna": SKIP}),
    _m("to_energy", "xrToEnergy"),
    _m("hs", "xrHs", {"tail": B}),
    _m("hrms", "xrHrms", {"tail": B}),
    _m("momf", "xrMomf", {"mom": NAT}),
    _m("momd", "xrMomd", {"mom": NAT, "theta": S}, tables=("cp", "sp")),
    _m("tm01", "xrTm01"),
    _m("tm02", "xrTm02"),
    _a("dm", "xrDm"),
    _m("dspr", "xrDspr"),
    _m("crsd", "xrCrsd", {"theta": S}, tables=("cp", "sp")),
    _m("swe", "xrSwe"),
    _m("sw", "xrSw"),
    _m("gw", "xrGw"),
    _m("goda", "xrGoda"),
    _s("dp", "xrDp_src"), _s("dpm", "xrDpm_src"),
]

HEADER = ("import WsVerif.Gen.Prelude\n"
          "import WsVerif.Model.XrTwins\n"
          "/-! GENERATED by harness/translate_xr.py from wavespectra/specarray.py (labelled-array grammar) — do not edit.\n"
          "    Bridged to the models in Props/C01xr.lean (`genxr_*`). -/\n"
          "set_option linter.unusedVariables false\n"
          "namespace WS.Gen\n")


def generate_xr(gen_dir):
    status = {}
    _SIGS.clear()
    text = HEADER
    seen = set()
    for kf in XR_KERNELS:
        try:
            defs = kf()
            for nm, src in defs:
                if nm in seen:
                    continue
                seen.add(nm)
                text += src + "\n"
                status["xr_" + nm] = "ok"
        except Exception as e:  # Untranslatable, or a malformed tree: the tie is broken, the bridge will not build
            msg = f"{type(e).__name__}: {e}".replace("\n", " ")[:300]
            text += f"-- {kf.__name__}: untranslatable: {_doc(msg)}\n\n"
            status[kf.__name__] = f"untranslatable: {msg}"
    text += "end WS.Gen\n"
    write_if_changed(gen_dir / "XrKernels.lean", text)
    return status

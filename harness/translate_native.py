"""T-tier extractors for C12 (model-native dataset readers), called from translate.generate().

Regenerated from $VERIF_REPO's current source into lean/WsVerif/Gen/{Dispatch,NativeK}.lean:

* `dispatchTable`  — read_dataset: the `vars_*` signature sets and the ORDER of the if/elif tests, each
  entry labelled with the reader module the branch really calls (resolved through the import
  statements of input/dataset.py), `identity` for the branch that returns the dataset unchanged;
* `mapping_<reader>` — the MAPPING dictionaries with `attrs.XNAME` resolved through attributes.yml,
  `to_keep`;
* scalar unit-conversion kernels of every reader (`*= D2R`, `(dir + 180) % 360`, `/ R2D`, action→energy
  Jacobian, `10**d * pi / 180`, the NDBC directional distribution) with `np.pi` as the symbolic parameter
  `pi`, `np.cos(...)` calls as oracle-table parameters, `10**dset` as the oracle-table parameter `p10`;
* the literals of the ERA5 default grids.

Anything outside the tiny grammar raises Untranslatable (= tie broken, never guessed).
"""
import ast

from .translate import Untranslatable, _module, body_stmts, find_func, rat, write_if_changed

DATASET = "wavespectra/input/dataset.py"
READERS = {"ww3": "wavespectra/input/ww3.py", "ncswan": "wavespectra/input/ncswan.py", "wwm": "wavespectra/input/wwm.py",
           "era5": "wavespectra/input/era5.py", "ndbc": "wavespectra/input/ndbc.py"}


def lstr(s):
    if not isinstance(s, str) or '"' in s or "\\" in s:
        raise Untranslatable(f"string literal {s!r}")
    return '"' + s + '"'


def lean_strlist(xs):
    return "[" + ", ".join(lstr(x) for x in xs) + "]"


# ------------------------------------------------------------------------------------------------
# dispatch table
# ------------------------------------------------------------------------------------------------
def _imports(path):
    """name -> module for `from m import a, b` statements at module level."""
    out = {}
    for st in _module(path).body:
        if isinstance(st, ast.ImportFrom) and st.module:
            for a in st.names:
                out[a.asname or a.name] = st.module
    return out


def dispatch_table():
    fn = find_func(DATASET, "read_dataset")
    imports = _imports(DATASET)
    sets = {}
    chain = []  # (label, set name)
    stmts = body_stmts(fn)
    dset_name = fn.args.args[0].arg
    seen_union = False
    terminated = False
    for k, st in enumerate(stmts):
        if isinstance(st, ast.Assign) and len(st.targets) == 1 and isinstance(st.targets[0], ast.Name):
            nm = st.targets[0].id
            if isinstance(st.value, ast.Set):
                if chain:
                    raise Untranslatable("signature set defined after the tests started")
                if not all(isinstance(e, ast.Constant) and isinstance(e.value, str) for e in st.value.elts):
                    raise Untranslatable(f"{nm}: non-literal member")
                sets[nm] = [e.value for e in st.value.elts]
                continue
            if nm == "vars_dset":
                if ast.unparse(st.value) != f"set({dset_name}.variables.keys()).union({dset_name}.dims)":
                    raise Untranslatable("vars_dset is not `set(dset.variables.keys()).union(dset.dims)`: " + ast.unparse(st.value))
                seen_union = True
                continue
            raise Untranslatable("read_dataset: unexpected assignment " + ast.unparse(st)[:80])
        if isinstance(st, ast.If):
            if not seen_union or terminated:
                raise Untranslatable("read_dataset: test before vars_dset / after the final else")
            node = st
            while True:
                chain.append(_branch(node, imports, dset_name))
                if not node.orelse:
                    # a plain `if` may only be followed by more tests when its body returns
                    if chain[-1][0] != "identity":
                        raise Untranslatable("read_dataset: non-returning `if` without else")
                    break
                if len(node.orelse) == 1 and isinstance(node.orelse[0], ast.If):
                    node = node.orelse[0]
                    continue
                if len(node.orelse) == 1 and isinstance(node.orelse[0], ast.Raise) and "ValueError" in ast.unparse(node.orelse[0]):
                    terminated = True
                    break
                raise Untranslatable("read_dataset: unexpected else branch " + ast.unparse(node.orelse[0])[:80])
            continue
        if isinstance(st, ast.Return):
            if ast.unparse(st.value) != f"func({dset_name}, **kwargs)" or k != len(stmts) - 1:
                raise Untranslatable("read_dataset: final return is not func(dset, **kwargs)")
            continue
        raise Untranslatable("read_dataset: unexpected statement " + ast.unparse(st)[:80])
    if not terminated:
        raise Untranslatable("read_dataset: no final `else: raise ValueError`")
    table = []
    for label, setname in chain:
        if setname not in sets:
            raise Untranslatable(f"read_dataset: unknown set {setname}")
        table.append((label, sets[setname]))
    return table


def _branch(node, imports, dset_name):
    """`if not vars_X - vars_dset:` → (label, 'vars_X'); label = reader module called, or `identity`."""
    t = node.test
    if not (isinstance(t, ast.UnaryOp) and isinstance(t.op, ast.Not) and isinstance(t.operand, ast.BinOp)
            and isinstance(t.operand.op, ast.Sub) and isinstance(t.operand.left, ast.Name)
            and isinstance(t.operand.right, ast.Name) and t.operand.right.id == "vars_dset"):
        raise Untranslatable("read_dataset: test is not `not vars_X - vars_dset`: " + ast.unparse(t))
    label = None
    for st in node.body:
        if isinstance(st, ast.Expr) and isinstance(st.value, ast.Call) and ast.unparse(st.value.func).startswith("logger."):
            continue
        if isinstance(st, ast.Return) and label is None and ast.unparse(st.value) == dset_name:
            label = "identity"
            continue
        if (isinstance(st, ast.Assign) and label is None and len(st.targets) == 1 and ast.unparse(st.targets[0]) == "func"
                and isinstance(st.value, ast.Name)):
            f = st.value.id
            mod = imports.get(f)
            if mod is None or not mod.startswith("wavespectra.input.") or f != "from_" + mod.rsplit(".", 1)[1]:
                raise Untranslatable(f"read_dataset: {f} is not from_<module> of wavespectra.input.<module>")
            label = mod.rsplit(".", 1)[1]
            continue
        raise Untranslatable("read_dataset: unexpected branch statement " + ast.unparse(st)[:80])
    if label is None:
        raise Untranslatable("read_dataset: branch without reader")
    return label, t.operand.left.id


# ------------------------------------------------------------------------------------------------
# name tables
# ------------------------------------------------------------------------------------------------
def _attr_names():
    import yaml
    from .common import REPO

    d = yaml.load((REPO / "wavespectra/core/attributes.yml").read_text(), yaml.SafeLoader)
    return {k: v for k, v in d.items() if k.endswith("NAME") and isinstance(v, str)}


def _resolve(e, names):
    if isinstance(e, ast.Constant) and isinstance(e.value, str):
        return e.value
    if isinstance(e, ast.Attribute) and isinstance(e.value, ast.Name) and e.value.id == "attrs" and e.attr in names:
        return names[e.attr]
    raise Untranslatable("name: " + ast.unparse(e))


def mapping_of(path, names):
    for st in _module(path).body:
        if isinstance(st, ast.Assign) and ast.unparse(st.targets[0]) == "MAPPING" and isinstance(st.value, ast.Dict):
            return [(_resolve(k, names), _resolve(v, names)) for k, v in zip(st.value.keys, st.value.values)]
    raise Untranslatable(f"{path}: MAPPING not found")


def to_keep(names):
    for st in _module("wavespectra/input/__init__.py").body:
        if isinstance(st, ast.Assign) and ast.unparse(st.targets[0]) == "to_keep" and isinstance(st.value, ast.Set):
            return [_resolve(e, names) for e in st.value.elts]
    raise Untranslatable("to_keep not found")


# ------------------------------------------------------------------------------------------------
# unit-conversion kernels
# ------------------------------------------------------------------------------------------------
class NExpr:
    """Restricted expression grammar; `env` maps `ast.unparse` strings of leaves to Lean terms."""

    def __init__(self, env, consts):
        self.env = dict(env)
        self.consts = consts      # Name -> Lean term for module constants (D2R, R2D)
        self.cos_args = []        # translated arguments of np.cos calls, in source order

    def tr(self, e):
        key = ast.unparse(e)
        if key in self.env:
            return self.env[key]
        if isinstance(e, ast.BinOp):
            ops = {ast.Add: "+", ast.Sub: "-", ast.Mult: "*", ast.Div: "/"}
            if type(e.op) in ops:
                return f"({self.tr(e.left)} {ops[type(e.op)]} {self.tr(e.right)})"
            if isinstance(e.op, ast.Mod):
                return f"(WS.pmod {self.tr(e.left)} {self.tr(e.right)})"
            if (isinstance(e.op, ast.Pow) and isinstance(e.right, ast.Constant) and isinstance(e.right.value, int)
                    and not isinstance(e.right.value, bool) and e.right.value >= 0):
                return f"({self.tr(e.left)} ^ {e.right.value})"
            raise Untranslatable("operator " + ast.dump(e.op))
        if isinstance(e, ast.Name):
            if e.id in self.consts:
                return self.consts[e.id]
            raise Untranslatable("free name " + e.id)
        if isinstance(e, ast.Attribute) and key == "np.pi":
            return "pi"
        if isinstance(e, ast.Constant) and isinstance(e.value, (int, float)) and not isinstance(e.value, bool):
            return rat(e.value)
        if isinstance(e, ast.Call) and ast.unparse(e.func) == "np.cos" and len(e.args) == 1 and not e.keywords:
            self.cos_args.append(self.tr(e.args[0]))
            return f"c{len(self.cos_args)}"
        raise Untranslatable("expr: " + key[:120])


def _module_const(path, name, consts=None):
    """Module-level `NAME = <expr in pi and literals>` → Lean term."""
    hits = [st for st in _module(path).body if isinstance(st, ast.Assign) and ast.unparse(st.targets[0]) == name]
    if len(hits) != 1:
        raise Untranslatable(f"{path}: {name} defined {len(hits)} times")
    return NExpr({}, consts or {}).tr(hits[0].value)


def _const_env(path):
    """Lean terms for D2R / R2D as visible in a reader module (imported from utils or defined locally)."""
    env = {}
    imp = _imports(path)
    for nm in ("D2R", "R2D"):
        if imp.get(nm) == "wavespectra.core.utils":
            env[nm] = f"(utils_{nm} pi)"
        else:
            local = [st for st in _module(path).body if isinstance(st, ast.Assign) and ast.unparse(st.targets[0]) == nm]
            if local:
                env[nm] = f"({path.rsplit('/', 1)[1][:-3]}_{nm} pi)"
    return env


def _walk_fn(fn):
    for n in ast.walk(fn):
        yield n


def _one(hits, what):
    if len(hits) != 1:
        raise Untranslatable(f"{what}: {len(hits)} matches")
    return hits[0]


def _coord_exprs(fn, names):
    """{coordinate name: expr} over all `dset.assign_coords({attrs.X: expr})` calls of a function."""
    out = {}
    for n in _walk_fn(fn):
        if isinstance(n, ast.Call) and isinstance(n.func, ast.Attribute) and n.func.attr == "assign_coords":
            if len(n.args) != 1 or not isinstance(n.args[0], ast.Dict) or n.keywords:
                raise Untranslatable("assign_coords form")
            for k, v in zip(n.args[0].keys, n.args[0].values):
                nm = _resolve(k, names)
                if nm in out:
                    raise Untranslatable(f"coordinate {nm} assigned twice")
                out[nm] = v
    return out


SPEC = "dset[attrs.SPECNAME]"
DIRN = "dset[attrs.DIRNAME]"


def k_consts(names):
    defs = []
    defs.append(("utils_D2R", "def utils_D2R (pi : Rat) : Rat := " + _module_const("wavespectra/core/utils.py", "D2R")))
    defs.append(("utils_R2D", "def utils_R2D (pi : Rat) : Rat := " + _module_const("wavespectra/core/utils.py", "R2D")))
    for rd in ("ncswan", "wwm"):
        defs.append((f"{rd}_R2D", f"def {rd}_R2D (pi : Rat) : Rat := " + _module_const(READERS[rd], "R2D")))
    return defs


def k_scale_dir(rd):
    """ww3 / ncswan: scaling of the spectrum, direction coordinate."""

    def k(names):
        spec, dirn = SPEC, DIRN
        defs = []
        fn = find_func(READERS[rd], "from_" + rd)
        ce = _const_env(READERS[rd])
        # either `dset[SPEC] *= k` / `/= k` (in place) or `dset[SPEC] = dset[SPEC] * k` (fresh array): same arithmetic
        augs = [n for n in _walk_fn(fn) if isinstance(n, ast.AugAssign) and ast.unparse(n.target) == spec]
        plain = [n for n in _walk_fn(fn) if isinstance(n, ast.Assign) and any(ast.unparse(t) == spec for t in n.targets)]
        if len(augs) + len(plain) != 1:
            raise Untranslatable(f"{rd}: spectrum scaling: {len(augs)} in-place + {len(plain)} plain assignments")
        if augs:
            op = {ast.Mult: "*", ast.Div: "/"}.get(type(augs[0].op))
            if op is None:
                raise Untranslatable(f"{rd}: spectrum scaling operator")
            body = f"(x {op} {NExpr({}, ce).tr(augs[0].value)})"
        else:
            body = NExpr({spec: "x"}, ce).tr(plain[0].value)
        defs.append((f"{rd}_spec", f"def {rd}_spec (pi x : Rat) : Rat := {body}"))
        co = _coord_exprs(fn, names)
        if set(co) != {names["DIRNAME"]}:
            raise Untranslatable(f"{rd}: coordinates assigned: {sorted(co)}")
        defs.append((f"{rd}_dir", f"def {rd}_dir (pi x : Rat) : Rat := " + NExpr({dirn: "x"}, ce).tr(co[names["DIRNAME"]])))
        return defs

    k.__name__ = "k_" + rd
    return k


def k_wwm(names):
    spec = SPEC
    defs = []
    fn = find_func(READERS["wwm"], "from_wwm")
    ce = _const_env(READERS["wwm"])
    co = _coord_exprs(fn, names)
    if set(co) != {names["FREQNAME"], names["DIRNAME"]}:
        raise Untranslatable(f"wwm: coordinates assigned: {sorted(co)}")
    defs.append(("wwm_freq", "def wwm_freq (pi sig : Rat) : Rat := " + NExpr({"dset.SPSIG": "sig"}, ce).tr(co[names["FREQNAME"]])))
    defs.append(("wwm_dir", "def wwm_dir (pi spdir : Rat) : Rat := " + NExpr({"dset.SPDIR": "spdir"}, ce).tr(co[names["DIRNAME"]])))
    asg = _one([n for n in _walk_fn(fn) if isinstance(n, ast.Assign) and any(ast.unparse(t) == spec for t in n.targets)], "wwm: spectrum assignment")
    if [n for n in _walk_fn(fn) if isinstance(n, ast.AugAssign) and ast.unparse(n.target) == spec]:
        raise Untranslatable("wwm: spectrum also scaled in place")
    defs.append(("wwm_spec", "def wwm_spec (pi sig x : Rat) : Rat := " + NExpr({spec: "x", "dset.SPSIG": "sig"}, ce).tr(asg.value)))
    return defs


def k_era5(names):
    """`dset = 10**dset * np.pi / 180`, `dset = dset.fillna(0)`, default grids."""
    defs = []
    fn = find_func(READERS["era5"], "from_era5")
    asg = [n for n in body_stmts(fn) if isinstance(n, ast.Assign) and ast.unparse(n.targets[0]) == "dset"]
    # renaming of the native names (recorded by rename_facts / mapping_era5) comes first and is not arithmetic
    ren = [n for n in asg if isinstance(n.value, ast.Call) and isinstance(n.value.func, ast.Attribute) and n.value.func.attr == "rename"]
    if ren and asg[:len(ren)] != ren:
        raise Untranslatable("era5: renaming after the conversion")
    asg = [n for n in asg if n not in ren]
    if len(asg) != 2:
        raise Untranslatable(f"era5: {len(asg)} arithmetic assignments to dset")
    nat = [n for n in body_stmts(fn) if isinstance(n, ast.Assign) and ast.unparse(n.targets[0]) == "native" and isinstance(n.value, ast.Dict)]
    mp = [(_resolve(k, names), _resolve(v, names)) for k, v in zip(nat[0].value.keys, nat[0].value.values)] if len(nat) == 1 else []
    defs.append(("mapping_era5", "def mapping_era5 : List (String × String) := [" + ", ".join(f"({lstr(x)}, {lstr(y)})" for x, y in mp) + "]"))
    defs.append(("era5_spec", "def era5_spec (pi p10 : Rat) : Rat := " + NExpr({"10 ** dset": "p10"}, {}).tr(asg[0].value)))
    v = asg[1].value
    if not (isinstance(v, ast.Call) and ast.unparse(v.func) == "dset.fillna" and len(v.args) == 1 and isinstance(v.args[0], ast.Constant)):
        raise Untranslatable("era5: second assignment is not dset.fillna(<literal>)")
    defs.append(("era5_fill", "def era5_fill : Rat := " + rat(v.args[0].value)))
    for nm in ("DEFAULT_FREQS", "DEFAULT_DIRS"):
        st = _one([s for s in _module(READERS["era5"]).body if isinstance(s, ast.Assign) and ast.unparse(s.targets[0]) == nm], "era5 " + nm)
        lits = [n.value for n in _ordered_constants(st.value)]
        defs.append((f"lits_era5_{nm}", f"def lits_era5_{nm} : List Rat := [{', '.join(rat(x) for x in lits)}]"))
        defs.append((f"src_era5_{nm}", f"def src_era5_{nm} : String := {lstr(ast.unparse(st.value))}"))
    return defs


def k_ndbc(names):
    defs = []
    fn = find_func(READERS["ndbc"], "_construct_spectra")
    args = [a.arg for a in fn.args.args]
    if args != ["ef", "swd1", "swd2", "swr1", "swr2", "dir"]:
        raise Untranslatable("ndbc: _construct_spectra signature " + str(args))
    st = body_stmts(fn)
    if not (len(st) == 2 and isinstance(st[0], ast.Assign) and isinstance(st[0].targets[0], ast.Name) and isinstance(st[1], ast.Return)):
        raise Untranslatable("ndbc: _construct_spectra body")
    ce = _const_env(READERS["ndbc"])
    ex = NExpr({a: a for a in args}, ce)
    dexpr = ex.tr(st[0].value)
    if len(ex.cos_args) != 2:
        raise Untranslatable("ndbc: expected two cosine terms")
    defs.append(("ndbc_cosarg1", f"def ndbc_cosarg1 (pi swd1 swd2 dir : Rat) : Rat := {ex.cos_args[0]}"))
    defs.append(("ndbc_cosarg2", f"def ndbc_cosarg2 (pi swd1 swd2 dir : Rat) : Rat := {ex.cos_args[1]}"))
    defs.append(("ndbc_dist", f"def ndbc_dist (swr1 swr2 c1 c2 : Rat) : Rat := {dexpr}"))
    ex2 = NExpr({"ef": "ef", st[0].targets[0].id: "d"}, ce)
    defs.append(("ndbc_spec", f"def ndbc_spec (pi ef d : Rat) : Rat := {ex2.tr(st[1].value)}"))
    return defs


def rename_facts(names=None):
    """How each reader renames: arguments of the `.rename(...)` calls (source order) and the expressions assigned to
    the local `mapping` (ww3/ncswan/ndbc filter MAPPING by presence; wwm passes MAPPING itself; era5 renames nothing)."""
    out = []
    for rd in ("ww3", "ncswan", "wwm", "era5", "ndbc"):
        fn = find_func(READERS[rd], "from_" + rd)
        calls = [n for n in ast.walk(fn) if isinstance(n, ast.Call) and isinstance(n.func, ast.Attribute) and n.func.attr == "rename"]
        calls.sort(key=lambda n: (n.lineno, n.col_offset))
        args = []
        for c in calls:
            if len(c.args) != 1 or c.keywords:
                raise Untranslatable(f"{rd}: rename call form")
            args.append(ast.unparse(c.func.value) + ".rename(" + ast.unparse(c.args[0]) + ")")
        out.append((f"renames_{rd}", f"def renames_{rd} : List String := {lean_strlist(args)}"))
        maps = [n for n in ast.walk(fn) if isinstance(n, ast.Assign) and ast.unparse(n.targets[0]) == "mapping"]
        maps.sort(key=lambda n: n.lineno)
        out.append((f"mapping_expr_{rd}", f"def mapping_expr_{rd} : List String := "
                    f"{lean_strlist([ast.unparse(m.value).replace(chr(34), chr(39)) for m in maps])}"))
    return out


def uv_kernels(names=None):
    """utils.uv_to_spddir (radicand of the magnitude; direction from the arctan2 oracle angle `a` in degrees) and the
    way ncswan / wwm call it."""
    fn = find_func("wavespectra/core/utils.py", "uv_to_spddir")
    if [a.arg for a in fn.args.args] != ["u", "v", "coming_from"]:
        raise Untranslatable("uv_to_spddir: signature")
    st = body_stmts(fn)
    if not (len(st) == 5 and all(isinstance(x, ast.Assign) and len(x.targets) == 1 for x in st[:4]) and isinstance(st[4], ast.Return)):
        raise Untranslatable("uv_to_spddir: body shape")
    tn, mag, d1, d2 = st[:4]
    if not (ast.unparse(tn.targets[0]) == "to_nautical" and isinstance(tn.value, ast.IfExp) and ast.unparse(tn.value.test) == "coming_from"
            and isinstance(tn.value.body, ast.Constant) and isinstance(tn.value.orelse, ast.Constant)):
        raise Untranslatable("uv_to_spddir: to_nautical")
    tnl = f"(if coming_from then {rat(tn.value.body.value)} else {rat(tn.value.orelse.value)})"
    if not (ast.unparse(mag.targets[0]) == "mag" and isinstance(mag.value, ast.Call) and ast.unparse(mag.value.func) == "np.sqrt"
            and len(mag.value.args) == 1):
        raise Untranslatable("uv_to_spddir: mag")
    if not (ast.unparse(d1.targets[0]) == "direc" and ast.unparse(d1.value) == "np.rad2deg(np.arctan2(v, u))"):
        raise Untranslatable("uv_to_spddir: direc is not np.rad2deg(np.arctan2(v, u))")
    if ast.unparse(d2.targets[0]) != "direc" or ast.unparse(st[4].value) != "(mag, direc)":
        raise Untranslatable("uv_to_spddir: result")
    out = [("uv_mag2", "def uv_mag2 (u v : Rat) : Rat := " + NExpr({"u": "u", "v": "v"}, {}).tr(mag.value.args[0])),
           ("uv_dir", "def uv_dir (coming_from : Bool) (a : Rat) : Rat := " + NExpr({"to_nautical": tnl, "direc": "a"}, {}).tr(d2.value))]
    for rd in ("ncswan", "wwm"):
        f2 = find_func(READERS[rd], "from_" + rd)
        calls = [n for n in ast.walk(f2) if isinstance(n, ast.Call) and ast.unparse(n.func) == "uv_to_spddir"]
        c = _one(calls, f"{rd}: uv_to_spddir call")
        asg = _one([n for n in ast.walk(f2) if isinstance(n, ast.Assign) and n.value is c], f"{rd}: uv_to_spddir assignment")
        words = [ast.unparse(asg.targets[0])] + [ast.unparse(a) for a in c.args] + [f"{k.arg}={ast.unparse(k.value)}" for k in c.keywords]
        out.append((f"{rd}_uv_call", f"def {rd}_uv_call : List String := {lean_strlist([w.replace(chr(34), chr(39)) for w in words])}"))
    return out


def _ordered_constants(node):
    out = []

    class V(ast.NodeVisitor):
        def visit_Constant(self, n):
            if isinstance(n.value, (int, float)) and not isinstance(n.value, bool):
                out.append(n)

    V().visit(node)
    return out


def generate_native(gen_dir):
    status = {}
    names = None
    body = "import WsVerif.Gen.Prelude\n/-! GENERATED from wavespectra/input/dataset.py, the readers' MAPPING tables and input/__init__.py. -/\nnamespace WS.Gen\n"
    try:
        tb = dispatch_table()
        body += ("/-- read_dataset: (reader module called | identity, signature set) in the order of the if/elif tests -/\n"
                 "def dispatchTable : List (String × List String) := [\n  "
                 + ",\n  ".join(f"({lstr(l)}, {lean_strlist(s)})" for l, s in tb) + "]\n")
        status["dispatchTable"] = "ok"
    except Exception as e:
        body += f"-- dispatchTable: untranslatable: {e}\n"
        status["dispatchTable"] = f"untranslatable: {e}"
    try:
        names = _attr_names()
        for rd in ("ww3", "ncswan", "wwm", "ndbc"):
            mp = mapping_of(READERS[rd], names)
            body += f"def mapping_{rd} : List (String × String) := [" + ", ".join(f"({lstr(a)}, {lstr(b)})" for a, b in mp) + "]\n"
        body += f"def to_keep : List String := {lean_strlist(to_keep(names))}\n"
        status["mappings"] = "ok"
    except Exception as e:
        body += f"-- mappings: untranslatable: {e}\n"
        status["mappings"] = f"untranslatable: {e}"
    body += "end WS.Gen\n"
    write_if_changed(gen_dir / "Dispatch.lean", body)

    text = ("import WsVerif.Gen.Prelude\n/-! GENERATED unit-conversion kernels of the model-native readers (`pi` = np.pi, symbolic;\n"
            "    `c1`,`c2` = values of the np.cos calls, `p10` = value of `10**d2fd`: oracle tables). -/\nnamespace WS.Gen\n")
    # one section per reader: a source change breaks only the obligations that depend on that reader
    for sect in (k_consts, k_scale_dir("ww3"), k_scale_dir("ncswan"), k_wwm, k_era5, k_ndbc, uv_kernels, rename_facts):
        try:
            for nm, src in sect(names or _attr_names()):
                text += src + "\n"
                status["native_" + nm] = "ok"
        except Exception as e:
            text += f"-- {sect.__name__}: untranslatable: {e}\n"
            status["native_" + sect.__name__] = f"untranslatable: {e}"
    text += "end WS.Gen\n"
    write_if_changed(gen_dir / "NativeK.lean", text)
    return status

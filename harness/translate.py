"""T-tier translator (DESIGN Appendix B): regenerates Lean definitions from $VERIF_REPO's current source.

* `lits_<module>_<function>`: the ordered list of numeric literals occurring in a function body
  (floats as the exact rational of the double), bridged in Props files to the model's constants;
* scalar kernels in a restricted expression grammar (`npstats.tps`, `utils.is_overlap`, ...);
* tables (dispatch signature sets, name mappings, defaults).

Anything outside the grammar raises `Untranslatable` = "tie broken" (never guessed).
Files are rewritten only when their content changes, so `lake build` re-elaborates exactly the
theorems whose source changed.
"""
import ast
import sys
from fractions import Fraction
from pathlib import Path

from .common import LEAN, REPO


class Untranslatable(Exception):
    pass


def rat(x):
    if isinstance(x, bool):
        raise Untranslatable("bool literal")
    fr = Fraction(x) if isinstance(x, int) else Fraction(*float(x).as_integer_ratio())
    if fr.denominator == 1:
        return f"({fr.numerator} : Rat)"
    return f"(({fr.numerator} : Rat) / {fr.denominator})"


def _module(path):
    return ast.parse((REPO / path).read_text())


def find_func(path, qualname):
    """qualname: `func` or `Class.func`."""
    mod = _module(path)
    parts = qualname.split(".")
    body = mod.body
    node = None
    for p in parts:
        node = None
        for n in body:
            if isinstance(n, (ast.FunctionDef, ast.ClassDef)) and n.name == p:
                node = n
                break
        if node is None:
            raise Untranslatable(f"{path}:{qualname} not found")
        body = node.body
    return node


def func_literals(path, qualname):
    fn = find_func(path, qualname)
    out = []
    for node in ast.walk(fn):
        pass
    # ordered traversal (ast.walk is BFS); use a NodeVisitor for source order
    class V(ast.NodeVisitor):
        def visit_Expr(self, n):
            if isinstance(n.value, ast.Constant) and isinstance(n.value.value, str):
                return  # docstring
            self.generic_visit(n)

        def visit_Constant(self, n):
            if isinstance(n.value, bool) or n.value is None:
                return
            if isinstance(n.value, (int, float)):
                out.append(n.value)

        def visit_arguments(self, n):
            for d in list(n.defaults) + [k for k in n.kw_defaults if k is not None]:
                self.visit(d)

    V().visit(fn)
    return out


# --------------------------------------------------------------------------------------------
# scalar kernels
# --------------------------------------------------------------------------------------------
class Expr:
    def __init__(self, seqs=(), idx_total=False):
        self.seqs = set(seqs)

    def tr(self, e):
        if isinstance(e, ast.BinOp):
            ops = {ast.Add: "+", ast.Sub: "-", ast.Mult: "*", ast.Div: "/"}
            if type(e.op) in ops:
                return f"({self.tr(e.left)} {ops[type(e.op)]} {self.tr(e.right)})"
            if isinstance(e.op, ast.Pow) and isinstance(e.right, ast.Constant) and isinstance(e.right.value, int) and e.right.value >= 0:
                return f"({self.tr(e.left)} ^ {e.right.value})"
            if isinstance(e.op, ast.Mod):
                return f"(WS.pmod {self.tr(e.left)} {self.tr(e.right)})"
            raise Untranslatable(ast.dump(e.op))
        if isinstance(e, ast.UnaryOp) and isinstance(e.op, ast.USub):
            return f"(-{self.tr(e.operand)})"
        if isinstance(e, ast.Name):
            return e.id
        if isinstance(e, ast.Constant) and isinstance(e.value, (int, float)) and not isinstance(e.value, bool):
            return rat(e.value)
        if isinstance(e, ast.Subscript) and isinstance(e.value, ast.Name):
            return f"(WS.getR {e.value.id} {self.idx(e.slice)})"
        if isinstance(e, ast.Call):
            fn = ast.unparse(e.func)
            if fn in ("np.float32", "float"):
                return self.tr(e.args[0])
            if fn in ("np.absolute", "abs", "np.abs"):
                return f"(WS.absR {self.tr(e.args[0])})"
            if fn == "np.minimum":
                return f"(WS.minR {self.tr(e.args[0])} {self.tr(e.args[1])})"
            # x.min() / x.max() on a named array (numpy reductions of a non-empty 1-D array)
            if (isinstance(e.func, ast.Attribute) and e.func.attr in ("min", "max") and isinstance(e.func.value, ast.Name)
                    and not e.args and not e.keywords):
                return f"(WS.Select.arr{e.func.attr.capitalize()} {e.func.value.id})"
        raise Untranslatable("expr: " + ast.dump(e)[:200])

    def idx(self, e):
        if isinstance(e, ast.Name):
            return e.id
        if isinstance(e, ast.BinOp) and isinstance(e.left, ast.Name) and isinstance(e.right, ast.Constant):
            if isinstance(e.op, ast.Add):
                return f"({e.left.id} + {e.right.value})"
            if isinstance(e.op, ast.Sub):
                return f"({e.left.id} - {e.right.value})"
        if isinstance(e, ast.Constant) and isinstance(e.value, int) and e.value >= 0:
            return str(e.value)
        raise Untranslatable("index: " + ast.dump(e)[:200])

    def cond(self, e):
        if isinstance(e, ast.BoolOp):
            op = " || " if isinstance(e.op, ast.Or) else " && "
            return "(" + op.join(self.cond(v) for v in e.values) + ")"
        if isinstance(e, ast.UnaryOp) and isinstance(e.op, ast.Not):
            return f"(!{self.cond(e.operand)})"
        if isinstance(e, ast.Compare) and len(e.ops) == 1:
            ops = {ast.Lt: "<", ast.LtE: "≤", ast.Gt: ">", ast.GtE: "≥", ast.Eq: "=", ast.NotEq: "≠"}
            return f"decide ({self.tr(e.left)} {ops[type(e.ops[0])]} {self.tr(e.comparators[0])})"
        raise Untranslatable("cond: " + ast.dump(e)[:200])


def body_stmts(fn):
    return [s for s in fn.body if not (isinstance(s, ast.Expr) and isinstance(s.value, ast.Constant))]


def kernel_tps():
    """npstats.tps -> Gen.tps : Nat → List Rat → List Rat → Option Rat (value before np.float32/1.0 division kept)."""
    fn = find_func("wavespectra/core/npstats.py", "tps")
    top = body_stmts(fn)
    if not (len(top) == 1 and isinstance(top[0], ast.If) and ast.unparse(top[0].test) == "not ipeak"
            and ast.unparse(top[0].body[0]) == "return np.nan"):
        raise Untranslatable("tps: unexpected control structure")
    ex = Expr()
    lines = []
    for st in top[0].orelse:
        if isinstance(st, ast.Assign) and len(st.targets) == 1 and isinstance(st.targets[0], ast.Name):
            lines.append(f"    let {st.targets[0].id} := {ex.tr(st.value)}")
        elif isinstance(st, ast.Return):
            lines.append(f"    some {ex.tr(st.value)}")
        else:
            raise Untranslatable("tps: statement " + ast.dump(st)[:100])
    args = [a.arg for a in fn.args.args]
    if args != ["ipeak", "spectrum", "freq"]:
        raise Untranslatable("tps: signature")
    return ("def tps (ipeak : Nat) (spectrum freq : List Rat) : Option Rat :=\n  if ipeak = 0 then none else\n"
            + "\n".join(lines) + "\n")


def kernel_tp():
    fn = find_func("wavespectra/core/npstats.py", "tp")
    top = body_stmts(fn)
    if not (len(top) == 1 and isinstance(top[0], ast.If) and ast.unparse(top[0].test) == "not ipeak"
            and ast.unparse(top[0].body[0]) == "return np.nan" and len(top[0].orelse) == 1
            and isinstance(top[0].orelse[0], ast.Return)):
        raise Untranslatable("tp: unexpected control structure")
    ex = Expr()
    return ("def tp (ipeak : Nat) (spectrum freq : List Rat) : Option Rat :=\n  if ipeak = 0 then none else\n"
            f"    some {ex.tr(top[0].orelse[0].value)}\n")


def kernel_is_overlap():
    fn = find_func("wavespectra/core/utils.py", "is_overlap")
    top = body_stmts(fn)
    ex = Expr()
    if not (isinstance(top[0], ast.Assign) and isinstance(top[1], ast.Assign)):
        raise Untranslatable("is_overlap: unpacking")
    n1 = [e.id for e in top[0].targets[0].elts]
    n2 = [e.id for e in top[1].targets[0].elts]
    if ast.unparse(top[0].value) != "rect1" or ast.unparse(top[1].value) != "rect2" or len(n1) != 4 or len(n2) != 4:
        raise Untranslatable("is_overlap: unpacking")
    code = ""
    rest = top[2:]
    for st in rest[:-1]:
        if not (isinstance(st, ast.If) and len(st.body) == 1 and isinstance(st.body[0], ast.Return)
                and isinstance(st.body[0].value, ast.Constant) and not st.orelse):
            raise Untranslatable("is_overlap: if")
        code += f"  if {ex.cond(st.test)} then {str(st.body[0].value.value).lower()} else\n"
    last = rest[-1]
    if not (isinstance(last, ast.Return) and isinstance(last.value, ast.Constant)):
        raise Untranslatable("is_overlap: final return")
    code += f"  {str(last.value.value).lower()}\n"
    return f"def isOverlap ({' '.join(n1)} {' '.join(n2)} : Rat) : Bool :=\n" + code


def kernel_angle():
    fn = find_func("wavespectra/core/utils.py", "angle")
    top = body_stmts(fn)
    ex = Expr()
    lines = []
    for st in top:
        if isinstance(st, ast.Assign):
            lines.append(f"  let {st.targets[0].id} := {ex.tr(st.value)}")
        elif isinstance(st, ast.Return):
            lines.append(f"  {ex.tr(st.value)}")
        else:
            raise Untranslatable("angle")
    return "def angle (dir1 dir2 : Rat) : Rat :=\n" + "\n".join(lines) + "\n"


def _kernel_lonconv(pyname, leanname):
    """Coordinates._is_180 / _is_360: `if <cond on array.min()/max()>: return True` … `return False`."""
    fn = find_func("wavespectra/core/select.py", f"Coordinates.{pyname}")
    if [a.arg for a in fn.args.args] != ["self", "array"]:
        raise Untranslatable(f"{pyname}: signature")
    top = body_stmts(fn)
    ex = Expr()
    code = ""
    for st in top[:-1]:
        if not (isinstance(st, ast.If) and len(st.body) == 1 and isinstance(st.body[0], ast.Return)
                and isinstance(st.body[0].value, ast.Constant) and isinstance(st.body[0].value.value, bool) and not st.orelse):
            raise Untranslatable(f"{pyname}: if")
        code += f"  if {ex.cond(st.test)} then {str(st.body[0].value.value).lower()} else\n"
    last = top[-1]
    if not (isinstance(last, ast.Return) and isinstance(last.value, ast.Constant) and isinstance(last.value.value, bool)):
        raise Untranslatable(f"{pyname}: final return")
    code += f"  {str(last.value.value).lower()}\n"
    return f"def {leanname} (array : List Rat) : Bool :=\n" + code


def kernel_is_180():
    return _kernel_lonconv("_is_180", "is180")


def kernel_is_360():
    return _kernel_lonconv("_is_360", "is360")


def kernel_smooth_facts():
    """utils.smooth_spec -> structural facts the C16 model depends on, as Lean strings:
    which object's direction coordinate is cast to float32 and put on the sorted copy, which variable sizes the
    circular padding (the loop variable `window` is resolved to the LAST element of the validated list), and the
    source text of the circularity test, the rolling mean, the clip-back and the fill."""
    fn = find_func("wavespectra/core/utils.py", "smooth_spec")
    top = body_stmts(fn)
    args = [a.arg for a in fn.args.args]
    if args != ["dset", "freq_window", "dir_window"]:
        raise Untranslatable("smooth_spec: signature")
    loop = [s for s in top if isinstance(s, ast.For)]
    if len(loop) != 1 or not isinstance(loop[0].target, ast.Name) or not isinstance(loop[0].iter, (ast.List, ast.Tuple)):
        raise Untranslatable("smooth_spec: validation loop")
    loopvar = loop[0].target.id
    validated = [ast.unparse(e) for e in loop[0].iter.elts]
    test = ast.unparse(loop[0].body[0].test) if isinstance(loop[0].body[0], ast.If) else "?"
    raises = ast.unparse(loop[0].body[0].body[0].exc.func) if isinstance(loop[0].body[0].body[0], ast.Raise) else "?"
    label_src = None
    for s in top:
        if (isinstance(s, ast.Assign) and isinstance(s.targets[0], ast.Subscript) and ast.unparse(s.targets[0]) == "dsout[attrs.DIRNAME]"):
            v = s.value
            if (isinstance(v, ast.Call) and isinstance(v.func, ast.Attribute) and v.func.attr == "astype"
                    and isinstance(v.func.value, ast.Subscript) and isinstance(v.func.value.value, ast.Name)
                    and ast.unparse(v.func.value.slice) == "attrs.DIRNAME" and ast.unparse(v.args[0]) == "'float32'"):
                label_src = v.func.value.value.id
    if label_src is None:
        raise Untranslatable("smooth_spec: float32 label assignment not found")
    sort_stmt = [ast.unparse(s) for s in top if isinstance(s, ast.Assign) and "sortby" in ast.unparse(s.value)]
    pads = []
    circ = None
    for s in ast.walk(fn):
        if isinstance(s, ast.Call) and ast.unparse(s.func) == "slice":
            for a in s.args:
                for n in ast.walk(a):
                    if isinstance(n, ast.Name):
                        pads.append(validated[-1] if n.id == loopvar else n.id)
        if isinstance(s, ast.Assign) and ast.unparse(s.targets[0]) == "is_circular" and not isinstance(s.value, ast.Constant):
            circ = ast.unparse(s.value)
    others = {}
    for s in top:
        if isinstance(s, ast.Assign) and ast.unparse(s.targets[0]) == "dsout":
            src = ast.unparse(s.value)
            for key in ("rolling", "assign_coords", "xr.where"):
                if key in src:
                    others[key] = src
        if isinstance(s, ast.If) and "equals" in ast.unparse(s.test):
            others["clip"] = ast.unparse(s.test) + " => " + "; ".join(ast.unparse(b) for b in s.body)

    def q(x):
        return '"' + str(x).replace("\\", "\\\\").replace('"', '\\"') + '"'

    facts = [("smooth_validated", q(", ".join(validated))), ("smooth_validation", q(f"{test} -> {raises}")),
             ("smooth_sort", q("; ".join(sort_stmt))), ("smooth_label_source", q(label_src)),
             ("smooth_pad_sizes", q(", ".join(pads))), ("smooth_circular_test", q(circ)),
             ("smooth_rolling", q(others.get("rolling"))), ("smooth_clip", q(others.get("clip"))),
             ("smooth_assign_coords", q(others.get("assign_coords"))), ("smooth_fill", q(others.get("xr.where")))]
    return "".join(f"def {k} : String := {v}\n" for k, v in facts)


def kernel_bbox_defaults():
    """Partition.bbox: for each `key = bbox.get("key", float(ds.A.m1())) or float(ds.A.m2())` emit (key, "A.m1", "A.m2")."""
    fn = find_func("wavespectra/partition/partition.py", "Partition.bbox")
    rows = []

    def axis_method(call):
        # float(ds.<axis>.<method>())
        if not (isinstance(call, ast.Call) and ast.unparse(call.func) == "float" and len(call.args) == 1):
            raise Untranslatable("bbox default: " + ast.unparse(call))
        inner = call.args[0]
        if not (isinstance(inner, ast.Call) and not inner.args and isinstance(inner.func, ast.Attribute)
                and isinstance(inner.func.value, ast.Attribute) and isinstance(inner.func.value.value, ast.Name)):
            raise Untranslatable("bbox default: " + ast.unparse(call))
        return f"{inner.func.value.attr}.{inner.func.attr}"

    for node in ast.walk(fn):
        if (isinstance(node, ast.Assign) and len(node.targets) == 1 and isinstance(node.targets[0], ast.Name)
                and node.targets[0].id in ("fmin", "fmax", "dmin", "dmax") and isinstance(node.value, ast.BoolOp)):
            v = node.value
            if not (isinstance(v.op, ast.Or) and len(v.values) == 2 and isinstance(v.values[0], ast.Call)
                    and ast.unparse(v.values[0].func) == "bbox.get" and len(v.values[0].args) == 2
                    and isinstance(v.values[0].args[0], ast.Constant)):
                raise Untranslatable("bbox default: " + ast.unparse(node))
            rows.append((node.lineno, v.values[0].args[0].value, axis_method(v.values[0].args[1]), axis_method(v.values[1])))
    if len(rows) != 4:
        raise Untranslatable(f"bbox defaults: expected 4 limit assignments, found {len(rows)}")
    rows.sort()
    body = ", ".join(f'("{k}", "{a}", "{b}")' for _, k, a, b in rows)
    return f"def bboxDefaults : List (String × String × String) := [{body}]\n"



KERNELS = {"Tps": [kernel_tps, kernel_tp], "IsOverlap": [kernel_is_overlap], "Angle": [kernel_angle],
           "LonConv": [kernel_is_180, kernel_is_360], "SmoothFacts": [kernel_smooth_facts], "BboxDefaults": [kernel_bbox_defaults]}
# extra imports of a generated kernel file (helpers the kernel's grammar maps to)
KERNEL_IMPORTS = {"LonConv": ["WsVerif.Model.Select"]}

# functions whose numeric literals are regenerated: (lean name, path, qualname)
LITS = [
    ("specarray_hs", "wavespectra/specarray.py", "SpecArray.hs"),
    ("specarray_hrms", "wavespectra/specarray.py", "SpecArray.hrms"),
    ("specarray_hmax", "wavespectra/specarray.py", "SpecArray.hmax"),
    ("specarray_dd", "wavespectra/specarray.py", "SpecArray.dd"),
    ("specarray_df", "wavespectra/specarray.py", "SpecArray.df"),
    ("specarray_momf", "wavespectra/specarray.py", "SpecArray.momf"),
    ("specarray_momd", "wavespectra/specarray.py", "SpecArray.momd"),
    ("specarray_dm", "wavespectra/specarray.py", "SpecArray.dm"),
    ("specarray_dspr", "wavespectra/specarray.py", "SpecArray.dspr"),
    ("specarray_swe", "wavespectra/specarray.py", "SpecArray.swe"),
    ("specarray_sw", "wavespectra/specarray.py", "SpecArray.sw"),
    ("specarray_gw", "wavespectra/specarray.py", "SpecArray.gw"),
    ("specarray_goda", "wavespectra/specarray.py", "SpecArray.goda"),
    ("specarray_gamma", "wavespectra/specarray.py", "SpecArray.gamma"),
    ("specarray_uss", "wavespectra/specarray.py", "SpecArray.uss"),
    ("specarray_uss_x", "wavespectra/specarray.py", "SpecArray.uss_x"),
    ("specarray_uss_y", "wavespectra/specarray.py", "SpecArray.uss_y"),
    ("specarray_mss", "wavespectra/specarray.py", "SpecArray.mss"),
    ("specarray_split", "wavespectra/specarray.py", "SpecArray.split"),
    ("specarray_peak", "wavespectra/specarray.py", "SpecArray._peak"),
    ("utils_wavenuma", "wavespectra/core/utils.py", "wavenuma"),
    ("utils_celerity", "wavespectra/core/utils.py", "celerity"),
    ("utils_wavelen", "wavespectra/core/utils.py", "wavelen"),
    ("utils_to_nautical", "wavespectra/core/utils.py", "to_nautical"),
    ("utils_uv_to_spddir", "wavespectra/core/utils.py", "uv_to_spddir"),
    ("npstats_hs", "wavespectra/core/npstats.py", "hs"),
    ("npstats_dm", "wavespectra/core/npstats.py", "dm"),
    ("npstats_mom1", "wavespectra/core/npstats.py", "mom1"),
    ("npstats_dpm", "wavespectra/core/npstats.py", "dpm"),
    ("npstats_alpha", "wavespectra/core/npstats.py", "alpha"),
    ("tracking_match", "wavespectra/partition/tracking.py", "match_consecutive_partitions"),
    ("tracking_np_track", "wavespectra/partition/tracking.py", "np_track_partitions"),
    ("tracking_dfp_swell", "wavespectra/partition/tracking.py", "dfp_swell"),
    ("ww3_from_ww3", "wavespectra/input/ww3.py", "from_ww3"),
    ("ncswan_from_ncswan", "wavespectra/input/ncswan.py", "from_ncswan"),
    ("wwm_from_wwm", "wavespectra/input/wwm.py", "from_wwm"),
    ("era5_from_era5", "wavespectra/input/era5.py", "from_era5"),
    ("ndbc_construct_spectra", "wavespectra/input/ndbc.py", "_construct_spectra"),
    ("ndbc_from_ndbc", "wavespectra/input/ndbc.py", "from_ndbc"),
    ("partition_np_ptm1", "wavespectra/partition/partition.py", "np_ptm1"),
    ("partition_np_ptm2", "wavespectra/partition/partition.py", "np_ptm2"),
    ("partition_np_ptm3", "wavespectra/partition/partition.py", "np_ptm3"),
    ("utils_regrid_spec", "wavespectra/core/utils.py", "regrid_spec"),
    ("specarray_rotate", "wavespectra/specarray.py", "SpecArray.rotate"),
    ("utils_smooth_spec", "wavespectra/core/utils.py", "smooth_spec"),
    ("construct_pm", "wavespectra/construct/frequency.py", "pierson_moskowitz"),
    ("construct_jonswap", "wavespectra/construct/frequency.py", "jonswap"),
    ("construct_tma", "wavespectra/construct/frequency.py", "tma"),
    ("construct_gaussian", "wavespectra/construct/frequency.py", "gaussian"),
    ("construct_cartwright", "wavespectra/construct/direction.py", "cartwright"),
    ("construct_asymmetric", "wavespectra/construct/direction.py", "asymmetric"),
    ("construct_partition", "wavespectra/construct/__init__.py", "construct_partition"),
    ("utils_scaled", "wavespectra/core/utils.py", "scaled"),
    ("npstats_jonswap", "wavespectra/core/npstats.py", "jonswap"),
    ("npstats_gaussian", "wavespectra/core/npstats.py", "gaussian"),
    ("ww3station_extract_direction", "wavespectra/input/ww3_station.py", "extract_direction"),
    ("ndbc_ascii_construct_spectra", "wavespectra/input/ndbc_ascii.py", "construct_spectra"),
    ("direction_cartwright", "wavespectra/construct/direction.py", "cartwright"),
    ("triaxys_dirs", "wavespectra/input/triaxys.py", "Triaxys.dirs"),
    ("ndbc_ascii_read_ndbc_ascii", "wavespectra/input/ndbc_ascii.py", "read_ndbc_ascii"),
    ("select_distance", "wavespectra/core/select.py", "Coordinates.distance"),
    ("select_swap", "wavespectra/core/select.py", "Coordinates._swap_longitude_convention"),
    ("select_sel_bbox", "wavespectra/core/select.py", "sel_bbox"),
    ("select_sel_idw", "wavespectra/core/select.py", "sel_idw"),
    ("select_sel_nearest", "wavespectra/core/select.py", "sel_nearest"),
    # C11: file formats
    ("swan_write_spectra", "wavespectra/core/swan.py", "SwanSpecFile.write_spectra"),
    ("output_netcdf", "wavespectra/output/netcdf.py", "to_netcdf"),
    ("output_ww3", "wavespectra/output/ww3.py", "to_ww3"),
    ("input_ww3", "wavespectra/input/ww3.py", "from_ww3"),
    ("output_funwave", "wavespectra/output/funwave.py", "to_funwave"),
    ("output_funwave_spectrum", "wavespectra/output/funwave.py", "funwave_spectrum"),
    ("input_funwave", "wavespectra/input/funwave.py", "read_funwave"),
    ("output_octopus", "wavespectra/output/octopus.py", "to_octopus"),
]

# functions whose printf/str.format/strftime format strings are regenerated (source order): (lean name, path, qualname)
FMTS = [
    ("swan_write_spectra", "wavespectra/core/swan.py", "SwanSpecFile.write_spectra"),
    ("swan_write_header", "wavespectra/core/swan.py", "SwanSpecFile.write_header"),
    ("output_swan", "wavespectra/output/swan.py", "to_swan"),
    ("output_octopus", "wavespectra/output/octopus.py", "to_octopus"),
    ("input_octopus", "wavespectra/input/octopus.py", "read_octopus"),
    ("output_funwave_spectrum", "wavespectra/output/funwave.py", "funwave_spectrum"),
]
_FMT_RE = __import__("re").compile(r"%[-0-9.]*[fEeGgdYmHMSb]|\{:[^}]*\}|^[<>]?[-0-9.]+[fEeGgd]$")


def func_formats(path, qualname):
    """String constants of a function body that carry a format specification, in source order."""
    fn = find_func(path, qualname)
    out = []

    class V(ast.NodeVisitor):
        def visit_Expr(self, n):
            if isinstance(n.value, ast.Constant) and isinstance(n.value.value, str):
                return  # docstring
            self.generic_visit(n)

        def visit_Constant(self, n):
            if isinstance(n.value, str) and _FMT_RE.search(n.value):
                out.append(n.value)

    V().visit(fn)
    return out


def lean_str(x):
    return '"' + x.replace("\\", "\\\\").replace('"', '\\"').replace("\n", "\\n") + '"'

PRELUDE = """import WsVerif.Model.Basic
/-! GENERATED by harness/translate.py from the repository source — do not edit. -/
"""


def write_if_changed(path, text):
    path = Path(path)
    path.parent.mkdir(parents=True, exist_ok=True)
    if path.exists() and path.read_text() == text:
        return False
    path.write_text(text)
    return True


def generate():
    """Regenerate lean/WsVerif/Gen/*.lean. Returns dict(file -> 'ok' | error string)."""
    gen = LEAN / "WsVerif" / "Gen"
    status = {}
    write_if_changed(gen / "Prelude.lean", PRELUDE)
    # literals
    body = "import WsVerif.Gen.Prelude\n/-! GENERATED: numeric literals of repository functions, in source order. -/\nnamespace WS.Gen\n"
    for name, path, qn in LITS:
        try:
            ls = func_literals(path, qn)
            body += f"def lits_{name} : List Rat := [{', '.join(rat(x) for x in ls)}]\n"
            status[f"lits_{name}"] = "ok"
        except Exception as e:  # missing function => empty list (bridge lemma will fail)
            body += f"def lits_{name} : List Rat := []  -- {type(e).__name__}: {e}\n"
            status[f"lits_{name}"] = f"untranslatable: {e}"
    body += "end WS.Gen\n"
    write_if_changed(gen / "Lits.lean", body)
    # format strings
    body = "import WsVerif.Gen.Prelude\n/-! GENERATED: format strings of repository functions, in source order. -/\nnamespace WS.Gen\n"
    for name, path, qn in FMTS:
        try:
            fs = func_formats(path, qn)
            body += f"def fmts_{name} : List String := [{', '.join(lean_str(x) for x in fs)}]\n"
            status[f"fmts_{name}"] = "ok"
        except Exception as e:
            body += f"def fmts_{name} : List String := []  -- {type(e).__name__}: {e}\n"
            status[f"fmts_{name}"] = f"untranslatable: {e}"
    body += "end WS.Gen\n"
    write_if_changed(gen / "Fmts.lean", body)
    for fname, ks in KERNELS.items():
        text = ("import WsVerif.Gen.Prelude\n" + "".join(f"import {m}\n" for m in KERNEL_IMPORTS.get(fname, []))
                + "/-! GENERATED scalar kernels. -/\nnamespace WS.Gen\n")
        for k in ks:
            try:
                text += k() + "\n"
                status[k.__name__] = "ok"
            except Exception as e:
                text += f"-- {k.__name__}: untranslatable: {e}\n"
                status[k.__name__] = f"untranslatable: {e}"
        text += "end WS.Gen\n"
        write_if_changed(gen / f"{fname}.lean", text)
    from .translate_native import generate_native

    status.update(generate_native(gen))
    from .translate_np import generate_np

    status.update(generate_np(gen))
    from .translate_c import generate_c

    status.update(generate_c(gen))
    from .translate_xr import generate_xr

    status.update(generate_xr(gen))
    from .translate_trk import generate_trk

    status.update(generate_trk(gen))
    from .translate_ptm import generate_ptm

    status.update(generate_ptm(gen))
    from .translate_sel import generate_sel

    status.update(generate_sel(gen))
    from .translate_con import generate_con

    status.update(generate_con(gen))
    from .translate_spl import generate_spl

    status.update(generate_spl(gen))
    from .translate_xr2 import generate_xr2

    status.update(generate_xr2(gen))
    from .translate_dims import generate_dims

    status.update(generate_dims(gen))
    from .translate_frm import generate_frm

    status.update(generate_frm(gen))
    from .translate_xr3 import generate_xr3

    status.update(generate_xr3(gen))
    from .translate_rg import generate_rg

    status.update(generate_rg(gen))
    from .translate_smo import generate_smo

    status.update(generate_smo(gen))
    return status


if __name__ == "__main__":
    st = generate()
    bad = {k: v for k, v in st.items() if v != "ok"}
    print("generated", len(st), "items;", len(bad), "untranslatable")
    for k, v in bad.items():
        print(" ", k, v)
    sys.exit(0)

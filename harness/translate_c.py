"""T-tier for the hand-transliterated C routine: per-function digests of the normalised token stream of specpart.c and
specpart_wrap.c (comments and white space removed).  The Lean transliteration (Model/Specpart.lean, Model/Neigh.lean,
Model/Flood.lean) was validated against exactly this text; `C04.specpart_c_text` / `C20.specpart_wrap_c_text` pin the digests,
so ANY change of the C source breaks an obligation and makes the checks deepen their search for a failing input (larger
exhaustive spaces, magnitude sweeps) before reporting."""
import hashlib
import os
import re
from pathlib import Path

REPO = Path(os.environ.get("VERIF_REPO", "/repo"))
CDIR = "wavespectra/partition/specpart"


def strip_comments(src):
    src = re.sub(r"/\*.*?\*/", " ", src, flags=re.S)
    src = re.sub(r"//[^\n]*", " ", src)
    return src


def tokens(src):
    return re.findall(r"[A-Za-z_]\w*|\d+\.?\d*(?:[eE][-+]?\d+)?[fFuUlL]*|\.\d+(?:[eE][-+]?\d+)?[fF]?|\"(?:\\.|[^\"\\])*\"|'(?:\\.|[^'\\])*'|"
                      r"->|\+\+|--|<<=|>>=|<<|>>|<=|>=|==|!=|&&|\|\||[-+*/%&|^]=|#\s*\w+|\S", src)


def split_functions(src):
    """[(name, text)] for every top-level function definition, plus ('<file scope>', everything else)."""
    src = strip_comments(src)
    out, rest, i, n = [], [], 0, len(src)
    depth = 0
    start_stmt = 0
    while i < n:
        c = src[i]
        if c == "{" and depth == 0:
            head = src[start_stmt:i]
            m = re.search(r"([A-Za-z_]\w*)\s*\([^;{}]*\)\s*$", head, flags=re.S)
            j, d = i, 0
            while j < n:
                if src[j] == "{":
                    d += 1
                elif src[j] == "}":
                    d -= 1
                    if d == 0:
                        break
                j += 1
            body = src[start_stmt:j + 1]
            if m:
                out.append((m.group(1), body))
            else:
                rest.append(body)
            i = j + 1
            start_stmt = i
            continue
        if c == ";" and depth == 0:
            rest.append(src[start_stmt:i + 1])
            start_stmt = i + 1
        i += 1
    rest.append(src[start_stmt:])
    return [("<file scope>", "\n".join(rest))] + out


def digest(text):
    return hashlib.sha256(" ".join(tokens(text)).encode()).hexdigest()[:16]


def file_digests(rel):
    p = REPO / rel
    return [(name, digest(body)) for name, body in split_functions(p.read_text())]


def lean_list(items):
    return "[" + ", ".join(f'("{a}", "{b}")' for a, b in items) + "]"


def generate_c(gen):
    from .translate import write_if_changed

    status = {}
    body = ("import WsVerif.Gen.Prelude\n/-! GENERATED: per-function digests of the normalised token streams of the C sources "
            "(comments/white space removed). -/\nnamespace WS.Gen\n")
    for name, rel in (("specpart", f"{CDIR}/specpart.c"), ("specpart_wrap", f"{CDIR}/specpart_wrap.c"), ("specpart_h", f"{CDIR}/specpart.h")):
        try:
            body += f"def ctext_{name} : List (String × String) := {lean_list(file_digests(rel))}\n"
            status[f"ctext_{name}"] = "ok"
        except Exception as e:
            body += f"def ctext_{name} : List (String × String) := []  -- {type(e).__name__}: {e}\n"
            status[f"ctext_{name}"] = f"untranslatable: {e}"
    body += "end WS.Gen\n"
    write_if_changed(gen / "CText.lean", body)
    return status


if __name__ == "__main__":
    for rel in (f"{CDIR}/specpart.c", f"{CDIR}/specpart_wrap.c", f"{CDIR}/specpart.h"):
        print(rel)
        for a, b in file_digests(rel):
            print("  ", a, b)

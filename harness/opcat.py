"""Catalogue of public operations used by the layout / independence / dask checks (C05, C06, C07).

Each entry: name -> f(da, aux) returning an xarray object (DataArray, Dataset or tuple of DataArrays).
`da` is an efth DataArray (any dim order, any leading dims); `aux` holds wspd/wdir/dpt over the leading dims.
"""
import numpy as np

EXTRA_ORDER = ("part", "time", "site", "lat", "lon")


def catalogue(include_watershed=True, include_hmax=False, include_hp01=False):
    C = {}
    for nm in ["hs", "hrms", "tm01", "tm02", "dm", "dp", "dpm", "dspr", "dpspr", "swe", "sw", "gw", "goda", "alpha", "gamma",
               "uss", "uss_x", "uss_y", "mss", "oned", "to_energy", "tp", "fp"]:
        C[nm] = (lambda nm: lambda da, aux: getattr(da.spec, nm)())(nm)
    if include_hmax:
        C["hmax"] = lambda da, aux: da.spec.hmax()
    C["crsd"] = lambda da, aux: da.spec.crsd()
    C["celerity"] = lambda da, aux: da.spec.celerity()
    C["celerity_depth"] = lambda da, aux: da.spec.celerity(depth=12.0)
    C["wavelen"] = lambda da, aux: da.spec.wavelen(depth=30.0)
    C["interp_like"] = lambda da, aux: da.spec.interp_like(_coarser(da))
    # the second operand holds its (labelled) values in another stored direction order than the first: bins pair up by label
    C["rmse"] = lambda da, aux: da.spec.rmse((da.roll(freq=1, roll_coords=False) * 0.5 + 0.03125).roll(dir=2, roll_coords=True))
    C["tp_discrete"] = lambda da, aux: da.spec.tp(smooth=False)
    C["momf2"] = lambda da, aux: da.spec.momf(2)
    C["momd1"] = lambda da, aux: da.spec.momd(1)
    C["uss_depth"] = lambda da, aux: da.spec.uss(depth=25.0)
    C["stats"] = lambda da, aux: da.spec.stats(["hs", "tp", "dpm", "dspr"])
    C["stats_split"] = lambda da, aux: da.spec.stats(["hs", "tm01"], fmin=float(np.sort(da.freq.values)[1]), fmax=float(np.sort(da.freq.values)[-2]))
    C["smooth"] = lambda da, aux: da.spec.smooth(3, 3)
    C["interp"] = lambda da, aux: da.spec.interp(freq=_mid(da.freq.values), dir=np.arange(0.0, 360.0, 30.0))
    C["interp_nom0"] = lambda da, aux: da.spec.interp(freq=_mid(da.freq.values), dir=np.arange(5.0, 360.0, 45.0), maintain_m0=False)
    C["rotate"] = lambda da, aux: da.spec.rotate(2 * _dd(da))
    C["rotate_any"] = lambda da, aux: da.spec.rotate(33.0)
    C["split"] = lambda da, aux: da.spec.split(fmin=float(np.sort(da.freq.values)[1]) * 1.02, fmax=float(np.sort(da.freq.values)[-2]))
    C["split_dir"] = lambda da, aux: da.spec.split(dmin=20.0, dmax=250.0)
    C["scale_by_hs"] = lambda da, aux: da.spec.scale_by_hs("0.5*hs+0.1", hs_min=0.0, tp_min=0.0)
    C["ptm4"] = lambda da, aux: da.spec.partition.ptm4(aux["wspd"], aux["wdir"], aux["dpt"])
    C["ptm5"] = lambda da, aux: da.spec.partition.ptm5(float(np.sort(da.freq.values)[2]) * 1.04)
    C["bbox"] = lambda da, aux: da.spec.partition.bbox(
        [dict(fmin=float(np.sort(da.freq.values)[0]), fmax=float(np.sort(da.freq.values)[2]), dmin=0.0, dmax=170.0),
         dict(fmin=float(np.sort(da.freq.values)[3]), fmax=float(np.sort(da.freq.values)[-1]), dmin=0.0, dmax=359.9)])
    if include_watershed:
        C["ptm1"] = lambda da, aux: da.spec.partition.ptm1(aux["wspd"], aux["wdir"], aux["dpt"], swells=2)
        C["ptm2"] = lambda da, aux: da.spec.partition.ptm2(aux["wspd"], aux["wdir"], aux["dpt"], swells=2)
        C["ptm3"] = lambda da, aux: da.spec.partition.ptm3(parts=3)
        # forcing given as plain numbers (a constant wind / depth for the whole dataset)
        C["ptm1_scalars"] = lambda da, aux: da.spec.partition.ptm1(11.5, 225.0, 24.4, swells=2)
        C["ptm2_scalars"] = lambda da, aux: da.spec.partition.ptm2(11.5, 225.0, 24.4, swells=2)
        C["ptm1_smooth"] = lambda da, aux: da.spec.partition.ptm1(aux["wspd"], aux["wdir"], aux["dpt"], swells=2, smooth=True)
    # Hanson & Phillips merging on top of the watershed (experimental in the library: only the layout check uses it); hs_min is set relative to the total height so that the
    # "always merge partitions smaller than hs_min" rule is exercised whatever the magnitude of the generated spectra
    if include_watershed and include_hp01:
        C["hp01"] = lambda da, aux: da.spec.partition.hp01(aux["wspd"], aux["wdir"], aux["dpt"], swells=2,
                                                           hs_min=0.45 * float(da.spec.hs().max()))
        C["hp01_nowind"] = lambda da, aux: da.spec.partition.hp01(swells=2, hs_min=0.45 * float(da.spec.hs().max()))
    return C


WATERSHED = {"ptm1", "ptm2", "ptm3", "ptm1_smooth", "hp01", "hp01_nowind", "ptm1_scalars", "ptm2_scalars"}
FLOAT32_OUT = {"tp", "fp", "tp_discrete", "dp", "dpm", "dpspr", "alpha", "gamma", "stats", "scale_by_hs"}


def _coarser(da):
    """another spectrum object on every second frequency and a 40-degree direction grid (target of interp_like)"""
    import xarray as xr

    f = np.sort(np.asarray(da.freq.values, dtype=float))[::2]
    d = np.arange(0.0, 360.0, 40.0)
    return xr.DataArray(np.ones((len(f), len(d))), dims=("freq", "dir"), coords={"freq": f, "dir": d}, name="efth")


def _mid(f):
    f = np.sort(np.asarray(f, dtype=float))
    return np.concatenate([[f[0] * 0.7], (f[:-1] + f[1:]) / 2, [f[-1] * 1.2]])


def _dd(da):
    d = da.dir.values
    x = abs(float(d[1] - d[0]))
    return min(x, 360 - x)


PART_HEADS = {"ptm1": 1, "ptm1_smooth": 1, "ptm2": 2, "ptm3": 0, "hp01": 1, "hp01_nowind": 1, "ptm1_scalars": 1, "ptm2_scalars": 2}


def sort_parts(c, heads):
    """Partitions with (exactly) equal Hs may come in either order (np.argsort is not stable and basin numbering depends on
    the scan order): compare the swells as a set by putting them into a canonical order per position."""
    if "part" not in c["dims"]:
        return c
    v = c["vals"]
    ax = c["dims"].index("part")
    v = np.moveaxis(v, ax, 0)
    lead = [d for d in c["dims"] if d not in ("part", "freq", "dir")]
    nlead = len(lead)
    shp = v.shape
    flat = v.reshape((shp[0], int(np.prod(shp[1:1 + nlead])) if nlead else 1, -1))
    out = flat.copy()
    for k in range(flat.shape[1]):
        tail = [flat[i, k] for i in range(heads, flat.shape[0])]
        tail.sort(key=lambda a: (-np.nansum(a), np.nan_to_num(a, nan=-1.0).tobytes()))
        for i, a in enumerate(tail):
            out[heads + i, k] = a
    c = dict(c)
    c["vals"] = np.moveaxis(out.reshape(shp), 0, ax)
    return c


def weak_angle_positions(op, da):
    """Boolean array over the leading dims: True where the angle returned by `op` is ill-conditioned (moment vector of
    near-zero length, or tied maxima for dp) so that storage variants may legitimately differ."""
    lead = [d for d in da.dims if d not in ("freq", "dir")]
    x = da.transpose(*lead, "freq", "dir")
    E = np.asarray(x.values, dtype=float)
    dirs = np.asarray(da.dir.values, dtype=float)
    a = np.radians(270.0 - dirs)
    s, c = np.sin(a), np.cos(a)
    if op == "dp":
        cs = E.sum(axis=-2)
        srt = np.sort(cs, axis=-1)[..., ::-1]
        return (srt[..., 0] - srt[..., 1] <= 1e-9 * np.maximum(srt[..., 0], 1e-300)) if cs.shape[-1] > 1 else np.zeros(cs.shape[:-1], bool)
    if op == "dm":
        vs, vc, tot = (E * s).sum(axis=(-1, -2)), (E * c).sum(axis=(-1, -2)), E.sum(axis=(-1, -2))
        return np.hypot(vs, vc) <= 1e-6 * np.maximum(tot, 1e-300)
    if op in ("dpm",):
        S = E.sum(axis=-1)
        out = np.zeros(S.shape[:-1], bool)
        for idx in np.ndindex(*S.shape[:-1]):
            Sr = S[idx]
            pk = [q for q in range(1, len(Sr) - 1) if Sr[q - 1] < Sr[q] > Sr[q + 1]]
            if not pk:
                continue
            p = max(pk, key=lambda q: (Sr[q], -q))
            row = E[idx][p]
            out[idx] = np.hypot((row * s).sum(), (row * c).sum()) <= 1e-6 * max(row.sum(), 1e-300)
        return out
    return None


def mask_positions(c, lead, mask):
    """Set the values at the masked leading positions to NaN in a canonical result (same mask on both sides of a comparison)."""
    if mask is None or not np.any(mask):
        return c
    dims = [d for d in c["dims"]]
    order = [d for d in EXTRA_ORDER if d in lead] + sorted(d for d in lead if d not in EXTRA_ORDER)
    m = np.asarray(mask)
    if m.ndim:
        m = np.transpose(m, [lead.index(d) for d in order]) if lead else m
    v = c["vals"].copy()
    if all(d in dims for d in order) and v.shape[:len(order)] == m.shape:
        v[m] = np.nan
    elif not order:
        v[...] = np.nan
    c = dict(c)
    c["vals"] = v
    return c


def canon(res, sort_dir=True):
    """Canonical labelled form: list of (name, dims, coords, values) with dims in a fixed order and directions sorted by label."""
    import xarray as xr

    if isinstance(res, tuple):
        out = []
        for i, r in enumerate(res):
            for c in canon(r, sort_dir):
                c["name"] = f"{i}:{c['name']}"
                out.append(c)
        return out
    if hasattr(res, "compute"):
        res = res.compute()
    if isinstance(res, xr.Dataset):
        out = []
        for v in sorted(res.data_vars):
            out += canon(res[v], sort_dir)
        return out
    dims = list(res.dims)
    order = [d for d in EXTRA_ORDER if d in dims] + sorted(d for d in dims if d not in EXTRA_ORDER + ("freq", "dir")) + \
            [d for d in ("freq", "dir") if d in dims]
    x = res.transpose(*order)
    if sort_dir and "dir" in x.dims:
        x = x.sortby("dir")
    vals = np.asarray(x.values, dtype=float)
    coords = {}
    for d in order:
        if d in x.coords:
            cv = x[d].values
            coords[d] = cv.astype("datetime64[s]").astype(str).tolist() if cv.dtype.kind == "M" else np.asarray(cv, dtype=float).tolist()
    return [dict(name=str(res.name), dims=order, coords=coords, vals=vals)]


def compare(a, b, rel=1e-9, abs_=0.0, angle_names=("dm", "dp", "dpm"), coord_rel=1e-12):
    """Compare two canonical results; returns None or a description of the first difference."""
    if len(a) != len(b):
        return f"number of outputs {len(a)} vs {len(b)}"
    for x, y in zip(a, b):
        if x["dims"] != y["dims"]:
            return f"{x['name']}: dims {x['dims']} vs {y['dims']}"
        for d in x["coords"]:
            if d not in y["coords"]:
                return f"{x['name']}: coord {d} missing"
            ca, cb = x["coords"][d], y["coords"][d]
            if len(ca) != len(cb):
                return f"{x['name']}: coord {d} length {len(ca)} vs {len(cb)}"
            if ca and isinstance(ca[0], str):
                if ca != cb:
                    return f"{x['name']}: coord {d} differs"
            elif not np.allclose(np.asarray(ca, dtype=float), np.asarray(cb, dtype=float), rtol=coord_rel, atol=1e-9):
                return f"{x['name']}: coord {d} values differ"
        va, vb = x["vals"], y["vals"]
        if va.shape != vb.shape:
            return f"{x['name']}: shape {va.shape} vs {vb.shape}"
        na, nb = np.isnan(va), np.isnan(vb)
        if (na != nb).any():
            return f"{x['name']}: NaN pattern differs at {int((na != nb).sum())} positions"
        m = ~na
        if not m.any():
            continue
        nm = x["name"].split(":")[-1]
        if nm in angle_names:
            d = np.abs((va[m] - vb[m] + 180.0) % 360.0 - 180.0)
            if (d > max(abs_, 360 * rel, 1e-9)).any():
                return f"{x['name']}: angle differs by {float(d.max())}"
            continue
        scale = max(float(np.abs(va[m]).max()), float(np.abs(vb[m]).max()))
        err = np.abs(va[m] - vb[m])
        tol = rel * np.maximum(np.abs(va[m]), np.abs(vb[m])) + abs_ + rel * 1e-3 * scale
        if (err > tol).any():
            k = int(np.argmax(err - tol))
            return f"{x['name']}: value {float(va[m][k])} vs {float(vb[m][k])} (max err {float(err.max())}, scale {scale})"
    return None

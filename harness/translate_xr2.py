"""T-tier, labelled-array grammar, part 2: the PEAK-related accessor methods of `SpecArray` (wavespectra/specarray.py) and the
wrappers of `wavespectra/core/xrstats.py` → Lean definitions for ONE spectrum, written to `lean/WsVerif/Gen/XrPeakKernels.lean`.

Called from `translate.generate()` after the last generator (needs the signatures registered by `translate_xr.generate_xr`).  Every
generated definition is identified with the hand-written model (`Model/Peak.lean`, `Model/PeakXr.lean`) by a theorem
`genxrp_*` in `Props/C02xr.lean`, for all inputs.

Re-uses the machinery of `translate_xr` (types, `Tr`, `Ctx`, signatures); additions to the grammar:

* `_peak`: `arr.isel(freq=0 | -1)`, `xr.concat((s, arr) | (arr, s), dim=attrs.FREQNAME)`, `.diff(attrs.FREQNAME, n=1, label=…)`
  (→ `WS.XrP.diff1`; the label must be the one that keeps the coordinates of `arr`: `upper` after a prepended bin, `lower` after
  an appended one — anything else would re-align in `np.logical_and` and is outside the grammar), vector comparisons with a literal
  (→ `List Bool`), `np.logical_and`, `arr.where(mask, c)` on vectors, `.argmax(dim=…)` (→ `WS.argmaxFirst`), `.astype(int)` on an index;
* `xrstats` wrappers: the plumbing statements (`isinstance(dset, xr.Dataset)` unwrapping, dimension checks, `.chunk({…: -1})`,
  `darr.name = …`, `darr.attrs = …`) are recognised structurally, resolved for a spectrum WITH both dimensions and pinned as source
  text (`<k>_plumbing`); `if smooth: func = npstats.tps else: func = npstats.tp` is a kernel selection; `xr.apply_ufunc(K, a₁.astype(t₁), …,
  **kw)` is the application of the regenerated numpy kernel `Gen.<K>` to the translated arguments, the casts and the keyword plumbing
  pinned as text (`<k>_casts`, `<k>_ufunc`); `dset.spec.<method>(…)` is `self.<method>(…)`; `dset[attrs.FREQNAME]` the coordinate;
  `dset.spec.fdspr(mom=m)` (element-wise roots, not translated) is the oracle parameter `fdspr : Nat → List Rat` applied to `m`;
* `SpecArray.fdspr`: the ingredients `(a, b, e)` are translated (`xrFdsprABE`), the closing formula with its element-wise roots is
  pinned as text (`xrFdspr_formula`);
* `SpecArray.tp/dp/dpm/dpspr/alpha`: `return xrstats.<wrapper>(self._obj | self.oned(), kw…)`;
* `x ** -n` (→ guarded `1 / x^n`), `.max(dim=attrs.FREQNAME)` (→ `WS.XrP.maxV`), literal lists, `for i, c in enumerate(p[::-1])`
  (unrolled), `if` assigning one live variable next to temporaries;
* `hmax`: `attrs.TIMENAME in self._obj.coords` / `self._obj.time.size` / the mean time step are parameters `hasTime`, `ntime`, `dt`
  (the expression of `dt` pinned as text), `np.log` / `.round()` oracle functions;
* `scale_by_hs`: bounds are `WS.XrP.Bound` (`-np.inf | finite | np.inf`), `eval(expr.lower())` is the parameter `expr`, `&` and `*` of
  conditions are `&&`, `condition = True`, `.chunk()` the identity; `k * self._obj` with a possibly-NaN factor is `Option Mat`.

Anything else raises `Untranslatable` = the method is reported untranslatable (a comment in the generated file, the bridge fails).
"""
import ast

from . import translate_xr as X
from .translate import Untranslatable, body_stmts, find_func, rat, write_if_changed
from .translate_xr import ARITH, B, D, F, LIT, M, NAT, OS, S, SKIP, V, LEAN_TY, _call_name, _dim, _is_self_attr, _neg1

SPECARRAY = X.SPECARRAY
XRSTATS = "wavespectra/core/xrstats.py"

FB, OSS, OM, BND, KERN, PYL, CATH, CATT = "FB", "OSS", "OM", "Bnd", "Kern", "PyList", "CatHead", "CatTail"
LEAN_TY.update({FB: "List Bool", OSS: "Option (Rat × Rat)", OM: "Option (List (List Rat))", BND: "WS.XrP.Bound"})

# the regenerated numpy kernels (Gen/Tps.lean, Gen/NpKernels.lean): lean name, leading oracle parameters, argument types, tables, result
NP_KERNELS = {
    "tps": ("WS.Gen.tps", [], [NAT, F, F], [], OS),
    "tp": ("WS.Gen.npTp", [], [NAT, F, F], [], OS),
    "dp": ("WS.Gen.npDp", [], [NAT, D], [], S),
    "dpm": ("WS.Gen.npDpmVec", [], [NAT, F, F], [], OSS),
    "dpspr": ("WS.Gen.npDpspr", [], [NAT, F], [], OS),
    "alpha": ("WS.Gen.npAlpha", ["pi", "g"], [F, F, S], [("ex", F, "np.exp(·)")], S),
}

_WSIGS = {}     # xrstats wrapper name -> dict(lean, kind ('F' | 'M'), lead, params, tables, ret)


def q(x):
    return '"' + x.replace("\\", "\\\\").replace('"', '\\"').replace("\n", " ") + '"'


def strlist(xs):
    return "[" + ", ".join(q(x) for x in xs) + "]"


# ------------------------------------------------------------------------------------------------
# contexts
# ------------------------------------------------------------------------------------------------
class Ctx2(X.Ctx):
    """context of one function of `path` (`self`-less for the wrappers)"""

    def __init__(self, path, qual, lean, ptypes, first, tables=(), avail=X.BASE):
        self.py, self.lean, self.path = qual.split(".")[-1], lean, path
        self.fn = find_func(path, qual)
        fa = self.fn.args
        if fa.vararg or fa.kwarg or fa.kwonlyargs or fa.posonlyargs:
            raise Untranslatable(f"{qual}: *args / **kwargs / keyword-only arguments")
        names = [a.arg for a in fa.args]
        if names[:1] != [first] or names[1:] != list(ptypes):
            raise Untranslatable(f"{qual}: signature {names} (expected {first} + {list(ptypes)})")
        if self.fn.decorator_list:
            raise Untranslatable(f"{qual}: decorated")
        self.ptypes = dict(ptypes)
        self.defaults = {}
        for a, dv in zip(fa.args[len(fa.args) - len(fa.defaults):], fa.defaults):
            self.defaults[a.arg] = dv
        self.avail = list(avail)
        self.used_lead = []
        self.table_names = list(tables)
        self.tables = []
        self.table_cache = {}
        self.extra = []
        self.guards = []
        self.rename = {}
        self.plumbing = []      # source text of statements that do not change the value of one spectrum
        self.xparams = []       # extra parameters (name, lean type) introduced by the grammar (hasTime, dt, fdspr, expr, …)
        self.oracles = []       # oracle functions beyond pi / sqrt

    def lead_args(self):
        return [p for p in ("pi", "g", "atan2", "sqrt", "log", "round") if p in self.used_lead]

    def lead_params(self):
        s = ""
        for p in ("pi", "g"):
            if p in self.used_lead:
                s += f"({p} : Rat) "
        if "atan2" in self.used_lead:
            s += "(atan2 : Rat → Rat → Rat) "
        for p in ("sqrt", "log", "round"):
            if p in self.used_lead:
                s += f"({p} : Rat → Rat) "
        return s

    def xparam(self, name, ty):
        if (name, ty) not in self.xparams:
            self.xparams.append((name, ty))

    def base_params(self):
        return " ".join(f"({a} : {LEAN_TY[X.BASE_TY[a]]})" for a in self.avail)

    def x_params(self):
        return " ".join(f"({n} : {t})" for n, t in self.xparams)

    def all_params(self):
        return " ".join(x for x in (self.lead_params().strip(), self.base_params(), self.front_params(), self.arg_params(),
                                    self.x_params(), self.table_params()) if x)

    def front_params(self):
        return ""

    def default_terms(self):
        out = {}
        for a, t in self.ptypes.items():
            dv = self.defaults.get(a)
            if dv is None or t == SKIP:
                continue
            nm = f"{self.lean}_{a}_default"
            if t == BND:
                src = ast.unparse(dv)
                if src == "-np.inf":
                    term = "WS.XrP.Bound.ninf"
                elif src == "np.inf":
                    term = "WS.XrP.Bound.pinf"
                elif isinstance(dv, ast.Constant) and isinstance(dv.value, (int, float)) and not isinstance(dv.value, bool):
                    term = f"WS.XrP.Bound.fin {rat(dv.value)}"
                else:
                    raise Untranslatable(f"{self.py}: default of {a}: {src}")
                self.extra.append((nm, f"def {nm} : WS.XrP.Bound := {term}"))
                out[a] = nm
        keep = {a: t for a, t in self.ptypes.items() if t != BND}
        saved = self.ptypes
        self.ptypes = keep
        try:
            out.update(X.Ctx.default_terms(self))
        finally:
            self.ptypes = saved
        return out


class WCtx(Ctx2):
    """a wrapper of xrstats.py: first argument `dset` = a 1-D spectrum (`kind='F'`) or `self._obj` (`kind='M'`)"""

    def __init__(self, name, lean, kind, ptypes, tables=()):
        super().__init__(XRSTATS, name, lean, ptypes, "dset", tables, avail=["freq"] if kind == "F" else X.BASE)
        self.kind = kind

    def front_params(self):
        return "(dset : List Rat)" if self.kind == "F" else ""

    def env0(self):
        env = super().env0()
        env["dset"] = V("dset", F) if self.kind == "F" else V("obj", M)
        return env


# ------------------------------------------------------------------------------------------------
# expressions
# ------------------------------------------------------------------------------------------------
def _npstats_kernel(e):
    if isinstance(e, ast.Attribute) and isinstance(e.value, ast.Name) and e.value.id == "npstats" and e.attr in NP_KERNELS:
        return e.attr
    return None


def _int_lit(e):
    if isinstance(e, ast.Constant) and isinstance(e.value, int) and not isinstance(e.value, bool):
        return e.value
    if _neg1(e):
        return -1
    return None


class Tr2(X.Tr):
    def tr(self, e):
        if isinstance(e, ast.Constant) and e.value is True:
            return V("true", B)
        if isinstance(e, ast.List):
            vals = []
            for x in e.elts:
                neg = isinstance(x, ast.UnaryOp) and isinstance(x.op, ast.USub)
                c = x.operand if neg else x
                if not (isinstance(c, ast.Constant) and isinstance(c.value, (int, float)) and not isinstance(c.value, bool)):
                    raise Untranslatable("list element " + ast.unparse(x))
                vals.append(-c.value if neg else c.value)
            return V(vals, PYL, True)
        if isinstance(e, ast.BinOp) and isinstance(e.op, ast.BitAnd):
            l, r = self.tr(e.left), self.tr(e.right)
            if l.ty == B and r.ty == B:
                return V(f"({l.t} && {r.t})", B)
            raise Untranslatable("& on " + str(l.ty) + ", " + str(r.ty))
        if isinstance(e, ast.BinOp) and isinstance(e.op, ast.Mult):
            l, r = self.tr(e.left), self.tr(e.right)
            if l.ty == B and r.ty == B:          # product of conditions
                return V(f"({l.t} && {r.t})", B)
            if B in (l.ty, r.ty):
                raise Untranslatable("product of a condition and a number: " + ast.unparse(e)[:80])
            if l.ty == OS and r.ty == M:
                return V(f"(Option.map (fun kk => List.map (fun row => List.map (fun t => kk * t) row) {r.t}) {l.t})", OM)
            return self.arith("*", l, r, ast.unparse(e)[:80])
        return super().tr(e)

    def attribute(self, e):
        k = self.k
        src = ast.unparse(e)
        if src == "self._obj.time.size" and getattr(k, "time_ok", False):
            k.xparam("ntime", "Nat")
            return V("ntime", NAT)
        return super().attribute(e)

    def bound(self, e):
        """a bound expression: a `Bound` argument, `-np.inf`, `np.inf`"""
        src = ast.unparse(e)
        if src == "-np.inf":
            return "WS.XrP.Bound.ninf"
        if src == "np.inf":
            return "WS.XrP.Bound.pinf"
        if isinstance(e, ast.Name) and e.id in self.env and self.env[e.id].ty == BND:
            return self.env[e.id].t
        return None

    def compare(self, e):
        k = self.k
        if len(e.ops) == 1 and isinstance(e.ops[0], ast.In) and getattr(k, "time_ok", False) \
                and ast.unparse(e.left) == "attrs.TIMENAME" and ast.unparse(e.comparators[0]) == "self._obj.coords":
            k.xparam("hasTime", "Bool")
            return V("hasTime", B)
        if len(e.ops) == 1:
            lb, rb = self.bound(e.left), self.bound(e.comparators[0])
            op = type(e.ops[0])
            if lb is not None and rb is not None:
                if op is ast.NotEq:
                    return V(f"(decide ({lb} ≠ {rb}))", B)
                if op is ast.Eq:
                    return V(f"(decide ({lb} = {rb}))", B)
                raise Untranslatable("ordering of two bounds: " + ast.unparse(e))
            if rb is not None and lb is None and op in (ast.GtE, ast.LtE):
                fn = "WS.XrP.geB" if op is ast.GtE else "WS.XrP.leB"
                l = self.tr(e.left)
                if l.ty in (S, LIT):
                    return V(f"({fn} {self.rat(l)} {rb})", B)
                if l.ty == OS:      # NaN compares false
                    return V(f"(Option.any (fun t => {fn} t {rb}) {l.t})", B)
                raise Untranslatable("comparison with a bound of " + str(l.ty))
            if lb is not None or rb is not None:
                raise Untranslatable("comparison with a bound: " + ast.unparse(e))
            if type(e.ops[0]) in X.CMP:
                l = self.tr(e.left)
                if l.ty == F:
                    r = self.tr(e.comparators[0])
                    if r.ty not in (S, LIT):
                        raise Untranslatable("vector comparison with " + str(r.ty))
                    return V(f"(List.map (fun t => decide (t {X.CMP[type(e.ops[0])]} {self.rat(r)})) {l.t})", FB)
        return super().compare(e)

    def binop(self, e):
        if isinstance(e.op, ast.Pow):
            n = e.right
            if isinstance(n, ast.UnaryOp) and isinstance(n.op, ast.USub) and isinstance(n.operand, ast.Constant) \
                    and isinstance(n.operand.value, int) and not isinstance(n.operand.value, bool) and n.operand.value > 0:
                b = self.tr(e.left)
                m = n.operand.value
                if b.ty in (S, LIT):
                    return V(f"(WS.divOpt 1 ({self.rat(b)} ^ {m}))", OS)
                if b.ty == OS:
                    return V(f"(Option.bind {b.t} fun y => WS.divOpt 1 (y ^ {m}))", OS)
                raise Untranslatable("negative power of " + str(b.ty))
        return super().binop(e)

    def subscript(self, e):
        s = e.slice
        if isinstance(s, ast.Attribute) and ast.unparse(s) in ("attrs.FREQNAME", "attrs.DIRNAME"):
            base = self.tr(e.value)
            dim = _dim(s)
            if dim == "freq" and base.ty in (F, M) and "freq" in self.k.avail:
                return V("freq", F)
            if dim == "dir" and base.ty in (D, M) and "dir" in self.k.avail:
                return V("dir", D)
            raise Untranslatable(f"coordinate {dim} of a value of type {base.ty}")
        return super().subscript(e)

    def call(self, e):
        k = self.k
        fn = _call_name(e)
        kw = {a.arg: a.value for a in e.keywords}
        if None in kw:
            raise Untranslatable("** in a call: " + ast.unparse(e)[:80])
        if fn == "np.logical_and" and len(e.args) == 2 and not kw:
            a, b = self.tr(e.args[0]), self.tr(e.args[1])
            if a.ty == FB and b.ty == FB:
                return V(f"(List.zipWith (fun a b => a && b) {a.t} {b.t})", FB)
            raise Untranslatable("np.logical_and of " + str(a.ty) + ", " + str(b.ty))
        if fn == "xr.concat" and len(e.args) == 1 and set(kw) == {"dim"} and isinstance(e.args[0], ast.Tuple) and len(e.args[0].elts) == 2:
            if _dim(kw["dim"]) != "freq":
                raise Untranslatable("concat along " + ast.unparse(kw["dim"]))
            a, b = self.tr(e.args[0].elts[0]), self.tr(e.args[0].elts[1])
            if a.ty == S and b.ty == F:
                return V(f"({a.t} :: {b.t})", CATH)
            if a.ty == F and b.ty == S:
                return V(f"({a.t} ++ [{b.t}])", CATT)
            raise Untranslatable("concat of " + str(a.ty) + ", " + str(b.ty))
        if fn == "np.log" and len(e.args) == 1 and not kw and getattr(k, "time_ok", False):
            v = self.tr(e.args[0])
            k.lead("log")
            if v.ty == S:
                return V(f"(log {v.t})", S)
            if v.ty == OS:
                return V(f"(Option.map log {v.t})", OS)
            raise Untranslatable("np.log of " + str(v.ty))
        if fn == "eval" and getattr(k, "eval_ok", False):
            if ast.unparse(e) != "eval(expr.lower())":
                raise Untranslatable("eval form " + ast.unparse(e)[:60])
            k.extra.append((f"{k.lean}_expr_src", f"def {k.lean}_expr_src : String := {q(ast.unparse(e))}"))
            return V("expr", S)
        if isinstance(e.func, ast.Attribute):
            at = e.func.attr
            recv = e.func.value
            # xrstats.<wrapper>(self._obj | self.oned(), …)
            if isinstance(recv, ast.Name) and recv.id == "xrstats":
                return self.wrapper_call(e, at, kw)
            # <wrapper>(dset, …) inside xrstats is handled in Name-call below
            # dset.spec.<method>(…)
            if isinstance(recv, ast.Attribute) and recv.attr == "spec" and isinstance(recv.value, ast.Name):
                return self.spec_call(e, recv.value.id, at, kw)
            if _is_self_attr(e.func) and at == "_peak":
                return self.peak_call(e, kw)
            if at == "isel" and not e.args and set(kw) == {"freq"}:
                v = self.tr(recv)
                i = _int_lit(kw["freq"])
                if v.ty != F or i is None or i < -1:
                    raise Untranslatable("isel " + ast.unparse(e)[:80])
                return V(f"(WS.lastD {v.t})" if i == -1 else f"(WS.getR {v.t} {i})", S)
            if at == "diff":
                v = self.tr(recv)
                args = list(e.args)
                if len(args) != 1 or _dim(args[0]) != "freq" or set(kw) != {"n", "label"} or _int_lit(kw["n"]) != 1 \
                        or not isinstance(kw["label"], ast.Constant):
                    raise Untranslatable("diff form " + ast.unparse(e)[-60:])
                want = {CATH: "upper", CATT: "lower"}.get(v.ty)
                if want is None:
                    raise Untranslatable("diff of " + str(v.ty))
                if kw["label"].value != want:
                    raise Untranslatable(f"diff label {kw['label'].value!r}: the differences would not carry the coordinates of arr")
                return V(f"(WS.XrP.diff1 {v.t})", F)
            if at == "argmax" and not e.args and set(kw) == {"dim"}:
                v = self.tr(recv)
                dim = _dim(kw["dim"])
                if (v.ty, dim) in ((F, "freq"), (D, "dir")):
                    return V(f"(WS.argmaxFirst {v.t})", NAT)
                raise Untranslatable(f"argmax of {v.ty} over {dim}")
            if at == "max" and not e.args and set(kw) == {"dim"}:
                v = self.tr(recv)
                if (v.ty, _dim(kw["dim"])) == (F, "freq"):
                    return V(f"(WS.XrP.maxV {v.t})", S)
                raise Untranslatable("max of " + str(v.ty))
            if at == "astype" and len(e.args) == 1 and not kw:
                v = self.tr(recv)
                a = ast.unparse(e.args[0])
                if v.ty == NAT and a == "int":
                    return v
                if v.ty in (S, OS) and a == "float":
                    return v
                raise Untranslatable("cast " + ast.unparse(e)[-40:])
            if at == "round" and not e.args and not kw and getattr(k, "time_ok", False):
                v = self.tr(recv)
                k.lead("round")
                if v.ty == S:
                    return V(f"(round {v.t})", S)
                if v.ty == OS:
                    return V(f"(Option.map round {v.t})", OS)
                raise Untranslatable("round of " + str(v.ty))
            if at == "mean" and getattr(k, "time_ok", False):
                src = ast.unparse(e)
                if src != "np.diff(self._obj.time).astype('timedelta64[s]').mean()":
                    raise Untranslatable("time step " + src[:80])
                k.xparam("dt", "Rat")
                k.extra.append((f"{k.lean}_dt_src", f"def {k.lean}_dt_src : String := {q(src)}"))
                return V("dt", S)
            if at == "chunk" and not e.args and not kw:
                v = self.tr(recv)
                if v.ty == B:
                    return v
                raise Untranslatable(".chunk() of " + str(v.ty))
            if at == "where":
                x = self.tr(recv)
                if x.ty == F and len(e.args) == 2 and not kw:
                    c, o = self.tr(e.args[0]), self.tr(e.args[1])
                    if c.ty != FB or o.ty not in (S, LIT):
                        raise Untranslatable("vector where with " + str(c.ty) + ", " + str(o.ty))
                    return V(f"(List.zipWith (fun x c => if c then x else {self.rat(o)}) {x.t} {c.t})", F)
                if x.ty == OM and len(e.args) == 2 and not kw:
                    c, o = self.tr(e.args[0]), self.tr(e.args[1])
                    if c.ty != B or o.ty != M:
                        raise Untranslatable("matrix where with " + str(c.ty) + ", " + str(o.ty))
                    return V(f"(if {c.t} then {x.t} else some {o.t})", OM)
        if isinstance(e.func, ast.Name) and e.func.id in _WSIGS and isinstance(self.k, WCtx):
            return self.wrapper_call(e, e.func.id, kw)
        return super().call(e)

    # ---- calls
    def _bind(self, sig_params, e, skip_first, kw):
        names = [n for n, _, _ in sig_params]
        given = {}
        pos = e.args[skip_first:]
        if len(pos) > len(names):
            raise Untranslatable("call arity " + ast.unparse(e)[:80])
        for n, a in zip(names, pos):
            given[n] = a
        for n, a in kw.items():
            if n not in names or n in given:
                raise Untranslatable("call keyword " + ast.unparse(e)[:80])
            given[n] = a
        out = []
        for n, want, dflt in sig_params:
            if n in given:
                g = given[n]
                if want == B and isinstance(g, ast.Constant) and isinstance(g.value, bool):
                    out.append("true" if g.value else "false")
                    continue
                v = self.tr(g)
                if want == S:
                    out.append(self.rat(v))
                elif want == NAT:
                    out.append(self.nat(v))
                elif v.ty == want:
                    out.append(v.t)
                else:
                    raise Untranslatable(f"call argument {n}: {v.ty} for {want}")
            elif dflt is not None:
                out.append(dflt)
            else:
                raise Untranslatable("missing argument " + n)
        return out

    def wrapper_call(self, e, name, kw):
        k = self.k
        if name not in _WSIGS:
            raise Untranslatable(f"call of xrstats.{name} (not a translated wrapper)")
        if not isinstance(k, WCtx):
            from .translate_native import _imports
            if _imports(SPECARRAY).get("xrstats") != "wavespectra.core":
                raise Untranslatable("xrstats is not imported from wavespectra.core")
        w = _WSIGS[name]
        if not e.args:
            raise Untranslatable("wrapper call without the spectrum: " + ast.unparse(e)[:80])
        first = self.tr(e.args[0])
        if w["kind"] == "F":
            if first.ty != F or "freq" not in k.avail:
                raise Untranslatable(f"xrstats.{name} needs a 1-D spectrum, got {first.ty}")
            front = ["freq", first.t]
        else:
            if first.ty != M or first.t != "obj":
                raise Untranslatable(f"xrstats.{name} needs self._obj, got {ast.unparse(e.args[0])[:40]}")
            for b in X.BASE:
                if b not in k.avail:
                    raise Untranslatable(f"xrstats.{name} needs self.{b}")
            front = list(X.BASE)
        out = self._bind(w["params"], e, 1, kw)
        for p in w["lead"]:
            k.lead(p)
        for n, t in w["xparams"]:
            k.xparam(n, t)
        for (tn, tt, ch) in w["tables"]:
            if tn not in [t[0] for t in k.tables]:
                k.tables.append((tn, tt, ch))
        args = list(w["lead"]) + front + out + [n for n, _ in w["xparams"]] + [t[0] for t in w["tables"]]
        return V("(" + " ".join([w["lean"]] + args) + ")", w["ret"])

    def peak_call(self, e, kw):
        if "_peak" not in _WSIGS or len(e.args) != 1 or kw:
            raise Untranslatable("_peak call " + ast.unparse(e)[:80])
        v = self.tr(e.args[0])
        if v.ty != F:
            raise Untranslatable("_peak of " + str(v.ty))
        return V(f"(xrPeak {v.t})", NAT)

    def spec_call(self, e, recv, at, kw):
        k = self.k
        if not isinstance(k, WCtx) or recv != "dset" or recv not in self.env:
            raise Untranslatable("accessor call " + ast.unparse(e)[:80])
        if at == "_peak":
            return self.peak_call(e, kw)
        cur = self.env[recv]
        if not (cur.ty == M and cur.t == "obj"):
            raise Untranslatable(f"{recv}.spec.{at} on a value that is not the spectrum itself")
        if at == "fdspr":
            # element-wise roots: not translated; the method is the oracle parameter `fdspr : Nat → List Rat` (of `mom`)
            src = ast.unparse(e)
            if e.args or set(kw) != {"mom"}:
                raise Untranslatable("fdspr call " + src)
            m = self.nat(self.tr(kw["mom"]))
            k.xparam("fdspr", "Nat → List Rat")
            k.extra.append((f"{k.lean}_fdspr_src", f"def {k.lean}_fdspr_src : String := {q(src)}"))
            return V(f"(fdspr {m})", F)
        if at not in X._SIGS:
            raise Untranslatable(f"call of .spec.{at} (not a translated method)")
        fake = ast.Call(func=ast.Attribute(value=ast.Name(id="self"), attr=at), args=e.args, keywords=e.keywords)
        return self.method_call(fake, X._SIGS[at])


# ------------------------------------------------------------------------------------------------
# statements
# ------------------------------------------------------------------------------------------------
def _is_meta_assign(st, env):
    """`darr.name = …` / `darr.attrs = …`"""
    return (isinstance(st, ast.Assign) and len(st.targets) == 1 and isinstance(st.targets[0], ast.Attribute)
            and isinstance(st.targets[0].value, ast.Name) and st.targets[0].value.id in env
            and st.targets[0].attr in ("name", "attrs"))


class Block2:
    def __init__(self, k):
        self.k = k

    def value(self, v):
        if v.ty == LIT:
            return V(rat(v.t), S, True)
        if v.ty in ("RAW", CATH, CATT):
            raise Untranslatable("array without coordinates bound to a name")
        return v

    def plumb(self, st):
        self.k.plumbing.append(" ".join(ast.unparse(st).split()))

    def wrapper_guard(self, st, env):
        """plumbing `if`s of the xrstats wrappers, resolved for a spectrum with both dimensions → True when handled"""
        k = self.k
        if not isinstance(k, WCtx):
            return None
        test = ast.unparse(st.test)
        body = "; ".join(ast.unparse(s) for s in st.body)
        if test == "isinstance(dset, xr.Dataset)" and body == "dset = dset[attrs.SPECNAME]" and not st.orelse:
            self.plumb(st)
            return []
        if test == "attrs.DIRNAME not in dset.dims" and len(st.body) == 1 and isinstance(st.body[0], ast.Raise) and not st.orelse:
            if env["dset"].ty != M:
                raise Untranslatable("direction check on a 1-D spectrum")
            self.plumb(st)
            return []
        if test == "attrs.FREQNAME in dset.dims" and not st.orelse:
            if env["dset"].ty not in (M, F):
                raise Untranslatable("frequency check on " + str(env["dset"].ty))
            k.plumbing.append("if " + test + ":")
            return list(st.body)
        return None

    def block(self, stmts, env, ind, finish=None):
        k = self.k
        env = dict(env)
        pad = " " * ind
        out = []
        stmts = list(stmts)
        i = 0
        while i < len(stmts):
            st = stmts[i]
            i += 1
            tr = Tr2(k, env)
            if X._metadata(st):
                tgt = st.value.args[0].id if _call_name(st.value) == "set_spec_attributes" else st.value.func.value.value.id
                if tgt not in env:
                    raise Untranslatable("metadata call on an unknown name: " + ast.unparse(st)[:60])
                continue
            if _is_meta_assign(st, env) and isinstance(k, WCtx):
                self.plumb(st)
                continue
            if isinstance(st, ast.Assign):
                if len(st.targets) != 1:
                    raise Untranslatable("chained assignment")
                tg = st.targets[0]
                if isinstance(tg, ast.Name):
                    # dset = dset.chunk({attrs.X: -1})
                    if (isinstance(k, WCtx) and tg.id == "dset" and isinstance(st.value, ast.Call) and isinstance(st.value.func, ast.Attribute)
                            and st.value.func.attr == "chunk" and ast.unparse(st.value.func.value) == "dset"):
                        a = st.value.args
                        if not (len(a) == 1 and not st.value.keywords and isinstance(a[0], ast.Dict) and len(a[0].keys) == 1
                                and _neg1(a[0].values[0])):
                            raise Untranslatable("chunk form " + ast.unparse(st)[:80])
                        _dim(a[0].keys[0])
                        self.plumb(st)
                        continue
                    kn = _npstats_kernel(st.value)
                    if kn is not None:
                        env[tg.id] = V(kn, KERN)
                        continue
                    if isinstance(st.value, ast.Call) and _call_name(st.value) == "xr.apply_ufunc":
                        v = self.apply_ufunc(st.value, env)
                    else:
                        v = self.value(tr.tr(st.value))
                    if v.ty == PYL:
                        env[tg.id] = v
                        continue
                    if isinstance(v.ty, tuple):
                        raise Untranslatable("tuple bound to one name")
                    nm = k.local(tg.id)
                    if isinstance(k, WCtx) and tg.id == "dset":
                        nm = "dset_1" if k.kind == "M" else "dset"
                        if k.kind == "F" and v.ty != F:
                            raise Untranslatable("dset re-bound to " + str(v.ty))
                    out.append(f"{pad}let {nm} := {v.t}")
                    env[tg.id] = V(nm, v.ty, v.const)
                    continue
                if isinstance(tg, ast.Tuple) and all(isinstance(x, ast.Name) for x in tg.elts):
                    v = tr.tr(st.value)
                    if not (isinstance(v.ty, tuple) and len(v.ty) == len(tg.elts) == 2):
                        raise Untranslatable("tuple assignment " + ast.unparse(st)[:80])
                    tmp = "_".join(x.id for x in tg.elts)
                    out.append(f"{pad}let {tmp} := {v.t}")
                    for j, x in enumerate(tg.elts):
                        nm = k.local(x.id)
                        out.append(f"{pad}let {nm} := {tmp}.{j + 1}")
                        env[x.id] = V(nm, v.ty[j])
                    continue
                raise Untranslatable("assignment target " + ast.unparse(tg))
            if isinstance(st, ast.AugAssign):
                if not (isinstance(st.target, ast.Name) and st.target.id in env and type(st.op) in ARITH):
                    raise Untranslatable("augmented assignment " + ast.unparse(st)[:80])
                v = tr.arith(ARITH[type(st.op)], tr.tr(st.target), tr.tr(st.value), ast.unparse(st)[:80])
                nm = k.local(st.target.id)
                out.append(f"{pad}let {nm} := {v.t}")
                env[st.target.id] = V(nm, v.ty)
                continue
            if isinstance(st, ast.For):
                # for i, c in enumerate(p[::-1]): <body>   (unrolled over the literal list p)
                it = st.iter
                ok = (isinstance(st.target, ast.Tuple) and len(st.target.elts) == 2 and all(isinstance(x, ast.Name) for x in st.target.elts)
                      and not st.orelse and _call_name(it) == "enumerate" and len(it.args) == 1 and not it.keywords)
                if not ok:
                    raise Untranslatable("loop " + ast.unparse(st)[:60])
                src = ast.unparse(it.args[0])
                seq = it.args[0]
                rev = False
                if isinstance(seq, ast.Subscript) and ast.unparse(seq.slice) == "::-1":
                    rev, seq = True, seq.value
                if not (isinstance(seq, ast.Name) and seq.id in env and env[seq.id].ty == PYL):
                    raise Untranslatable("loop over " + src)
                vals = list(env[seq.id].t)
                if rev:
                    vals.reverse()
                ni, nc = st.target.elts[0].id, st.target.elts[1].id
                unrolled = []
                for j, c in enumerate(vals):
                    unrolled.append(("bind", ni, V(str(j), NAT), nc, V(rat(c), S, True)))
                    unrolled.extend(st.body)
                stmts[i:i] = unrolled
                continue
            if isinstance(st, tuple) and st[0] == "bind":
                env[st[1]], env[st[3]] = st[2], st[4]
                continue
            if isinstance(st, ast.If):
                g = self.wrapper_guard(st, env)
                if g is not None:
                    stmts[i:i] = g
                    continue
                # kernel selection
                if (len(st.body) == 1 and len(st.orelse) == 1 and all(isinstance(s, ast.Assign) and len(s.targets) == 1
                        and isinstance(s.targets[0], ast.Name) and _npstats_kernel(s.value) for s in (st.body[0], st.orelse[0]))
                        and st.body[0].targets[0].id == st.orelse[0].targets[0].id):
                    c = tr.tr(st.test)
                    if c.ty != B:
                        raise Untranslatable("condition " + ast.unparse(st.test)[:80])
                    env[st.body[0].targets[0].id] = V((c.t, _npstats_kernel(st.body[0].value), _npstats_kernel(st.orelse[0].value)), KERN)
                    continue
                rest = stmts[i:]
                if X._returns([st]):
                    if rest:
                        raise Untranslatable("statements after a returning if")
                    t, ty = self.ifexpr(st, env, ind, None)
                    out.append(t)
                    return "\n".join(out), ty
                asg = X._assigned([st])
                live = [n for n in asg if (n in X._assigned(st.body) and n in X._assigned(st.orelse)) or n in env]
                if len(live) != 1:
                    raise Untranslatable(f"conditional assigning {asg}")
                n = live[0]
                nm = k.local(n)
                t, ty = self.ifexpr(st, env, ind + 2, lambda env2, n=n: env2[n])
                out.append(f"{pad}let {nm} :=\n{t}")
                env[n] = V(nm, ty)
                continue
            if isinstance(st, ast.Return):
                if i != len(stmts):
                    raise Untranslatable("statements after return")
                if st.value is None:
                    raise Untranslatable("bare return")
                v = self.value(tr.tr(st.value))
                out.append(pad + v.t)
                return "\n".join(out), v.ty
            raise Untranslatable("statement " + (ast.unparse(st)[:80] if isinstance(st, ast.AST) else str(st)))
        if finish is None:
            raise Untranslatable("block without return")
        v = self.value(finish(env))
        out.append(pad + v.t)
        return "\n".join(out), v.ty

    def ifexpr(self, st, env, ind, finish):
        pad = " " * ind
        c = Tr2(self.k, env).tr(st.test)
        if c.ty != B:
            raise Untranslatable("condition " + ast.unparse(st.test)[:80])
        thn, t1 = self.block(st.body, env, ind + 4, finish)
        els, t2 = self.block(st.orelse, env, ind + 4, finish)
        if t1 != t2:
            if {t1, t2} == {S, OS}:        # a literal next to a possibly-NaN value
                if t1 == S:
                    thn = self._some(thn)
                else:
                    els = self._some(els)
                t1 = OS
            else:
                raise Untranslatable(f"branches of different types {t1} / {t2}")
        return f"{pad}(if {c.t} then\n{thn}\n{pad}  else\n{els})", t1

    @staticmethod
    def _some(text):
        lines = text.split("\n")
        last = lines[-1]
        lines[-1] = last[:len(last) - len(last.lstrip())] + "some " + last.lstrip()
        return "\n".join(lines)

    def apply_ufunc(self, e, env):
        """`xr.apply_ufunc(K, a₁.astype(t₁), …, **plumbing)` → `Gen.<K> a₁ …` ; casts and plumbing pinned as text"""
        k = self.k
        if not isinstance(k, WCtx) or not e.args:
            raise Untranslatable("apply_ufunc outside a wrapper")
        tr = Tr2(k, env)
        f = e.args[0]
        kn = _npstats_kernel(f)
        if kn is not None:
            sel = kn
        elif isinstance(f, ast.Name) and f.id in env and env[f.id].ty == KERN:
            sel = env[f.id].t
        else:
            raise Untranslatable("apply_ufunc of " + ast.unparse(f))
        from .translate_native import _imports
        if _imports(XRSTATS).get("npstats") != "wavespectra.core":
            raise Untranslatable("npstats is not imported from wavespectra.core")
        casts, vals = [], []
        for a in e.args[1:]:
            if not (isinstance(a, ast.Call) and isinstance(a.func, ast.Attribute) and a.func.attr == "astype" and len(a.args) == 1
                    and not a.keywords and isinstance(a.args[0], ast.Constant) and isinstance(a.args[0].value, str)):
                raise Untranslatable("apply_ufunc argument without a dtype cast: " + ast.unparse(a)[:60])
            casts.append(" ".join(ast.unparse(a).split()))
            vals.append(tr.tr(a.func.value))
        k.extra.append((f"{k.lean}_casts", f"/-- the arguments of `xr.apply_ufunc` with their dtype casts -/\ndef {k.lean}_casts : List String := {strlist(casts)}"))
        k.extra.append((f"{k.lean}_ufunc", f"/-- keyword plumbing of `xr.apply_ufunc` -/\ndef {k.lean}_ufunc : String := "
                        + q(", ".join(" ".join(ast.unparse(a).split()) for a in e.keywords))))

        def app(name):
            lean, lead, tys, tables, ret = NP_KERNELS[name]
            if len(vals) != len(tys):
                raise Untranslatable(f"npstats.{name} applied to {len(vals)} arguments")
            terms, opt = [], None
            for v, want in zip(vals, tys):
                if want == S and v.ty == OS:            # NaN in → NaN out
                    if opt is not None:
                        raise Untranslatable("two possibly-NaN scalar arguments")
                    opt = v.t
                    terms.append("x_")
                elif want == S:
                    terms.append(tr.rat(v))
                elif v.ty == want:
                    terms.append(v.t)
                else:
                    raise Untranslatable(f"npstats.{name} argument of type {v.ty} for {want}")
            for p in lead:
                k.lead(p)
            for t in tables:
                if t[0] not in [x[0] for x in k.tables]:
                    k.tables.append(t)
            call = " ".join([lean] + lead + terms + [t[0] for t in tables])
            if opt is not None:
                if ret != S:
                    raise Untranslatable("possibly-NaN argument of a kernel returning " + str(ret))
                return f"(Option.map (fun x_ => {call}) {opt})", OS
            return f"({call})", ret
        if isinstance(sel, tuple):
            c, a, b = sel
            (ta, ra), (tb, rb) = app(a), app(b)
            if ra != rb:
                raise Untranslatable("selected kernels of different types")
            return V(f"(if {c} then {ta} else {tb})", ra)
        t, r = app(sel)
        return V(t, r)


# ------------------------------------------------------------------------------------------------
# kernels
# ------------------------------------------------------------------------------------------------
def _emit(k, ret_ty, body, doc, extra_first=True):
    out = [(n, t + "\n") for n, t in k.extra]
    out += X._guards_def(k)
    if getattr(k, "plumbing", None):
        out.append((f"{k.lean}_plumbing", f"/-- statements that do not change the value of one spectrum (pinned as text) -/\n"
                    f"def {k.lean}_plumbing : List String := {strlist(k.plumbing)}\n"))
    out.append((k.lean, X.define(k, k.lean, X.lean_ty(ret_ty), body, doc)))
    return out


def xr_peak():
    k = Ctx2(SPECARRAY, "SpecArray._peak", "xrPeak", {"arr": F}, "self", avail=[])
    body, ty = Block2(k).block(body_stmts(k.fn), k.env0(), 2)
    if ty != NAT:
        raise Untranslatable("_peak returns " + str(ty))
    _WSIGS["_peak"] = dict(lean="xrPeak")
    return _emit(k, ty, body, "`SpecArray._peak`: index of the largest interior strict local maximum (0 = none)")


def _wrapper(name, lean, kind, ptypes, tables=()):
    def f():
        k = WCtx(name, lean, kind, ptypes, tables)
        dflt = k.default_terms()
        body, ty = Block2(k).block(body_stmts(k.fn), k.env0(), 2)
        _WSIGS[name] = dict(lean=lean, kind=kind, lead=k.lead_args(), params=[(a, t, dflt.get(a)) for a, t in k.ptypes.items()],
                            xparams=list(k.xparams), tables=list(k.tables), ret=ty)
        return _emit(k, ty, body, f"`xrstats.{name}` for one spectrum")
    f.__name__ = "xrp_" + name
    return f


def _method(py, lean, ptypes=None, flags=(), avail=X.BASE):
    def f():
        k = Ctx2(SPECARRAY, "SpecArray." + py, lean, ptypes or {}, "self", avail=avail)
        for fl in flags:
            setattr(k, fl, True)
        if "eval_ok" in flags:
            k.xparam("expr", "Rat")
        dflt = k.default_terms()
        body, ty = Block2(k).block(body_stmts(k.fn), k.env0(), 2)
        X._SIGS[py] = X.Sig(lean, k.lead_args(), list(k.avail), [(a, t, dflt.get(a)) for a, t in k.ptypes.items()], list(k.tables), ty)
        X._SIGS[py].xparams = list(k.xparams)
        return _emit(k, ty, body, f"`SpecArray.{py}`")
    f.__name__ = "xrp_m_" + py
    return f


_orig_method_call = X.Tr.method_call


def _method_call(self, e, sig):
    if getattr(sig, "xparams", None):
        raise Untranslatable(f"call of {sig.lean_name}, which has extra parameters")
    return _orig_method_call(self, e, sig)


Tr2.method_call = _method_call


def xr_dpm_full():
    """`dpm` = (arithmetic after arctan2) ∘ arctan2 ∘ (argument pair): the composition over the oracle `atan2`, for callers"""
    if "dpm" not in X._SIGS or X._SIGS["dpm"].lean_name != "xrDpmVec" or X._SIGS["dpm"].ret != OSS:
        raise Untranslatable("dpm is not translated")
    sg = X._SIGS["dpm"]
    if sg.lead:
        raise Untranslatable("dpm with oracle parameters")
    tabs = " ".join(f"({n} : {LEAN_TY[t]})" for n, t, _ in sg.tables)
    base = " ".join(f"({a} : {LEAN_TY[X.BASE_TY[a]]})" for a in sg.base)
    args = " ".join(list(sg.base) + [t[0] for t in sg.tables])
    txt = ("/-- `SpecArray.dpm` over the oracle `atan2`: `npstats.dpm` = `npDpmPost ∘ atan2 ∘ npDpmVec` -/\n"
           f"def xrDpm (pi : Rat) (atan2 : Rat → Rat → Rat) {base} {tabs} : Option Rat :=\n"
           f"  Option.map (fun v => WS.Gen.npDpmPost pi (atan2 v.1 v.2)) (xrDpmVec {args})\n")
    X._SIGS["dpm"] = X.Sig("xrDpm", ["pi", "atan2"], list(sg.base), [], list(sg.tables), OS)
    return [("xrDpm", txt)]


def xr_fdspr():
    """`SpecArray.fdspr`: its value needs element-wise roots (outside the grammar); the INGREDIENTS `(a, b, e)` (three `(freq)`-vectors)
    are translated with the grammar of `translate_xr`, the closing formula and the return are pinned as text"""
    k = X.Ctx("fdspr", "xrFdsprABE", {"mom": NAT}, tables=("cp", "sp"))
    stmts = body_stmts(k.fn)
    if len(stmts) < 3 or not isinstance(stmts[-1], ast.Return) or not isinstance(stmts[-2], ast.Assign):
        raise Untranslatable("fdspr: shape of the body")
    tail = [" ".join(ast.unparse(x).split()) for x in stmts[-2:]]
    dflt = k.default_terms()

    def fin(env):
        vs = []
        for n in ("a", "b", "e"):
            if n not in env or env[n].ty != F:
                raise Untranslatable(f"fdspr: ingredient {n}")
            vs.append(env[n].t)
        return V("(" + ", ".join(vs) + ")", (F, F, F))
    body, ty = X.Block(k).block(stmts[:-2], k.env0(), 2, finish=fin)
    out = [(n, t + "\n") for n, t in k.extra] + X._guards_def(k)
    out.append(("xrFdspr_formula", "/-- the closing statements of `SpecArray.fdspr` (element-wise roots: pinned as text) -/\n"
                f"def xrFdspr_formula : List String := {strlist(tail)}\n"))
    out.append(("xrFdsprABE", X.define(k, "xrFdsprABE", X.lean_ty(ty), body, "`SpecArray.fdspr`: the ingredients `(a, b, e)` of the closing formula")))
    return out


BOUNDS = {n: BND for n in ("hs_min", "hs_max", "tp_min", "tp_max", "dpm_min", "dpm_max")}

XRP_KERNELS = [
    xr_peak,
    _wrapper("peak_wave_period", "xrpPeakWavePeriod", "F", {"smooth": B}),
    _wrapper("peak_wave_direction", "xrpPeakWaveDirection", "M", {}),
    _wrapper("mean_direction_at_peak_wave_period", "xrpDpmVec", "M", {}),
    _wrapper("peak_directional_spread", "xrpPeakDirectionalSpread", "M", {"mom": NAT}),
    _wrapper("alpha", "xrpAlpha", "F", {"smooth": B}),
    xr_fdspr,
    _method("tp", "xrTp", {"smooth": B}),
    _method("fp", "xrFp", {"smooth": B}),
    _method("dp", "xrDp"),
    _method("dpm", "xrDpmVec"),
    xr_dpm_full,
    _method("dpspr", "xrDpspr", {"mom": NAT}),
    _method("alpha", "xrAlpha", {"smooth": B}),
    _method("gamma", "xrGamma", {"smooth": B, "scaled": B}),
    _method("hmax", "xrHmax", flags=("time_ok",)),
    _method("scale_by_hs", "xrScaleByHs", {"expr": SKIP, **BOUNDS}, flags=("eval_ok",)),
]

HEADER = ("import WsVerif.Gen.Prelude\n"
          "import WsVerif.Gen.Tps\n"
          "import WsVerif.Gen.NpKernels\n"
          "import WsVerif.Gen.XrKernels\n"
          "import WsVerif.Model.PeakXr\n"
          "/-! GENERATED by harness/translate_xr2.py from wavespectra/specarray.py and wavespectra/core/xrstats.py\n"
          "    (labelled-array grammar, peak statistics) — do not edit.  Bridged to the models in Props/C02xr.lean (`genxrp_*`). -/\n"
          "set_option linter.unusedVariables false\n"
          "namespace WS.Gen\n")


def generate_xr2(gen_dir):
    status = {}
    _WSIGS.clear()
    text = HEADER
    seen = set()
    for kf in XRP_KERNELS:
        try:
            defs = kf()
            for nm, src in defs:
                if nm in seen:
                    continue
                seen.add(nm)
                text += src + "\n"
                status["xrp_" + nm] = "ok"
        except Exception as e:  # Untranslatable, or a malformed tree: the tie is broken, the bridge will not build
            msg = f"{type(e).__name__}: {e}".replace("\n", " ")[:300]
            text += f"-- {kf.__name__}: untranslatable: {X._doc(msg)}\n\n"
            status[kf.__name__] = f"untranslatable: {msg}"
    text += "end WS.Gen\n"
    write_if_changed(gen_dir / "XrPeakKernels.lean", text)
    return status
